package main

import (
	"math"
	"sort"
	"strconv"

	"verifharness/gen"
	"verifharness/mon"
	"verifharness/ref"
)

// Sized-array cases, shared by C05 (no panic), C09/C10 (value or error per the model) and C16 (JSON
// closure): every built-in function in ten call shapes on arrays whose length sits on and around the
// usual internal thresholds (insertion-sort cut-offs, block sizes, pooled buffers), in sixteen element
// patterns (homogeneous, one odd element first / in the middle / last, objects with a consistent or an
// inconsistent key, all types mixed, all keys equal, nested, already ascending, descending, runs of ties,
// strings that are prefixes of each other).

var sizedLensQuick = []int{0, 1, 2, 3, 4, 5, 6, 7, 8, 9, 10, 11, 12, 13, 14, 15, 16, 17, 18, 19, 20, 21, 24, 25, 31, 32, 33, 63, 64, 65, 127, 128, 129, 192, 256, 1000}
var sizedLensThorough = []int{255, 257, 511, 512, 513, 1024, 4095, 4096, 4097, 10000}

const sizedPatterns = 27
const sizedForms = 16

var sizedFnNames []string

func init() {
	for n := range ref.Signatures {
		sizedFnNames = append(sizedFnNames, n)
	}
	sort.Strings(sizedFnNames)
}

func sizedLens(thorough bool) []int {
	if thorough {
		return append(append([]int(nil), sizedLensQuick...), sizedLensThorough...)
	}
	return sizedLensQuick
}

func sizedCount(thorough bool) int {
	return len(sizedFnNames) * sizedForms * sizedPatterns * len(sizedLens(thorough))
}

func sizedArray(n, pattern int) []interface{} {
	a := make([]interface{}, n)
	for i := range a {
		num := float64((i*7919+3)%(n+1)) - float64(n)/3 // distinct-ish, unsorted, some negative
		str := "s" + strconv.Itoa((i*104729+1)%(n+1))
		switch pattern {
		case 0:
			a[i] = num
		case 1:
			a[i] = str
		case 2, 3, 4: // numbers with one string first / middle / last
			a[i] = num
			if i == []int{0, n / 2, n - 1}[pattern-2] {
				a[i] = "odd"
			}
		case 5:
			a[i] = map[string]interface{}{"k": num, "v": float64(i)}
		case 6: // one key of the other type in the middle
			a[i] = map[string]interface{}{"k": num, "v": float64(i)}
			if i == n/2 {
				a[i] = map[string]interface{}{"k": "odd", "v": float64(i)}
			}
		case 7: // last key null
			a[i] = map[string]interface{}{"k": str, "v": float64(i)}
			if i == n-1 {
				a[i] = map[string]interface{}{"k": nil, "v": float64(i)}
			}
		case 8:
			a[i] = []interface{}{num, str, true, nil, []interface{}{num}, map[string]interface{}{"k": num}, false, ""}[i%8]
		case 9: // all keys equal: order of equal elements is observable
			a[i] = map[string]interface{}{"k": float64(1), "v": float64(i)}
		case 10:
			a[i] = []interface{}{num}
		case 11: // already ascending
			a[i] = float64(i) - float64(n)/2
		case 12: // descending
			a[i] = float64(n) - float64(i)
		case 13: // few distinct keys, many ties, in runs
			a[i] = map[string]interface{}{"k": float64((i / 3) % 2), "v": float64(i)}
		case 14: // strings that are prefixes of each other, duplicates, multi-byte
			a[i] = []string{"a", "ab", "abc", "", "ab", "é", "e\u0301", "abcd", "b", "a"}[(i*7)%10]
		case 16: // string keys, one number in the middle (a key expression over k fails there, after string keys were seen)
			a[i] = map[string]interface{}{"k": str, "v": float64(i)}
			if i == n/2 {
				a[i] = map[string]interface{}{"k": num, "v": float64(i)}
			}
		case 17: // string keys, a number second
			a[i] = map[string]interface{}{"k": str, "v": float64(i)}
			if i == 1 {
				a[i] = map[string]interface{}{"k": num, "v": float64(i)}
			}
		case 18: // fractions that cancel exactly (the total is 0 for even n)
			a[i] = float64(i/2) + 0.5
			if i%2 == 1 {
				a[i] = -(float64(i/2) + 0.5)
			}
		case 19: // zeros of both signs
			a[i] = float64(0)
			if i%3 == 1 {
				a[i] = math.Copysign(0, -1)
			}
		case 20: // descending with ties at the top (the largest key occurs three times, on different elements)
			k := float64(n - i)
			if i < 3 {
				k = float64(n)
			}
			a[i] = map[string]interface{}{"k": k, "v": float64(i)}
		case 21: // two huge terms that cancel first, then small integers: every partial sum of the left-to-right sum is exact
			a[i] = float64(i%5 + 1)
			if i == 0 {
				a[i] = 1e16
			} else if i == 1 {
				a[i] = -1e16
			}
		case 22: // small exact binary fractions (any order of addition gives the same sum) with one huge pair at the end
			a[i] = float64(i%8) / 8
			if n >= 2 && i == n-2 {
				a[i] = float64(4503599627370496) // 2^52: the partial sums before it are far below the spacing of doubles there
			} else if n >= 2 && i == n-1 {
				a[i] = float64(-4503599627370496)
			}
		case 23: // the element type changes half-way (numbers, then strings)
			a[i] = num
			if i >= n/2 {
				a[i] = str
			}
		case 24: // objects whose key type changes half-way
			a[i] = map[string]interface{}{"k": num, "v": float64(i)}
			if i >= (n+1)/2 {
				a[i] = map[string]interface{}{"k": str, "v": float64(i)}
			}
		case 25: // objects whose keys are strings throughout (unsorted, some repeated: ties keep their input order)
			a[i] = map[string]interface{}{"k": "s" + strconv.Itoa((i*104729+1)%(n/2+1)), "v": float64(i)}
		case 26: // string keys that are prefixes of each other, the empty string, multi-byte characters
			a[i] = map[string]interface{}{"k": []string{"a", "ab", "abc", "", "ab", "é", "e\u0301", "abcd", "b", "a"}[(i*7)%10], "v": float64(i)}
		default: // descending keys with ties at the end
			k := float64(n - i)
			if i >= n-3 {
				k = 0
			}
			a[i] = map[string]interface{}{"k": k, "v": float64(i)}
		}
	}
	return a
}

// sizedCase decodes case i into a tree and a document.
func sizedCase(i int, thorough bool) (*gen.Expr, interface{}, string) {
	lens := sizedLens(thorough)
	n := lens[i%len(lens)]
	i /= len(lens)
	pattern := i % sizedPatterns
	i /= sizedPatterns
	form := i % sizedForms
	fn := sizedFnNames[i/sizedForms%len(sizedFnNames)]
	a := gen.Field("a")
	var tree *gen.Expr
	switch form {
	case 0:
		tree = gen.Func(fn, a)
	case 1:
		tree = gen.Func(fn, a, gen.ExpRef(gen.Field("k")))
	case 2:
		tree = gen.Func(fn, gen.ExpRef(gen.Field("k")), a)
	case 3:
		tree = gen.Func(fn, a, a)
	case 4:
		tree = gen.Func(fn, gen.Field("s"), a)
	case 5:
		tree = gen.Func(fn, a, gen.Field("s"))
	case 6:
		tree = gen.Func(fn, a, gen.LitJSON("1"))
	case 7:
		tree = gen.Func(fn, gen.Chain(a, gen.StListStar(), gen.StField("k")))
	case 8:
		tree = gen.Func(fn, gen.Chain(a, gen.StListStar(), gen.StField("v")), gen.ExpRef(gen.Current()))
	case 9:
		tree = gen.Chain(gen.MultiList(gen.Func(fn, a), gen.Func(fn, a)), gen.StIndex(1))
	case 10: // a key expression that fails where k is not a string / not a number
		tree = gen.Func(fn, a, gen.ExpRef(gen.Func("length", gen.Field("k"))))
	case 11:
		tree = gen.Func(fn, a, gen.ExpRef(gen.Func("join", gen.Raw(""), gen.MultiList(gen.Field("k")))))
	case 12: // a selection directly behind the call
		tree = gen.Chain(gen.Func(fn, a, gen.ExpRef(gen.Field("k"))), gen.StIndex(-1), gen.StField("v"))
	case 13:
		tree = gen.Chain(gen.Func(fn, a, gen.ExpRef(gen.Field("k"))), gen.StIndex(0), gen.StField("v"))
	case 14:
		tree = gen.MultiList(gen.Chain(gen.Func(fn, a), gen.StIndex(-1)), gen.Chain(gen.Func(fn, a), gen.StIndex(0)), gen.Chain(gen.Func(fn, a), gen.StSliceS("", "2", "")))
	default:
		tree = gen.Func(fn, gen.ExpRef(gen.Func("abs", gen.Field("k"))), a)
	}
	doc := map[string]interface{}{"a": sizedArray(n, pattern), "s": "s1", "k": float64(1)}
	return tree, doc, fn + " form " + strconv.Itoa(form) + " pattern " + strconv.Itoa(pattern) + " length " + strconv.Itoa(n)
}

// sizedWorkload judges every case against the model through both entry points.
func sizedWorkload(r *mon.Run, name string, onlyErrors bool) mon.Workload {
	th := r.Tier == "thorough"
	return mon.Workload{Name: name, N: sizedCount(th), Batch: 500,
		Describe: func(i int) string { _, _, d := sizedCase(i, th); return d },
		Do: func(i int, t *mon.Tally) {
			tree, doc, _ := sizedCase(i, th)
			expr := gen.SpellTight(tree)
			cx := &caseCtx{r, t, name, i}
			if onlyErrors {
				res := ref.RefSet(tree, doc, gen.Quirks{})
				if !isErr(res) {
					return
				}
			}
			res, _, _ := cx.runBoth(tree, expr, doc)
			if res.Skipped == "" && !res.DontCare {
				if isErr(res) {
					t.Count("sized cases expecting an error")
				} else {
					t.Count("sized cases expecting a value")
				}
				t.Nontrivial("sized:" + strconv.Itoa(i))
			}
		}}
}
