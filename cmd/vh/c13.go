package main

import (
	"encoding/json"
	"fmt"
	"math"
	"runtime"
	"strconv"
	"strings"
	"unicode"

	jmespath "github.com/jmespath/go-jmespath"

	"verifharness/docs"
	"verifharness/gen"
	"verifharness/mon"
	"verifharness/ref"
)

// C13 — compiled expressions and parsers are history-independent; one-shot = compiled.

func init() { register("C13", c13) }

// perturb swaps the values of some typed keys so that well-typed calls fail.
func perturb(rng *gen.Rand, d map[string]interface{}) map[string]interface{} {
	out := mon.DeepCopy(d).(map[string]interface{})
	keys := []string{"n", "m", "s", "t", "an", "as", "ao", "o", "aa"}
	for k := 0; k < 3; k++ {
		a, b := gen.Pick(rng, keys), gen.Pick(rng, keys)
		out[a], out[b] = out[b], out[a]
	}
	return out
}

// agree: do two observations of the same call agree, up to the member order
// the specification leaves open?
func agree(res ref.Result, a, b mon.Observed) bool {
	switch {
	case a.Panicked || b.Panicked:
		return false
	case res.DontCare:
		return true // unspecified by the function specification: only "no panic" is required
	case res.Skipped != "":
		// too many member orders to enumerate (an object with more than 6 members is iterated): an
		// order-sensitive operator downstream (an index, a slice) may legitimately select different
		// elements on each call, so nothing can be required of the pair. Not compared.
		return true
	case len(res.Outcomes) > 1:
		return matches(res, a) && matches(res, b)
	}
	return sameOutcome(a, b)
}

func parseOutcome(p *jmespath.Parser, e string) string {
	out, _, _ := parseOutcomeAST(p, e)
	return out
}

// parseOutcomeAST also hands out the syntax tree of a successful parse, so that the caller can look at
// it again after the Parser has been used for something else.
func parseOutcomeAST(p *jmespath.Parser, e string) (string, jmespath.ASTNode, bool) {
	var out string
	var kept jmespath.ASTNode
	ok := false
	o := mon.Guard(func() (interface{}, error) {
		ast, err := p.Parse(e)
		if err != nil {
			if se, ok := err.(jmespath.SyntaxError); ok {
				out = fmt.Sprintf("SyntaxError{%q offset=%d expr=%q}", se.Error(), se.Offset, se.Expression)
			} else {
				out = fmt.Sprintf("error %T %q", err, err.Error())
			}
			return nil, nil
		}
		out = jmespath.VerifSexpr(ast)
		kept, ok = ast, true
		return nil, nil
	})
	if o.Panicked {
		return "PANIC " + o.Panic, kept, false
	}
	return out, kept, ok
}

func c13(r *mon.Run) {
	r.Rule = "search histories: for each seeded expression (all fragments, weighted towards functions fed with literals and raw strings; plus the literal-fed function matrix) one compiled expression answers a history of 8-40 calls mixing documents on which it succeeds, documents on which it fails, and repetitions of earlier documents (every document a fresh deep copy); every response must equal (up to allowed member order) the response of a freshly compiled expression and of the one-shot Search for the same document, and the compiled AST (hook) must be unchanged after every call. " +
		"struct-document histories: 114 navigational expressions, each compiled once and run over 6-25 Go-struct documents of the embedding family (same types with nil and non-nil embedded pointers in changing order, as roots, in typed slices, in maps), every answer compared with a fresh compile and the one-shot Search on an identical document. long search histories: 3000 calls on one compiled expression over 6 documents. parser histories: one Parser parses sequences of 5-50 valid, ungrammatical and unlexable expressions interleaved; each result (AST, or error type, text, offset and expression) must equal that of a fresh Parser, and every syntax tree handed out earlier is rendered again later in the history and must not have changed; plus histories of 1500 parses dominated by one failing expression. Non-trivial = distinct histories containing a failing call followed by a succeeding one and a repeated document; parser histories containing a failure followed by a success."
	r.Floor = 200
	r.Assumptions = []string{"documents handed to the three call paths are separate deep copies, so document mutation (C06) cannot masquerade as history dependence"}
	base := c06BaseDoc()
	var fixed []*gen.Expr
	for _, c := range c06Calls(true, base) {
		ns := c06Nestings(c)
		fixed = append(fixed, ns[0], ns[5], ns[7])
	}
	for _, c := range c06Calls(false, base) {
		fixed = append(fixed, c)
	}
	fixed = append(fixed, c06Specials()...)
	fixed = append(fixed, c06HandBacks(false)...)
	// every ordered pair of functions that take an array of numbers or an array of strings, side by side: what one leaves behind
	// (a converted copy, a scratch slot) is not what the other picks up on the next search
	for _, f := range []string{"max", "min", "sort", "sum", "avg"} {
		for _, g := range []string{"max", "min", "sort", "join"} {
			sarg := func() *gen.Expr { return gen.Field("as") }
			gcall := gen.Func(g, sarg())
			if g == "join" {
				gcall = gen.Func("join", gen.Raw(","), sarg())
			}
			fixed = append(fixed, gen.MultiList(gen.Clone(gcall), gen.Func(f, gen.Field("an"))), gen.MultiList(gen.Func(f, gen.Field("an")), gen.Clone(gcall)),
				gen.MultiHash([]gen.Key{{Name: "last"}, {Name: "mean"}}, []*gen.Expr{gen.Clone(gcall), gen.Func(f, gen.Chain(gen.Field("ao"), gen.StListStar(), gen.StField("n")))}))
		}
	}
	fixed = append(fixed,
		gen.Pipe(gen.LitJSON("[3,1,2]"), gen.MultiList(gen.Chain(gen.Current(), gen.StIndex(0)), gen.Chain(gen.Func("sort_by", gen.Current(), gen.ExpRef(gen.Current())), gen.StIndex(0)))),
		gen.Pipe(gen.LitJSON(`[{"n":2},{"n":1}]`), gen.MultiList(gen.Chain(gen.Current(), gen.StIndex(0)), gen.Func("sort_by", gen.Current(), gen.ExpRef(gen.Field("n"))), gen.Chain(gen.Current(), gen.StIndex(0)))),
		gen.MultiList(gen.Raw("a'b"), gen.Raw("c"), gen.Field("s"), gen.Raw("d'e'f")),
	)
	nh := tierPick(r, 3000, 80000)
	hist := mon.Workload{Name: "search-histories", N: nh, Batch: 200,
		Do: func(i int, t *mon.Tally) {
			rng := gen.DeriveN(r.Seed, "c13hist", i)
			var tree *gen.Expr
			if i < len(fixed)*2 {
				tree = fixed[i%len(fixed)]
			} else {
				g := gen.NewTreeGen(rng)
				g.MaxDepth = 2 + rng.Intn(4)
				g.IllTyped = 15
				tree = g.Expr(0, gen.WAny)
			}
			expr := gen.Spell(tree)
			jp, co := apiCompile(expr)
			if co.Panicked || co.Err != nil {
				r.Inconclusive("C13 workload expression does not compile: " + expr)
				return
			}
			ast0 := jmespath.VerifSexpr(jmespath.VerifAST(jp))
			dg := docs.NewRand(rng)
			var pool []interface{}
			pool = append(pool, base)
			for k := 0; k < 4; k++ {
				d := dg.TypedDoc(0)
				pool = append(pool, d, perturb(rng, d))
			}
			pool = append(pool, nil, []interface{}{}, dg.Doc(), "str", "str2", float64(1), true)
			n := 8 + rng.Intn(33)
			seq := make([]int, n)
			for k := range seq {
				switch {
				case k >= n-2:
					seq[k] = seq[k-(n-2)] // repeat the first documents at the end
				case k > 2 && rng.Chance(1, 4):
					seq[k] = seq[rng.Intn(k)]
				default:
					seq[k] = rng.Intn(len(pool))
				}
				if k == 0 && i < len(fixed)*2 {
					seq[k] = 0 // the fixed expressions are written for the base document: it comes first, again somewhere, and last
				}
			}
			sawFail, failThenOK, repeated := false, false, false
			seen := map[int]bool{}
			var trace []string
			var keptResults []interface{}
			var keptSnaps []string
			for k, di := range seq {
				doc := pool[di]
				t.Eval()
				oc := apiJP(jp, mon.DeepCopy(doc))
				of := apiCompiledSearch(expr, mon.DeepCopy(doc))
				oo := apiSearch(expr, mon.DeepCopy(doc))
				if len(trace) < 12 {
					trace = append(trace, fmt.Sprintf("doc#%d -> %s", di, oc.Class()))
				}
				if oc.Panicked || of.Panicked || oo.Panicked {
					r.Violate(&mon.Violation{Workload: "search-histories", Index: i, API: "(*JMESPath).Search", Expr: expr, Doc: doc, Expected: "no panic", Observed: oc.String() + " / " + of.String() + " / " + oo.String(), Class: "panic"})
					return
				}
				res := ref.RefSet(tree, doc, gen.Quirks{})
				if !agree(res, oc, of) {
					r.Violate(&mon.Violation{Workload: "search-histories", Index: i, API: "(*JMESPath).Search", Expr: expr, Doc: doc,
						Expected: "call " + fmt.Sprint(k+1) + " of the history answers like a freshly compiled expression: " + of.String(), Observed: oc.String(),
						Detail: fmt.Sprintf("history (document indices): %v", seq[:k+1]), Class: "reused compiled expression differs from a fresh one"})
					return
				}
				if !agree(res, of, oo) {
					r.Violate(&mon.Violation{Workload: "search-histories", Index: i, API: "Search", Expr: expr, Doc: doc,
						Expected: "one-shot Search answers like Compile+Search: " + of.String(), Observed: oo.String(), Class: "one-shot differs from compiled"})
					return
				}
				if ast := jmespath.VerifSexpr(jmespath.VerifAST(jp)); ast != ast0 {
					r.Violate(&mon.Violation{Workload: "search-histories", Index: i, API: "(*JMESPath).Search", Expr: expr, Doc: doc, Expected: "compiled AST unchanged: " + ast0, Observed: ast,
						Detail: fmt.Sprintf("after call %d of history %v", k+1, seq), Class: "compiled AST modified by a call"})
					return
				}
				if oc.Err == nil && len(keptResults) < 12 {
					keptResults = append(keptResults, oc.V)
					keptSnaps = append(keptSnaps, mon.Snapshot(oc.V))
				}
				// what earlier calls returned is the caller's: later calls do not change it
				for q, kv := range keptResults {
					if now := mon.Snapshot(kv); now != keptSnaps[q] {
						r.Violate(&mon.Violation{Workload: "search-histories", Index: i, API: "(*JMESPath).Search", Expr: expr, Doc: doc,
							Expected: "the value an earlier call returned stays what it was: " + clipStr(keptSnaps[q], 400), Observed: clipStr(now, 400),
							Detail: fmt.Sprintf("after call %d of history %v", k+1, seq[:k+1]), Class: "earlier result changed by a later call"})
						return
					}
				}
				if oc.Err != nil {
					sawFail = true
				} else if sawFail {
					failThenOK = true
				}
				if seen[di] {
					repeated = true
				}
				seen[di] = true
			}
			if failThenOK && repeated {
				t.Nontrivial("h:" + expr + fmt.Sprint(seq))
				t.Count("histories with a failure followed by a success and a repeated document")
			}
			t.Count("histories")
			if i%997 == 0 {
				t.Sample(map[string]interface{}{"expression": expr, "history": trace})
			}
		}}
	// parser histories
	corpus := []string{"a", "a.b", "a[0]", "a[*].b", "[?a>`1`]", "{x: a, y: b}", "sort_by(a, &b)", "'raw'", "'it\\'s'", "`[1,2]`", "\"q\".b", "a || b && !c", "a | b", "*.a[]", "[a, b][0]", "f(@)", "a[1:2:3]", "'x' == 'y'",
		"'a\\'b' | 'c\\'d'", "'''", "'abc", "'a\\'b", "\"abc", "`abc", "\"\\x\"", "`{`", "a.", "a..b", "[", "a[", "(", "a)", "{a:", "a b", "#", "a#b", "é", "a == ", "&a", "f(a b)", "[0", "a[0:1:2:3]", "@(", "", " ", "'unterminated \\'",
		"\ufeffa", "\ufeffpeople[0].name", "\ufeff", "\u00a0a", "\u200ba", "\x00a", "people[0].name", "a ~ b", "a", "'unclosed", "\ufeff'x", "'1'", "`1`", "a == '1'", "a == `1`", "'true'", "`true`", "'null'", "`null`", "'[1]'", "`[1]`", "'\"a\"'", "`\"a\"`", "\"a\"", "'a'", "`{}`", "'{}'", "[?a == '1' || b == `1`]", "'*'", "['*']", "[*]", "\"*\"", "[\"*\"]",
		"'q\\'", "a['", "\"a\\\"", "a.'b'", "1", "-", "[-]", "a[99999999999999999999]",
		// calls without arguments (last thing parsed, or not), expression references in and out of place, every construct as the last thing parsed
		"f()", "a[?f()]", "a || f()", "[f(), g()]", "f(g())", "{a: f()}", "f().a", "!f()", "a == f()", "a.f()", "a | f()", "f(&a)", "f(&a, b)", "f(b, &a)", "&a.b || c", "& keys(@)", "&[0]", "&f()", "sort_by(items, &a.b)", "max_by(items, &score) || latest()",
		"a[", "a[?", "a[?b", "a.{", "a.[", "a[*", "a[]", "a[].", "!", "!a", "a &&", "a && b", "a <", "a < b", "a,", ",a", "a:", ":a", "a]", "a}", "`1` `2`", "a.*", "*", "*.", "a[::", "a[::]", "a[::-1]", "f(,)", "f(a,)", "f(a)b", "@", "@.", "@@", "()", "(a", "((a)", "{}", "[]", "[a,]", "{a: b,}", "a | ", "| a"}
	// every ordered pair of corpus entries on one Parser: whatever the first parse leaves behind (a flag set
	// by its last token, a buffer, a position) meets every kind of second expression
	pairs := mon.Workload{Name: "parser-pairs", N: len(corpus) * len(corpus), Batch: 5000,
		Describe: func(i int) string {
			return fmt.Sprintf("%q then %q on one Parser", corpus[i/len(corpus)], corpus[i%len(corpus)])
		},
		Do: func(i int, t *mon.Tally) {
			x, y := corpus[i/len(corpus)], corpus[i%len(corpus)]
			p := jmespath.NewParser()
			t.Eval()
			first := parseOutcome(p, x)
			got := parseOutcome(p, y)
			want := parseOutcome(jmespath.NewParser(), y)
			if got != want {
				r.Violate(&mon.Violation{Workload: "parser-pairs", Index: i, API: "(*Parser).Parse", Expr: y, Expected: "a reused Parser behaves like a fresh one: " + want, Observed: got,
					Detail: fmt.Sprintf("after parsing %q with the same Parser (outcome: %s)", x, clipStr(first, 200)), Class: "reused parser differs (pair)"})
				return
			}
			// and once more after the pair: the first expression again
			if again := parseOutcome(p, x); again != first {
				r.Violate(&mon.Violation{Workload: "parser-pairs", Index: i, API: "(*Parser).Parse", Expr: x, Expected: "a reused Parser behaves like a fresh one: " + first, Observed: again,
					Detail: fmt.Sprintf("after parsing %q and %q with the same Parser", x, y), Class: "reused parser differs (pair, first expression again)"})
				return
			}
			if (len(first) > 0 && first[0] != '(') != (len(got) > 0 && got[0] != '(') {
				t.Nontrivial("pp:" + strconv.Itoa(i))
			}
			t.Count("ordered pairs of expressions on one Parser")
		}}
	np := tierPick(r, 6000, 150000)
	ph := mon.Workload{Name: "parser-histories", N: np, Batch: 200,
		Do: func(i int, t *mon.Tally) {
			rng := gen.DeriveN(r.Seed, "c13parse", i)
			p := jmespath.NewParser()
			n := 5 + rng.Intn(46)
			sawFail, failThenOK := false, false
			var seq []string
			var keptASTs []jmespath.ASTNode
			var keptSexprs, keptExprs []string
			for k := 0; k < n; k++ {
				var e string
				switch rng.Intn(4) {
				case 0:
					g := gen.NewTreeGen(rng)
					g.MaxDepth = 2
					e = gen.SpellTight(g.Expr(0, gen.WAny))
				case 1:
					e = mutate(rng, gen.Pick(rng, corpus), corpus)
				default:
					e = gen.Pick(rng, corpus)
				}
				seq = append(seq, e)
				t.Eval()
				got, ast, parsed := parseOutcomeAST(p, e)
				if parsed {
					keptASTs = append(keptASTs, ast)
					keptSexprs = append(keptSexprs, got)
					keptExprs = append(keptExprs, e)
				}
				// syntax trees handed out earlier belong to the caller: later use of the Parser must not change them
				if k == n-1 || k%7 == 6 {
					for q, a := range keptASTs {
						if now := jmespath.VerifSexpr(a); now != keptSexprs[q] {
							r.Violate(&mon.Violation{Workload: "parser-histories", Index: i, API: "(*Parser).Parse", Expr: keptExprs[q],
								Expected: "the syntax tree returned for this expression stays what it was: " + keptSexprs[q], Observed: now,
								Detail: fmt.Sprintf("after the same Parser went on to parse %q", seq), Class: "earlier syntax tree changed by a later Parse"})
							return
						}
					}
					t.Count("re-inspections of earlier syntax trees")
				}
				want := parseOutcome(jmespath.NewParser(), e)
				if got != want {
					r.Violate(&mon.Violation{Workload: "parser-histories", Index: i, API: "(*Parser).Parse", Expr: e, Expected: "a reused Parser behaves like a fresh one: " + want, Observed: got,
						Detail: fmt.Sprintf("after parsing %q with the same Parser", seq[:len(seq)-1]), Class: "reused parser differs"})
					return
				}
				failed := len(got) > 0 && got[0] != '('
				if failed {
					sawFail = true
				} else if sawFail {
					failThenOK = true
				}
			}
			if failThenOK {
				t.Nontrivial(fmt.Sprint("p:", seq))
				t.Count("parser histories with a failure followed by a success")
			}
			if i%2003 == 0 && len(seq) > 3 {
				t.Sample(map[string]interface{}{"parser_history_first_items": seq[:4]})
			}
		}}
	// long histories dominated by failures (a counter or buffer that leaks a little per failed parse)
	failPool := []string{")", "]", "}", "a ==", "[foo", "((((", "(((((((((((((((((((((((((((((((", "a.", "a[", "{a:", "'x\\'", "\"x", "`x", "#", "f(", "a b", "!", "&a", "a ||", "[?", "*.[", "@(", ",", "a[0", "[:", "a."}
	okPool := []string{"foo", "foo.bar", "a[0].b", "(((((((((((((((((((((((((((((((((((((((a)))))))))))))))))))))))))))))))))))))))", "a[*].b[?c > `1`].d", "{x: a, y: [b, c]}", "sort_by(a, &b)[0]", "'raw'", "a || b && !c"}
	nl := tierPick(r, 24, 400)
	lph := mon.Workload{Name: "long-parser-histories", N: nl, Batch: 2,
		Do: func(i int, t *mon.Tally) {
			rng := gen.DeriveN(r.Seed, "c13long", i)
			p := jmespath.NewParser()
			focus := failPool[i%len(failPool)]
			for k := 0; k < 1500; k++ {
				var e string
				switch {
				case k%10 == 9:
					e = gen.Pick(rng, okPool)
				case rng.Chance(3, 4):
					e = focus
				default:
					e = gen.Pick(rng, failPool)
				}
				t.Eval()
				got := parseOutcome(p, e)
				want := parseOutcome(jmespath.NewParser(), e)
				if got != want {
					r.Violate(&mon.Violation{Workload: "long-parser-histories", Index: i, API: "(*Parser).Parse", Expr: e, Expected: "a reused Parser behaves like a fresh one: " + want, Observed: got,
						Detail: fmt.Sprintf("parse number %d on one Parser; the history is dominated by the failing expression %q", k+1, focus), Class: "reused parser differs after many failures"})
					return
				}
			}
			t.Nontrivial(fmt.Sprint("long:", i))
		}}
	// histories over Go-struct documents: what a compiled expression learns about a struct type from one
	// document (field tables, promoted fields behind a nil embedded pointer) must not leak into the next
	rootNames := []string{"Name", "ID", "Only", "Tag", "Own", "Mid"}
	var sexprs []string
	for _, n := range rootNames {
		sexprs = append(sexprs, n, "[ID, "+n+"]", "{a: "+n+", b: Name}", n+" || 'none'", "[*]."+n, "[?"+n+"].Name", "[0]."+n, "[-1]."+n,
			"PItems[*]."+n, "QItems[*]."+n, "Items[*]."+n, "QItems[?"+n+"].Tag", "PItems[?"+n+"].Name", "PSet."+n, "PNil."+n, "QSet."+n, "QNil."+n, "[QNil."+n+", QSet."+n+"]", "[QSet."+n+", QNil."+n+"]")
	}
	sroots := func(rng *gen.Rand) []func() interface{} {
		seed := rng.Uint64()
		sd := func(order int) func() interface{} {
			return func() interface{} { return docs.ShadowDoc(gen.DeriveN(seed, "c13sd", order), order) }
		}
		b := docs.ShBase{Name: "b", ID: 7, Only: "only"}
		return []func() interface{}{sd(0), sd(1), sd(2), sd(3),
			func() interface{} { return docs.PlainPtr{Tag: "root-nil"} },
			func() interface{} { bb := b; return docs.PlainPtr{ShBase: &bb, Tag: "root-set"} },
			func() interface{} { return &docs.PlainPtr{Tag: "proot-nil"} },
			func() interface{} { bb := b; return &docs.ShadowPtr{ShBase: &bb, Name: "proot-set"} },
			func() interface{} { return docs.ShadowPtr{Name: "sroot-nil"} },
			func() interface{} { bb := b; return []docs.PlainPtr{{Tag: "n"}, {ShBase: &bb, Tag: "s"}} },
			func() interface{} { bb := b; return []docs.PlainPtr{{ShBase: &bb, Tag: "s"}, {Tag: "n"}} },
			func() interface{} { bb := b; return []*docs.ShadowPtr{{Name: "n"}, nil, {ShBase: &bb, Name: ""}} },
			func() interface{} { return docs.Shadow{ShBase: b, Name: "own", Own: 1} },
			func() interface{} { return docs.ShDeep{ShMid: docs.ShMid{ShBase: b, ID: 9, Mid: "m"}, Only: "d"} },
		}
	}
	canonOut := func(o mon.Observed) string {
		if o.Panicked {
			return "PANIC " + o.Panic
		}
		if o.Err != nil {
			return "error"
		}
		if _, merr := json.Marshal(o.V); merr != nil {
			return "not serialisable: " + mon.Snapshot(o.V) // (a value JSON cannot hold - a non-finite number: compared as it is)
		}
		return mon.Snapshot(docs.JSONForm(o.V))
	}
	nsh := tierPick(r, 4000, 80000)
	sh := mon.Workload{Name: "struct-document-histories", N: nsh, Batch: 200,
		Do: func(i int, t *mon.Tally) {
			rng := gen.DeriveN(r.Seed, "c13sh", i)
			expr := sexprs[i%len(sexprs)]
			jp, co := apiCompile(expr)
			if co.Panicked || co.Err != nil {
				r.Inconclusive("C13 workload expression does not compile: " + expr)
				return
			}
			pool := sroots(rng)
			n := 6 + rng.Intn(20)
			var seq []int
			sawNull, nullThenValue := false, false
			for k := 0; k < n; k++ {
				di := rng.Intn(len(pool))
				if k > 1 && rng.Chance(1, 4) {
					di = seq[rng.Intn(k)]
				}
				seq = append(seq, di)
				t.Eval()
				oc := canonOut(apiJP(jp, pool[di]()))
				of := canonOut(apiCompiledSearch(expr, pool[di]()))
				oo := canonOut(apiSearch(expr, pool[di]()))
				if oc != of || of != oo {
					r.Violate(&mon.Violation{Workload: "struct-document-histories", Index: i, API: "(*JMESPath).Search", Expr: expr, DocDesc: clipStr(mon.Snapshot(pool[di]()), 900),
						Expected: "call " + fmt.Sprint(k+1) + " of the history answers like a freshly compiled expression (" + clipStr(of, 300) + ") and like one-shot Search (" + clipStr(oo, 300) + ")", Observed: clipStr(oc, 300),
						Detail: fmt.Sprintf("history (struct document indices): %v", seq), Class: "struct documents: reused compiled expression / one-shot / fresh differ"})
					return
				}
				if oc == "nil" || oc == "error" {
					sawNull = true
				} else if sawNull {
					nullThenValue = true
				}
			}
			t.Count("struct-document histories")
			if nullThenValue {
				t.Nontrivial(fmt.Sprint("sh:", expr, seq))
				t.Count("struct-document histories with a null/error answer followed by a value")
			}
		}}
	// long search histories: 3000 calls on one compiled expression over 6 documents (a counter that wraps, a
	// buffer that grows, a limit that is hit, "every n-th call"): every answer equals the first answer for
	// that document, which is checked against a fresh compile
	wideDoc := c06BaseDoc()
	{
		w := make([]interface{}, 400)
		for k := range w {
			w[k] = map[string]interface{}{"n": float64(k % 7), "i": float64(k), "l": []interface{}{float64(k)}}
		}
		wideDoc["wide"] = w
	}
	wd := func() *gen.Expr { return gen.Field("wide") }
	wideExprs := []*gen.Expr{
		gen.Chain(wd(), gen.StListStar(), gen.StField("n")), gen.Chain(wd(), gen.StFilter(gen.Cmp(">", gen.Field("n"), gen.LitJSON("1"))), gen.StField("i")), gen.Chain(wd(), gen.StFlatten(), gen.StField("i")),
		gen.Chain(wd(), gen.StListStar(), gen.StMultiList(gen.Field("n"), gen.Field("i"))), gen.Chain(wd(), gen.StSliceS("", "300", ""), gen.StField("n")), gen.Chain(wd(), gen.StListStar(), gen.StField("l"), gen.StFlatten()),
		gen.Chain(wd(), gen.StIndex(0), gen.StStar()), gen.Func("sum", gen.Chain(wd(), gen.StListStar(), gen.StField("n"))), gen.Func("map", gen.ExpRef(gen.Field("i")), wd()), gen.Func("sort_by", wd(), gen.ExpRef(gen.Field("n"))),
		gen.Func("length", gen.Chain(wd(), gen.StFilter(gen.Field("n")))), gen.Chain(wd(), gen.StListStar(), gen.StField("l"), gen.StListStar()),
	}
	nlh := tierPick(r, 60, 1200)
	lsh := mon.Workload{Name: "long-search-histories", N: nlh, Batch: 2,
		Do: func(i int, t *mon.Tally) {
			rng := gen.DeriveN(r.Seed, "c13long", i)
			tree := fixed[(i*13)%len(fixed)]
			if i < len(wideExprs) {
				tree = wideExprs[i] // projections over 400 elements: 3000 calls visit > 2^20 elements
			}
			expr := gen.Spell(tree)
			jp, co := apiCompile(expr)
			if co.Panicked || co.Err != nil {
				r.Inconclusive("C13 workload expression does not compile: " + expr)
				return
			}
			pool := []interface{}{base, perturb(rng, base), perturb(rng, base), docs.NewRand(rng).TypedDoc(0), nil, []interface{}{}}
			if i < len(wideExprs) {
				pool = []interface{}{wideDoc, wideDoc, perturb(rng, wideDoc), wideDoc, nil, wideDoc}
			}
			first := make([]mon.Observed, len(pool))
			res := make([]ref.Result, len(pool))
			for d := range pool {
				res[d] = ref.RefSet(tree, pool[d], gen.Quirks{})
				first[d] = apiCompiledSearch(expr, mon.DeepCopy(pool[d]))
			}
			calls := 3000
			for k := 0; k < calls; k++ {
				d := (k*7 + k/11) % len(pool)
				t.Eval()
				o := apiJP(jp, mon.DeepCopy(pool[d]))
				if !agree(res[d], o, first[d]) {
					r.Violate(&mon.Violation{Workload: "long-search-histories", Index: i, API: "(*JMESPath).Search", Expr: expr, Doc: pool[d],
						Expected: fmt.Sprintf("call %d of %d on one compiled expression answers like a freshly compiled one: %s", k+1, calls, first[d].String()), Observed: o.String(),
						Class: "long history: reused compiled expression differs from a fresh one"})
					return
				}
			}
			t.Count("long histories (3000 calls)")
			t.Nontrivial("lh:" + expr)
		}}
	// the caller updates its typed slices in place between two searches, or hands over a freshly built document
	// of the same shape (which may well land at the address of the previous one): a compiled expression sees
	// what the document holds now
	type tdoc struct {
		Tags []string
		Nums []float64
		Rows []map[string]interface{}
	}
	texprs := []string{"contains(Tags, 'prod')", "join(',', Tags)", "length(Tags)", "sum(Nums)", "max(Nums)", "sort(Nums)[0]", "sort(Tags)[-1]", "reverse(Tags)[0]", "avg(Nums)", "to_string(Tags)", "type(Nums)",
		"max_by(Rows, &n).n", "sort_by(Rows, &n)[0].n", "map(&n, Rows)", "length(Rows)", "not_null(Tags)[0]", "to_array(Nums)[1]", "min(Tags)", "Tags[?contains(@, 'd')] | length(@)", "merge(Rows[0], Rows[1]).n"}
	tsu := mon.Workload{Name: "typed-slice-updates-between-searches", N: len(texprs) * 3, Batch: 10,
		Do: func(i int, t *mon.Tally) {
			expr := texprs[i/3]
			mode := i % 3 // 0: one document updated in place, 1: a fresh document every round, 2: both alternating
			jp, co := apiCompile(expr)
			if co.Panicked || co.Err != nil {
				r.Inconclusive("C13 workload expression does not compile: " + expr)
				return
			}
			mk := func(k int) *tdoc {
				return &tdoc{Tags: []string{"dev", fmt.Sprint("t", k), "stage"}, Nums: []float64{float64(k), 2, 30}, Rows: []map[string]interface{}{{"n": float64(k % 5)}, {"n": float64(3)}}}
			}
			d := mk(0)
			for k := 1; k <= 200; k++ {
				if mode == 1 || (mode == 2 && k%2 == 0) {
					d = mk(k)
					if k%16 == 0 {
						runtime.GC()
					}
				} else {
					d.Tags[k%3] = []string{"prod", "dev", "x", "d"}[k%4]
					d.Nums[k%3] = float64(k % 11)
					d.Rows[k%2]["n"] = float64((k * 7) % 13)
				}
				t.Eval()
				got := canonOut(apiJP(jp, d))
				want := canonOut(apiSearch(expr, d))
				if got != want {
					r.Violate(&mon.Violation{Workload: "typed-slice-updates-between-searches", Index: i, API: "(*JMESPath).Search", Expr: expr, DocDesc: clipStr(mon.Snapshot(d), 500),
						Expected: fmt.Sprintf("round %d: what one-shot Search returns for the document as it is now: %s", k, clipStr(want, 300)), Observed: clipStr(got, 300), Class: "compiled expression answers for an earlier state of the caller's data"})
					return
				}
			}
			t.Nontrivial("tsu:" + expr + fmt.Sprint(mode))
		}}
	// one compiled expression over documents in which an element in the middle (first, second, third, last, the
	// 18th of 40) makes a projection body / filter condition / key expression fail, each followed by a document
	// on which everything succeeds: what a failing search leaves on the compiled expression (an error kept for
	// after the sort, a partially filled buffer) must not reach the next search
	felTrees, felDocs := c11LateCases()
	felOrder := []int{0, 2, 0, 3, 0, 1, 0, 4, 0, 6, 0, 7, 5, 0} // document 0 has no failing element
	// ... three times over and through the documents added later: whatever a compiled expression becomes after its 16th, 32nd
	// search (a specialised copy, a promoted cache) answers like the fresh one
	felOrder = append(append(append(felOrder, felOrder...), felOrder...), 8, 0, 9, 13, 0, 18, 22, 0, 27, 3, 2, 1, 4, 0)
	fel := mon.Workload{Name: "failing-elements-between-successes", N: len(felTrees), Batch: 20,
		Describe: func(i int) string { return gen.Spell(felTrees[i]) },
		Do: func(i int, t *mon.Tally) {
			tree := felTrees[i]
			expr := gen.Spell(tree)
			jp, co := apiCompile(expr)
			if co.Panicked || co.Err != nil {
				r.Inconclusive("C13 workload expression does not compile: " + expr)
				return
			}
			sawFail, failThenOK := false, false
			for k, di := range felOrder {
				doc := felDocs[di%len(felDocs)]
				t.Eval()
				oc := apiJP(jp, mon.DeepCopy(doc))
				of := apiCompiledSearch(expr, mon.DeepCopy(doc))
				oo := apiSearch(expr, mon.DeepCopy(doc))
				if oc.Panicked || of.Panicked || oo.Panicked {
					r.Violate(&mon.Violation{Workload: "failing-elements-between-successes", Index: i, API: "(*JMESPath).Search", Expr: expr, Doc: doc, Expected: "no panic", Observed: oc.String() + " / " + of.String() + " / " + oo.String(), Class: "panic"})
					return
				}
				res := ref.RefSet(tree, doc, gen.Quirks{})
				if !agree(res, oc, of) || !agree(res, of, oo) {
					r.Violate(&mon.Violation{Workload: "failing-elements-between-successes", Index: i, API: "(*JMESPath).Search", Expr: expr, Doc: doc,
						Expected: "call " + fmt.Sprint(k+1) + " of the history answers like a freshly compiled expression (" + of.String() + ") and like the one-shot Search (" + oo.String() + ")", Observed: oc.String(),
						Detail: fmt.Sprintf("history (document indices): %v", felOrder[:k+1]), Class: "reused compiled expression differs from a fresh one (failing elements)"})
					return
				}
				if oc.Err != nil {
					sawFail = true
				} else if sawFail {
					failThenOK = true
				}
			}
			if failThenOK {
				t.Nontrivial("fel:" + expr)
				t.Count("histories with a failing element followed by a success")
			}
		}}
	// expressions that invite a rewrite at compile time (an index behind a sort, a sort behind a sort, double
	// negation, an operator applied to twice the same operand, a one-member multi-select indexed at once, a slice
	// that keeps everything, a length of a filter, a map that is nearly a projection ...) on documents where the
	// rewritten form would differ: tied keys, nulls among the elements, empty lists, mixed kinds. The compiled
	// answer and the one-shot answer are both judged (runBoth) - whatever only Compile does must not show.
	rwTrees, rwDocs := c13Rewritable()
	rw := mon.Workload{Name: "compiled-versus-one-shot-on-rewritable-shapes", N: len(rwTrees) * len(rwDocs), Batch: 500,
		Describe: func(i int) string {
			return gen.Spell(rwTrees[i/len(rwDocs)]) + " on " + ref.Canon(rwDocs[i%len(rwDocs)])
		},
		Do: func(i int, t *mon.Tally) {
			tree, doc := rwTrees[i/len(rwDocs)], rwDocs[i%len(rwDocs)]
			cx := &caseCtx{r, t, "compiled-versus-one-shot-on-rewritable-shapes", i}
			expr := gen.Spell(tree)
			if i%2 == 1 {
				expr = gen.SpellTight(tree)
			}
			res, _, _ := cx.runBoth(tree, expr, doc)
			if res.Skipped == "" && !res.DontCare {
				t.Count("rewritable shapes judged through both entry points")
				if nonNull(res) {
					t.Nontrivial("rw:" + strconv.Itoa(i))
				}
			}
		}}
	// one compiled expression over documents that compare equal under == and still differ (0 and -0, 1 and 1.0 spelled
	// differently, equal strings held in different storage, equal lists and objects built afresh): whatever a compiled expression
	// remembers by VALUE of an operand must not carry the first one's rendering or identity over to the second
	twinExprs := []string{"to_string(@)", "to_string(n)", "[to_string(n), to_string(m)]", "@", "n", "to_string(a)", "a[*].to_string(@)", "join(',', a[*].to_string(@))", "to_string({k: n})", "sort(a)", "sort(a) | to_string(@)", "max(a)", "min(a)",
		"to_string(abs(n))", "to_string(ceil(n))", "to_string(floor(n))", "to_string(sum(a))", "to_string(avg(a))", "to_string(to_number(s))", "to_number(s)", "to_string(not_null(z, n))", "to_string(n) == to_string(m)", "{k: to_string(n), j: n}",
		"a[?to_string(@) == '-0']", "map(&to_string(@), a)", "sort_by(o, &n)[*].to_string(n)", "max_by(o, &n).t", "min_by(o, &n).t", "to_string(o[0].n)", "reverse(a)", "to_string(reverse(a))", "to_string(a[-1])", "to_string(merge({k: n}, {j: m}))", "to_string([n, m][0])", "type(n)", "n == m", "to_string(@.n)"}
	nz := math.Copysign(0, -1)
	twinDocs := func() []interface{} {
		mk := func(n, m float64, s string, a ...float64) interface{} {
			arr := make([]interface{}, len(a))
			for k, v := range a {
				arr[k] = v
			}
			return map[string]interface{}{"n": n, "m": m, "s": s, "z": nil, "a": arr, "o": []interface{}{map[string]interface{}{"n": n, "t": "first"}, map[string]interface{}{"n": m, "t": "second"}}}
		}
		return []interface{}{float64(0), nz, float64(0), nz, nz, mk(0, nz, "0", 0, nz, 1), mk(nz, 0, "-0", nz, 0, 1), mk(0, 0, "0.0", 0, 0), mk(nz, nz, "-0.0", nz, nz), mk(0, nz, "0e0", 1, nz, 0), mk(nz, 0, "-0e0", 1, 0, nz), mk(1, 1, "1.0", 1, 1), mk(1, 1, "1", 1, 1), mk(1, 1, "1e0", 1), float64(1), nz, float64(0)}
	}
	twin := mon.Workload{Name: "documents-that-compare-equal-but-differ", N: len(twinExprs) * 2, Batch: 10,
		Describe: func(i int) string { return twinExprs[i/2] },
		Do: func(i int, t *mon.Tally) {
			expr := twinExprs[i/2]
			jp, co := apiCompile(expr)
			if co.Panicked || co.Err != nil {
				r.Inconclusive("C13 workload expression does not compile: " + expr)
				return
			}
			ds := twinDocs()
			if i%2 == 1 { // the same documents in the opposite order
				for a, b := 0, len(ds)-1; a < b; a, b = a+1, b-1 {
					ds[a], ds[b] = ds[b], ds[a]
				}
			}
			for k, d := range ds {
				t.Eval()
				got := canonOut(apiJP(jp, mon.DeepCopy(d)))
				fresh := canonOut(apiCompiledSearch(expr, mon.DeepCopy(d)))
				one := canonOut(apiSearch(expr, mon.DeepCopy(d)))
				if got != fresh || got != one {
					r.Violate(&mon.Violation{Workload: "documents-that-compare-equal-but-differ", Index: i, API: "(*JMESPath).Search", Expr: expr, Doc: d,
						Expected: fmt.Sprintf("call %d on this compiled expression answers like a freshly compiled one (%s) and like the one-shot Search (%s)", k+1, clipStr(fresh, 300), clipStr(one, 300)), Observed: clipStr(got, 300),
						Class: "compiled expression answers for a document it saw earlier (equal under ==, not the same)"})
					return
				}
			}
			t.Nontrivial("twin:" + strconv.Itoa(i))
		}}
	// what is an expression does not depend on the entry point: the one-shot Search, Compile, MustCompile and a Parser accept and
	// reject the same strings - also strings a "simple path" short cut might take for an identifier path (letters and digits of
	// other scripts, look-alikes of the ASCII ones), searched on a document that HAS a member of that very name
	var odd []rune
	for cp := rune(0x80); cp <= 0x1FFFF; cp++ {
		if cp >= 0xD800 && cp <= 0xDFFF {
			continue
		}
		if unicode.IsDigit(cp) || unicode.IsNumber(cp) || (unicode.IsLetter(cp) && cp%23 == 0) || (unicode.IsMark(cp) && cp%5 == 0) || cp%997 == 0 || (cp >= 0xFF00 && cp <= 0xFFEF) {
			odd = append(odd, cp)
		}
	}
	oddForms := []string{"v%s", "%sv", "a.b%s", "a%s.b", "v%s1", "_%s"}
	epw := mon.Workload{Name: "entry-points-agree-on-what-is-an-expression", N: len(odd) * len(oddForms), Batch: 2000,
		Do: func(i int, t *mon.Tally) {
			c := string(odd[i/len(oddForms)])
			expr := strings.Replace(oddForms[i%len(oddForms)], "%s", c, 1)
			doc := map[string]interface{}{expr: "whole", "v" + c: "m1", c + "v": "m2", "a": map[string]interface{}{"b" + c: "m3", "b": "m4"}, "a" + c: map[string]interface{}{"b": "m5"}, "v" + c + "1": "m6", "_" + c: "m7"}
			t.Eval()
			one := apiSearch(expr, doc)
			_, co := apiCompile(expr)
			mc := mon.Guard(func() (interface{}, error) { jmespath.MustCompile(expr); return nil, nil })
			_, perr := jmespath.NewParser().Parse(expr)
			oneOK, compOK, mustOK, parseOK := !one.Panicked && one.Err == nil, !co.Panicked && co.Err == nil, !mc.Panicked, perr == nil
			if oneOK != compOK || compOK != mustOK || compOK != parseOK {
				r.Violate(&mon.Violation{Workload: "entry-points-agree-on-what-is-an-expression", Index: i, API: "Search / Compile / MustCompile / Parser.Parse", Expr: expr, Doc: doc,
					Expected: "all four entry points accept it or all four reject it", Observed: fmt.Sprintf("one-shot Search: %s; Compile ok=%v; MustCompile ok=%v; Parser.Parse ok=%v", one.String(), compOK, mustOK, parseOK), Class: "entry points disagree on what is an expression"})
				return
			}
			if oneOK {
				if cs := apiCompiledSearch(expr, doc); canonOut(cs) != canonOut(one) {
					r.Violate(&mon.Violation{Workload: "entry-points-agree-on-what-is-an-expression", Index: i, API: "Search vs Compile+Search", Expr: expr, Doc: doc, Expected: "the compiled answer " + cs.String(), Observed: "one-shot: " + one.String(), Class: "one-shot and compiled answers differ"})
					return
				}
			}
			t.NontrivialDistinct(1)
		}}
	// calls that a document never reaches (the right of a short-circuited || / &&, the body of a projection or a filter over an empty
	// list, a by-expression over an empty list) and that would fail if made - an unknown name, a wrong number of arguments, an
	// ill-typed literal: the expression is a sentence, every entry point accepts it, and compiled and one-shot give the same value
	neverMade := []string{"nosuch(a)", "abs()", "abs(a, a)", "length()", "abs('x')", "sort_by(a)", "map(a, a)", "nosuch()", "join(`1`, a)", "not_null()", "merge(`1`)", "abs(&a)", "UPPER(a)", "to_string()", "max_by(a, a)"}
	neverCtx := []string{"t || %s", "z && %s", "ea[*].%s", "ea[?%s]", "ea[].%s", "e.*.%s", "map(&%s, ea)", "sort_by(ea, &%s)", "max_by(ea, &%s)", "t || (z && %s)", "ea[:5].%s", "[t || %s, t]", "{k: z && %s}", "ea[?%s].x | [0]", "not_null(t || %s)", "missing[*].%s", "s[*].%s", "(t || %s) == t", "length(ea[*].%s)", "z[?%s]"}
	nmDoc := docs.J(`{"t":"yes","z":null,"ea":[],"e":{},"a":1,"s":"str"}`)
	// expressions that a short digest cannot tell apart (known collisions of common 32-bit checksums): each is its own expression
	collw := mon.Workload{Name: "expressions-that-collide-under-common-checksums", N: 1,
		Do: func(i int, t *mon.Tally) {
			pairs := [][2]string{{"costarring", "liquid"}, {"declinate", "macallums"}, {"altarage", "zinke"}, {"altarages", "zinkes"}, {"plumless", "buckeroo"}, {"a.costarring", "a.liquid"}, {"length(name)||k136079", "abs(name) || k0403522"}}
			doc := docs.J(`{"costarring":1,"liquid":2,"declinate":3,"macallums":4,"altarage":5,"zinke":6,"altarages":7,"zinkes":8,"plumless":9,"buckeroo":10,"a":{"costarring":11,"liquid":12},"name":"n","k136079":1,"k0403522":2}`)
			for _, pr := range pairs {
				for _, order := range [][2]string{{pr[0], pr[1]}, {pr[1], pr[0]}} {
					for _, e := range []string{order[0], order[1], order[0]} {
						t.Eval()
						one, comp := apiSearch(e, mon.DeepCopy(doc)), apiCompiledSearch(e, mon.DeepCopy(doc))
						if canonOut(one) != canonOut(comp) {
							r.Violate(&mon.Violation{Workload: "expressions-that-collide-under-common-checksums", Index: i, API: "Search vs Compile+Search", Expr: e, Doc: doc, Expected: "the compiled answer " + comp.String(), Observed: "one-shot (after searching " + order[0] + " / " + order[1] + "): " + one.String(), Class: "one-shot and compiled answers differ"})
							return
						}
					}
				}
			}
			t.Nontrivial("coll")
		}}
	nmw := mon.Workload{Name: "calls-that-are-never-made", N: len(neverMade) * len(neverCtx), Batch: 200,
		Do: func(i int, t *mon.Tally) {
			expr := strings.Replace(neverCtx[i%len(neverCtx)], "%s", neverMade[i/len(neverCtx)], 1)
			t.Eval()
			one := apiSearch(expr, mon.DeepCopy(nmDoc))
			jp, co := apiCompile(expr)
			mc := mon.Guard(func() (interface{}, error) { jmespath.MustCompile(expr); return nil, nil })
			_, perr := jmespath.NewParser().Parse(expr)
			if one.Panicked || one.Err != nil || co.Panicked || co.Err != nil || mc.Panicked || perr != nil {
				r.Violate(&mon.Violation{Workload: "calls-that-are-never-made", Index: i, API: "Search / Compile / MustCompile / Parser.Parse", Expr: expr, Doc: nmDoc,
					Expected: "a sentence of the grammar whose failing call this document never reaches: accepted by every entry point, a value from both Search paths", Observed: fmt.Sprintf("one-shot Search: %s; Compile: %s; MustCompile panicked=%v; Parser.Parse error=%v", one.String(), co.String(), mc.Panicked, perr), Class: "entry points disagree on an expression whose failing call is never made"})
				return
			}
			if cs := apiJP(jp, mon.DeepCopy(nmDoc)); canonOut(cs) != canonOut(one) {
				r.Violate(&mon.Violation{Workload: "calls-that-are-never-made", Index: i, API: "Search vs Compile+Search", Expr: expr, Doc: nmDoc, Expected: "the one-shot answer " + one.String(), Observed: "compiled: " + cs.String(), Class: "one-shot and compiled answers differ"})
				return
			}
			t.NontrivialDistinct(1)
		}}
	// the same argument seen again by the same compiled expression (and twice within one search): a function answers the second
	// time what it answered the first time - strings that are almost numbers, almost identifiers, almost JSON
	almost := []string{".5", "+1", "5.", "inf", "-inf", "Infinity", "nan", "0x10", "1e", " 1", "1 ", "1_0", "01", "1e5", "-0", "1.50", "0.5", "", "true", "null", "[1]", "\"1\"", "1,5", "\u0661", "1e+", "--1", "1.0e0", "9007199254740993"}
	almostExprs := []string{"to_number(@)", "[to_number(@), to_number(@)]", "to_number(@) == to_number(@)", "type(to_number(@))", "not_null(to_number(@), 'none')", "[@][*].to_number(@)", "map(&to_number(@), [@, @])", "to_string(to_number(@))", "sort_by([@, '2'], &not_null(to_number(@), `0`))", "length(@)", "[length(@), reverse(@), to_string(@), type(@)]", "starts_with(@, '1') || ends_with(@, '.')", "contains(@, '.')", "to_array(@)", "[@ == '.5', @ < `1`, !@]", "max([@, '0'])", "join(@, [@, @])"}
	alw := mon.Workload{Name: "arguments-seen-again-by-the-same-compiled-expression", N: len(almostExprs), Batch: 2,
		Describe: func(i int) string { return almostExprs[i] },
		Do: func(i int, t *mon.Tally) {
			expr := almostExprs[i]
			jp, co := apiCompile(expr)
			if co.Panicked || co.Err != nil {
				r.Inconclusive("C13 workload expression does not compile: " + expr)
				return
			}
			for pass := 0; pass < 3; pass++ {
				for k, sv := range almost {
					t.Eval()
					got := canonOut(apiJP(jp, sv))
					fresh := canonOut(apiCompiledSearch(expr, sv))
					one := canonOut(apiSearch(expr, sv))
					if got != fresh || got != one {
						r.Violate(&mon.Violation{Workload: "arguments-seen-again-by-the-same-compiled-expression", Index: i, API: "(*JMESPath).Search", Expr: expr, Doc: sv,
							Expected: fmt.Sprintf("pass %d, document %d: like a freshly compiled expression (%s) and the one-shot Search (%s)", pass+1, k+1, clipStr(fresh, 300), clipStr(one, 300)), Observed: clipStr(got, 300), Class: "compiled expression answers differently the second time it sees an argument"})
						return
					}
				}
			}
			t.Nontrivial("almost:" + strconv.Itoa(i))
		}}
	// failing searches: WHAT a search fails with (the error's text) is part of its result - the same from a compiled expression that
	// has failed before, from a fresh one and from the one-shot Search, call after call (no object is iterated in these expressions,
	// so no unspecified order can decide which error comes first)
	errExprs := []string{"mix(a)", "ma(a)", "mxa(a)", "sot(a)", "mi(a)", "maxby(a)", "to_strin(a)", "abs(s)", "abs(abs(s))", "length(abs(s))", "abs()", "abs(a, a)", "sort_by(a, &abs(s))", "map(&abs(s), l)", "l[*].abs(@)", "l[?abs(s) > `0`]", "[abs(s), length(n)]", "{k: abs(s)}", "abs(s) || 'x'", "join(',', l)", "l[::0]", "sum(l)", "max_by(l, &to_string(@))", "not_null(abs(s))", "merge(o, s)", "keys(l)", "starts_with(n, s)", "nosuch(nosuch2(a))", "to_number(abs(s))", "reverse(n)"}
	errDocs := []interface{}{docs.J(`{"a":1,"s":"str","n":3,"l":[1,"two",3],"o":{"k":1}}`), docs.J(`{"a":2,"s":"other","n":-1,"l":["x",2],"o":{}}`), docs.J(`{"a":1,"s":5,"n":"txt","l":[1,2],"o":{"k":1}}`)}
	etw := mon.Workload{Name: "what-a-search-fails-with-is-history-independent", N: len(errExprs), Batch: 4,
		Describe: func(i int) string { return errExprs[i] },
		Do: func(i int, t *mon.Tally) {
			expr := errExprs[i]
			jp, co := apiCompile(expr)
			if co.Panicked || co.Err != nil {
				r.Inconclusive("C13 workload expression does not compile: " + expr)
				return
			}
			text := func(o mon.Observed) string {
				if o.Panicked {
					return "PANIC " + o.Panic
				}
				if o.Err != nil {
					return "error: " + o.Err.Error()
				}
				return canonOut(o)
			}
			first := map[int]string{}
			for k := 0; k < 12; k++ {
				di := []int{0, 0, 1, 2, 0, 1, 1, 2, 2, 0, 1, 0}[k]
				d := errDocs[di]
				t.Eval()
				got, fresh, one := text(apiJP(jp, mon.DeepCopy(d))), text(apiCompiledSearch(expr, mon.DeepCopy(d))), text(apiSearch(expr, mon.DeepCopy(d)))
				prev, seen := first[di]
				if got != fresh || got != one || (seen && prev != got) {
					r.Violate(&mon.Violation{Workload: "what-a-search-fails-with-is-history-independent", Index: i, API: "(*JMESPath).Search", Expr: expr, Doc: d,
						Expected: fmt.Sprintf("call %d: like a freshly compiled expression (%s), like the one-shot Search (%s) and like the first time this document was searched (%s)", k+1, clipStr(fresh, 200), clipStr(one, 200), clipStr(prev, 200)), Observed: clipStr(got, 300), Class: "what a search fails with depends on earlier searches (or differs between entry points)"})
					return
				}
				first[di] = got
			}
			t.Nontrivial("et:" + strconv.Itoa(i))
		}}
	// arithmetic whose running total leaves the float64 range, in histories: a search that ends in "out of range" (or takes the
	// exact path) leaves nothing behind for the next one
	ovExprs := []string{"sum(@)", "avg(@)", "[sum(@), avg(@)]", "sum(@) || `0`", "[avg(@), sum(@[:2])]", "sum(map(&@, @))", "{s: sum(@), n: length(@)}", "sum(@[?@ > `0`])", "avg(@[::-1])", "max(@)"}
	ovDocs := []string{`[1e308,1e308]`, `[-1e308,-1e308,1e308]`, `[1e308,1e308,-1e308]`, `[1,2]`, `[-1e308,-1e308]`, `[1e308,-1e308,1e308,-1e308,5]`, `[1e308,1e308]`, `[3]`, `[1.7e308,1.7e308,-1.7e308]`, `[]`, `[-1e308,-1e308,1e308]`}
	ovw := mon.Workload{Name: "overflowing-totals-in-histories", N: len(ovExprs), Batch: 2,
		Describe: func(i int) string { return ovExprs[i] },
		Do: func(i int, t *mon.Tally) {
			expr := ovExprs[i]
			jp, co := apiCompile(expr)
			if co.Panicked || co.Err != nil {
				r.Inconclusive("C13 workload expression does not compile: " + expr)
				return
			}
			for pass := 0; pass < 2; pass++ {
				for k, dt := range ovDocs {
					d := docs.J(dt)
					t.Eval()
					got, fresh, one := canonOut(apiJP(jp, mon.DeepCopy(d))), canonOut(apiCompiledSearch(expr, mon.DeepCopy(d))), canonOut(apiSearch(expr, mon.DeepCopy(d)))
					if got != fresh || got != one {
						r.Violate(&mon.Violation{Workload: "overflowing-totals-in-histories", Index: i, API: "(*JMESPath).Search", Expr: expr, Doc: d,
							Expected: fmt.Sprintf("pass %d, document %d: like a freshly compiled expression (%s) and the one-shot Search (%s)", pass+1, k+1, clipStr(fresh, 200), clipStr(one, 200)), Observed: clipStr(got, 200), Class: "an earlier search over an overflowing total changes a later answer"})
						return
					}
				}
			}
			t.Nontrivial("ov:" + strconv.Itoa(i))
		}}
	r.Exec(hist, ph, pairs, lph, sh, lsh, tsu, rw, fel, twin, epw, nmw, alw, etw, collw, ovw)
}

// c13Rewritable: see the workload compiled-versus-one-shot-on-rewritable-shapes.
func c13Rewritable() ([]*gen.Expr, []interface{}) {
	x, k := func() *gen.Expr { return gen.Field("x") }, func() *gen.Expr { return gen.ExpRef(gen.Field("k")) }
	nn, ss := func() *gen.Expr { return gen.Field("nn") }, func() *gen.Expr { return gen.Field("ss") }
	at := func(e *gen.Expr, steps ...gen.Step) *gen.Expr { return gen.Chain(e, steps...) }
	var trees []*gen.Expr
	for _, idx := range []int64{-1, 0, 1, -2} {
		trees = append(trees,
			at(gen.Func("sort_by", x(), k()), gen.StIndex(idx)), at(gen.Func("sort_by", x(), k()), gen.StIndex(idx), gen.StField("v")),
			at(gen.Func("sort", nn()), gen.StIndex(idx)), at(gen.Func("sort", ss()), gen.StIndex(idx)), at(gen.Func("reverse", gen.Func("sort", nn())), gen.StIndex(idx)),
			at(gen.Func("reverse", gen.Func("sort_by", x(), k())), gen.StIndex(idx), gen.StField("v")), at(gen.Func("map", k(), x()), gen.StIndex(idx)),
			gen.Pipe(at(x(), gen.StListStar(), gen.StField("k")), at(nil, gen.StIndex(idx))), at(gen.Paren(at(x(), gen.StListStar(), gen.StField("k"))), gen.StIndex(idx)),
			at(gen.Func("sort_by", gen.Func("sort_by", x(), gen.ExpRef(gen.Field("v"))), k()), gen.StIndex(idx), gen.StField("v")),
		)
	}
	trees = append(trees,
		at(gen.Func("max_by", x(), k()), gen.StField("v")), at(gen.Func("min_by", x(), k()), gen.StField("v")), gen.Func("max", at(x(), gen.StListStar(), gen.StField("k"))), gen.Func("min", gen.Func("map", k(), x())),
		gen.Func("length", at(x(), gen.StFilter(gen.Field("k")))), gen.Func("length", at(x(), gen.StListStar(), gen.StField("k"))), gen.Func("length", gen.Func("map", k(), x())),
		gen.Not(gen.Not(nn())), gen.Not(gen.Not(gen.Field("z"))), gen.Or(nn(), nn()), gen.And(ss(), ss()), gen.Cmp("==", x(), x()), gen.Cmp("!=", nn(), nn()), gen.Cmp("<=", gen.Field("n"), gen.Field("n")), gen.Cmp("<", gen.Field("z"), gen.Field("z")),
		at(gen.MultiList(x()), gen.StIndex(0)), at(gen.MultiList(nn(), ss()), gen.StIndex(1)), at(gen.MultiHash(keyA("k"), []*gen.Expr{x()}), gen.StField("k")), at(gen.MultiHash(keyA("k"), []*gen.Expr{gen.Field("z")}), gen.StField("k")),
		gen.Pipe(x(), gen.Current()), gen.Pipe(gen.Current(), x()), gen.Pipe(gen.Pipe(x(), gen.Current()), gen.Current()), at(nn(), gen.StSliceS("", "", "")), at(nn(), gen.StSliceS("", "", "1")), at(nn(), gen.StSliceS("0", "", "")), at(gen.Field("s"), gen.StSliceS("", "", "")),
		at(nn(), gen.StSliceS("", "", "-1"), gen.StSliceS("", "", "-1")), gen.Func("reverse", gen.Func("reverse", nn())), gen.Func("reverse", gen.Func("reverse", gen.Field("s"))), gen.Func("to_array", gen.Func("to_array", nn())), gen.Func("to_array", gen.Func("to_array", gen.Field("n"))),
		gen.Func("not_null", x()), gen.Func("not_null", gen.Field("z"), gen.Field("z")), gen.Func("merge", gen.Field("o")), gen.Func("merge", gen.Field("o"), gen.Field("o")), gen.Func("length", gen.Func("keys", gen.Field("o"))), gen.Func("length", gen.Func("values", gen.Field("o"))),
		at(x(), gen.StFilter(gen.LitJSON("true"))), at(x(), gen.StFilter(gen.LitJSON("false"))), at(x(), gen.StFilter(gen.LitJSON("null")), gen.StField("v")), at(x(), gen.StFilter(gen.Current())), at(nn(), gen.StFilter(gen.Current())), at(nn(), gen.StFilter(gen.Cmp("==", gen.Current(), gen.Current()))),
		gen.Func("join", gen.Raw(""), gen.MultiList(gen.Field("s"))), gen.Func("join", gen.Raw(","), ss()), at(gen.Field("o"), gen.StStar()), gen.Pipe(at(gen.Field("o"), gen.StStar()), gen.Func("length", gen.Current())),
		gen.Func("sum", gen.MultiList(gen.Field("n"))), gen.Func("avg", gen.MultiList(gen.Field("n"), gen.Field("n"))), gen.Cmp("==", gen.Func("avg", nn()), gen.Func("sum", nn())), gen.Func("abs", gen.Func("abs", gen.Field("n"))), gen.Func("ceil", gen.Func("floor", gen.Field("n"))),
		gen.Func("to_string", gen.Func("to_string", gen.Field("s"))), gen.Func("to_number", gen.Func("to_string", gen.Field("n"))), gen.Func("to_string", gen.Func("to_number", gen.Field("s"))), gen.Func("type", gen.Func("type", x())),
		gen.Func("contains", nn(), gen.Field("n")), gen.Func("contains", at(x(), gen.StListStar(), gen.StField("k")), gen.Field("n")), gen.Func("length", at(x(), gen.StFilter(gen.Cmp("==", gen.Field("k"), gen.Field("k"))))),
		at(x(), gen.StListStar(), gen.StField("k"), gen.StIndex(0)), at(x(), gen.StFlatten(), gen.StFlatten()), at(x(), gen.StListStar(), gen.StMultiList(gen.Field("k")), gen.StFlatten()), at(gen.Paren(at(x(), gen.StListStar())), gen.StListStar(), gen.StField("k")),
		at(x(), gen.StSliceS("0", "1", ""), gen.StIndex(0)), gen.Pipe(at(x(), gen.StSliceS("0", "1", "")), at(nil, gen.StIndex(0))), at(x(), gen.StSliceS("-1", "", ""), gen.StField("v")), gen.Pipe(at(x(), gen.StSliceS("-1", "", "")), at(nil, gen.StIndex(0), gen.StField("v"))),
		gen.Or(gen.LitJSON("null"), x()), gen.And(gen.LitJSON("true"), x()), gen.Or(gen.LitJSON("false"), gen.Field("z")), gen.And(gen.LitJSON("[]"), x()), gen.Not(gen.LitJSON("null")), gen.Cmp("==", gen.LitJSON("1"), gen.LitJSON("1")), gen.Cmp("<", gen.LitJSON("1"), gen.Raw("1")),
		gen.Func("length", gen.Raw("h\u00e9")), gen.Func("sort", gen.LitJSON("[3,1,2]")), gen.Func("max_by", gen.LitJSON(`[{"k":1,"v":"a"},{"k":1,"v":"b"}]`), k()), at(gen.Func("sort_by", gen.LitJSON(`[{"k":1,"v":"a"},{"k":1,"v":"b"},{"k":0,"v":"c"}]`), k()), gen.StIndex(-1), gen.StField("v")),
	)
	// sub-expressions built from literals only: constant for a non-null current node, null for a null one when a multi-select
	// is involved - whatever evaluates "constants" ahead of time has to know against what
	{
		lit, raw := gen.LitJSON, gen.Raw
		cln := func() *gen.Expr { return gen.MultiList(lit("3"), lit("1"), lit("2")) }
		cls := func() *gen.Expr { return gen.MultiList(raw("b"), raw("a")) }
		ch := func() *gen.Expr {
			return gen.MultiHash([]gen.Key{{Name: "a"}, {Name: "b"}}, []*gen.Expr{lit("1"), raw("x")})
		}
		clo := func() *gen.Expr {
			return gen.MultiList(gen.MultiHash([]gen.Key{{Name: "k"}, {Name: "v"}}, []*gen.Expr{lit("2"), raw("a")}), gen.MultiHash([]gen.Key{{Name: "k"}, {Name: "v"}}, []*gen.Expr{lit("1"), raw("b")}))
		}
		first := func(e *gen.Expr) *gen.Expr { return at(e, gen.StIndex(0)) }
		trees = append(trees,
			gen.Func("to_string", ch()), gen.Func("to_string", cln()), gen.Func("type", ch()), gen.Func("type", cln()), gen.Func("to_array", ch()), gen.Func("to_array", cln()), gen.Func("not_null", ch()), gen.Func("not_null", cln(), lit("1")),
			gen.Func("length", cln()), gen.Func("length", ch()), gen.Func("sort", cln()), gen.Func("sort", cls()), gen.Func("reverse", cln()), gen.Func("join", raw(","), cls()), gen.Func("max", cln()), gen.Func("min", cls()), gen.Func("sum", cln()), gen.Func("avg", cln()),
			gen.Func("length", gen.Func("keys", ch())), gen.Func("length", gen.Func("values", ch())), gen.Func("merge", ch(), ch()), gen.Func("contains", cln(), lit("1")), gen.Func("sort_by", clo(), k()), at(gen.Func("max_by", clo(), k()), gen.StField("v")), gen.Func("min_by", clo(), k()), gen.Func("map", k(), clo()),
			gen.Cmp("==", cln(), cln()), gen.Cmp("==", ch(), ch()), gen.Cmp("!=", ch(), lit("null")), gen.Cmp("==", cln(), lit("[3,1,2]")), gen.Cmp("==", ch(), lit(`{"a":1,"b":"x"}`)), gen.Cmp("==", lit("null"), cln()), gen.Cmp("<", first(cln()), lit("5")),
			gen.Func("abs", first(cln())), gen.Func("to_number", first(cls())), gen.Func("starts_with", first(cls()), raw("b")), gen.Func("ceil", first(cln())), gen.Func("to_string", first(cln())), gen.Func("type", first(cln())), gen.Func("type", at(ch(), gen.StField("a"))),
			gen.Not(ch()), gen.Or(ch(), raw("d")), gen.And(ch(), raw("d")), gen.Or(cln(), raw("d")), gen.Not(gen.Not(cln())), at(cln(), gen.StFilter(gen.Cmp(">", gen.Current(), lit("1")))), at(cln(), gen.StListStar()), at(cln(), gen.StFlatten()), at(cln(), gen.StSliceS("1", "", "")),
			gen.Func("length", at(ch(), gen.StStar())), at(ch(), gen.StField("a")), gen.Pipe(ch(), gen.Field("a")), gen.Pipe(raw("x"), ch()), gen.Pipe(raw("x"), gen.Func("to_string", ch())), gen.Pipe(lit("null"), gen.Func("type", ch())), gen.Pipe(lit("null"), cln()), gen.Pipe(gen.Field("z"), gen.Func("type", cln())),
			at(x(), gen.StListStar(), gen.StMultiList(gen.Func("type", ch()))), at(x(), gen.StListStar(), gen.StFunc("type", cln())), gen.Func("map", gen.ExpRef(gen.Func("to_string", ch())), x()), gen.Func("map", gen.ExpRef(gen.Func("type", cln())), nn()), at(nn(), gen.StFilter(gen.Cmp("==", gen.Func("type", ch()), raw("object")))),
			gen.Func("type", gen.MultiList(lit("1"))), gen.Func("type", gen.MultiList(lit("null"))), gen.Func("not_null", gen.MultiList(lit("null")), raw("d")), gen.Func("type", gen.Paren(ch())), gen.Func("type", gen.MultiList(ch())), gen.Func("to_string", gen.MultiHash(keyA("k"), []*gen.Expr{cln()})),
			gen.Func("type", gen.Func("to_array", ch())), gen.Func("to_string", gen.Func("not_null", lit("null"), ch())), gen.MultiList(gen.Func("type", ch()), gen.Func("type", lit("1"))), gen.MultiHash(keyA("t"), []*gen.Expr{gen.Func("type", cln())}),
		)
	}
	// line breaks inside raw strings and literals (CR LF, a lone CR): they are characters of the string whichever entry point reads them
	trees = append(trees, gen.Func("length", gen.Raw("x\r\ny")), gen.Raw("a\r\nb"), gen.Cmp("==", gen.Raw("a\r\nb"), gen.Raw("a\nb")), gen.MultiList(gen.Raw("l1\r\nl2\rl3\n"), gen.LitVal("v\r\nw")), gen.Func("contains", gen.Raw("p\r\nq"), gen.Raw("\r")),
		at(x(), gen.StFilter(gen.Cmp("!=", gen.Field("v"), gen.Raw("a\r\nb"))), gen.StField("v")), gen.Func("join", gen.Raw("\r\n"), ss()), gen.Func("length", gen.Func("join", gen.Raw("\r\n"), gen.MultiList(gen.Raw("a"), gen.Raw("b")))))
	// negations of comparisons (the complement comparator is NOT the negation when an operand is no number), identity steps
	for _, op := range []string{"==", "!=", "<", "<=", ">", ">="} {
		trees = append(trees, gen.Not(gen.Paren(gen.Cmp(op, gen.Field("n"), gen.LitJSON("2")))), gen.Not(gen.Paren(gen.Cmp(op, gen.Field("s"), gen.Field("n")))), gen.Not(gen.Paren(gen.Cmp(op, gen.LitJSON("1"), gen.Field("z")))),
			at(x(), gen.StFilter(gen.Not(gen.Paren(gen.Cmp(op, gen.Field("k"), gen.LitJSON("7"))))), gen.StField("v")), gen.Not(gen.Not(gen.Paren(gen.Cmp(op, gen.Field("n"), gen.Field("s"))))),
			gen.Cmp("==", gen.Paren(gen.Cmp(op, gen.Field("n"), gen.LitJSON("2"))), gen.LitJSON("false")), gen.Or(gen.Cmp(op, gen.Field("s"), gen.LitJSON("2")), gen.Raw("dflt")), gen.And(gen.Not(gen.Paren(gen.Cmp(op, gen.Field("n"), gen.Field("n")))), gen.Raw("t")))
	}
	trees = append(trees, gen.Pipe(gen.Current(), gen.Field("n")), at(gen.Current(), gen.StField("n")), gen.Pipe(gen.Field("n"), gen.Current()), gen.Pipe(gen.Current(), gen.Current()), at(gen.Current(), gen.StField("o"), gen.StField("p")), gen.Pipe(gen.Pipe(gen.Current(), x()), at(nil, gen.StIndex(0))),
		gen.Paren(gen.Paren(x())), gen.Or(x(), x()), gen.And(gen.Field("z"), gen.Field("z")), gen.Or(gen.Field("z"), gen.LitJSON("null")), gen.Not(gen.Not(gen.Not(x()))), gen.Cmp("==", gen.Not(nn()), gen.LitJSON("false")))
	row := func(kv interface{}, v string) interface{} { return map[string]interface{}{"k": kv, "v": v} }
	mk := func(xs []interface{}, nn []interface{}, ss []interface{}, n interface{}, s interface{}, o interface{}) interface{} {
		return map[string]interface{}{"x": xs, "nn": nn, "ss": ss, "n": n, "s": s, "o": o, "z": nil}
	}
	f := func(v float64) interface{} { return v }
	docs := []interface{}{
		// the largest and the smallest key are each held by several elements
		mk([]interface{}{row(f(41), "jon"), row(f(7), "amy"), row(f(41), "kim"), row(f(7), "bo"), row(f(20), "cy")}, []interface{}{f(3), f(1), f(3), f(1)}, []interface{}{"b", "a", "b", "a"}, f(3), "1", map[string]interface{}{"p": f(1), "q": nil}),
		mk([]interface{}{row("b", "1st"), row("a", "2nd"), row("b", "3rd"), row("a", "4th")}, []interface{}{f(-0.5)}, []interface{}{""}, f(-0.5), "h\u00e9llo", map[string]interface{}{}),
		// a null key, a missing key, null elements
		mk([]interface{}{row(f(1), "a"), row(nil, "b"), map[string]interface{}{"v": "c"}, row(f(0), "d")}, []interface{}{f(0), f(2)}, []interface{}{"x"}, f(0), "", map[string]interface{}{"p": []interface{}{}}),
		mk([]interface{}{row(f(2), "a"), nil, row(f(1), "b")}, []interface{}{}, []interface{}{}, f(1), "abc", map[string]interface{}{"a": f(1), "b": f(2), "c": f(3)}),
		mk([]interface{}{}, []interface{}{f(1), "x"}, []interface{}{"a", f(1)}, "1", f(5), nil),
		mk([]interface{}{row(f(5), "only")}, []interface{}{f(2), f(2), f(2)}, []interface{}{"same", "same"}, f(2), "same", map[string]interface{}{"k": "v"}),
		mk([]interface{}{[]interface{}{row(f(1), "n1")}, []interface{}{row(f(2), "n2"), []interface{}{row(f(3), "n3")}}}, []interface{}{f(1), f(2), f(3), f(4), f(5), f(6), f(7), f(8), f(9), f(10), f(11), f(12), f(13)}, []interface{}{"c", "b", "a"}, f(13), "13", map[string]interface{}{"o": map[string]interface{}{}}),
		map[string]interface{}{"x": "not a list", "nn": nil, "ss": f(1), "n": nil, "s": nil, "o": []interface{}{}, "z": false},
		nil,
	}
	return trees, docs
}
