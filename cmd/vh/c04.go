package main

import (
	"encoding/json"
	"fmt"
	"strconv"
	"strings"
	"sync"

	jmespath "github.com/jmespath/go-jmespath"

	"verifharness/gen"
	"verifharness/mon"
	"verifharness/ref"
)

// C04 — Compile accepts exactly the sentences of the JMESPath grammar.

func init() { register("C04", c04) }

// The 26 representative lexemes (DESIGN §4 C04).
var c04Alphabet = []string{"a", `"q"`, "0", "-1", "'r'", "`1`", "@", "*", ".", "[", "]", "[?", "[]", "(", ")", "{", "}", ",", ":", "|", "||", "&&", "!", "&", "==", "<"}

var c04Types []gen.TokType

func init() {
	tt, ok := ref.TokTypes(c04Alphabet)
	if !ok {
		panic("c04 alphabet does not lex")
	}
	c04Types = tt
}

// malformedAST returns a description if a compiled AST contains something
// that only a silently swallowed parse error can produce.
func malformedAST(sexpr string) string {
	if strings.Contains(sexpr, "(ASTEmpty") {
		return "the compiled AST contains an ASTEmpty node (a parse error was swallowed)"
	}
	return ""
}

// c04Judge compiles one lexeme sequence (joined by join) and compares with
// the recogniser. Returns (grammatical, accepted).
func c04Judge(r *mon.Run, t *mon.Tally, wl string, idx int, lexemes []string, types []gen.TokType, rec *ref.Recognizer) (bool, bool) {
	expr := strings.Join(lexemes, " ")
	t.Eval()
	poison(idx)
	jp, o := apiCompile(expr)
	gram := rec.Run(types, ref.Relax{})
	if o.Panicked {
		r.Violate(&mon.Violation{Workload: wl, Index: idx, API: "Compile", Expr: expr, Expected: "no panic", Observed: o.String(), Detail: o.Stack, Class: "panic"})
		return gram, false
	}
	accepted := o.Err == nil
	if idx%8 == 5 || wl != "exhaustive" {
		// the other compile entry point accepts and rejects the same expressions (it panics where Compile errors)
		mo := mon.Guard(func() (interface{}, error) { jmespath.MustCompile(expr); return nil, nil })
		if mo.Panicked == accepted {
			r.Violate(&mon.Violation{Workload: wl, Index: idx, API: "MustCompile", Expr: expr, Expected: "MustCompile panics exactly when Compile rejects (Compile: " + o.String() + ")", Observed: mo.String(), Class: "MustCompile and Compile disagree"})
		}
	}
	switch {
	case gram && !accepted:
		t.Count("disagree: grammatical but rejected")
		r.Violate(&mon.Violation{Workload: wl, Index: idx, API: "Compile", Expr: expr,
			Expected: "accepted: the token sequence is a sentence of the ABNF", Observed: o.String(), Class: "rejects-grammatical"})
	case !gram && accepted:
		t.Count("disagree: ungrammatical but accepted")
		class := "accepts-ungrammatical"
		for _, rq := range openRelax {
			if rec.Run(types, rq.relax) {
				class = rq.class
				break
			}
		}
		sx := jmespath.VerifSexpr(jmespath.VerifAST(jp))
		r.Violate(&mon.Violation{Workload: wl, Index: idx, API: "Compile", Expr: expr,
			Expected: "rejected at compile time: the token sequence is not derivable from the ABNF", Observed: "compiled to " + sx, Class: class})
	case gram:
		t.Count("agree: accepted")
		sx := jmespath.VerifSexpr(jmespath.VerifAST(jp))
		if why := malformedAST(sx); why != "" {
			r.Violate(&mon.Violation{Workload: wl, Index: idx, API: "Compile", Expr: expr, Expected: "a well-formed AST", Observed: sx, Detail: why, Class: "malformed-ast"})
		}
	default:
		t.Count("agree: rejected")
		// "and therefore Search": the one-shot entry point rejects it too, whatever the document holds - also a
		// member named exactly like the expression text
		if idx%4 == 0 || wl != "exhaustive" {
			for _, e := range []string{expr, gen.JoinTight(lexemes)} { // (JoinTight keeps the token sequence)
				so := apiSearch(e, map[string]interface{}{e: "member named like the expression", "a": map[string]interface{}{e: float64(1)}})
				if !so.Panicked && so.Err == nil {
					r.Violate(&mon.Violation{Workload: wl, Index: idx, API: "Search", Expr: e, DocDesc: "an object with a member named exactly like the expression text",
						Expected: "rejected like Compile rejects it", Observed: so.String(), Class: "one-shot Search accepts what Compile rejects"})
					break
				}
			}
		}
	}
	return gram, accepted
}

// openRelax: relaxations belonging to open entries of known_findings.json.
var openRelax = []struct {
	class string
	relax ref.Relax
}{}

func c04(r *mon.Run) {
	maxLen := tierPick(r, 5, 6)
	r.Rule = "every sequence of 1..L lexemes over a 26-lexeme alphabet covering every token type (L=5 quick: 12 356 630 sequences, L=6 thorough: 321 272 406; + grammatical spellings of random trees up to 36 tokens and their mutations: one token inserted / deleted / replaced / swapped, a token span wrapped in parentheses or brackets, a matching pair removed), joined by single spaces, is given to Compile and to the ABNF recogniser ref.Accepts; " +
		"nesting and repetition constructs (25 kinds x depth 1…200, up to 700 tokens) and random trees of 35…400 tokens, intact and with one token dropped / inserted / duplicated / swapped, are decided by the same recogniser; every grammatical sequence additionally in its no-space and mixed-whitespace spelling (accept/reject and AST must not change). Non-trivial = distinct grammatical sequences + distinct ungrammatical sequences at edit distance 1 from a grammatical one."
	r.Exhaustive = true
	r.Floor = 1000
	r.Assumptions = []string{"ref.Accepts is the published ABNF (calibrated: accepts the 724 valid and rejects the 93 syntactically invalid expressions of the compliance suite)",
		"the enumerations use valid lexemes (well-formed JSON literal, 64-bit numbers); the inside of quoted identifiers (every ASCII byte raw and escaped, \\u forms) and of numbers (leading zeros, signs) is judged against the lexical ABNF by the inside-lexemes workload; JSON literals are judged by encoding/json's validity check on the text between the backticks (16 values x 19 corruptions x 4 contexts); raw strings are C14's"}
	A := len(c04Alphabet)
	offs := []int{0}
	pow := 1
	for l := 1; l <= maxLen; l++ {
		pow *= A
		offs = append(offs, offs[l-1]+pow)
	}
	decode := func(i int, lex []string, ty []gen.TokType) ([]string, []gen.TokType) {
		l := 1
		for i >= offs[l] {
			l++
		}
		o := i - offs[l-1]
		lex, ty = lex[:l], ty[:l]
		for k := l - 1; k >= 0; k-- {
			d := o % A
			o /= A
			lex[k], ty[k] = c04Alphabet[d], c04Types[d]
		}
		return lex, ty
	}
	type wstate struct {
		rec ref.Recognizer
		lex []string
		ty  []gen.TokType
	}
	// per-goroutine scratch keyed by tally pointer is overkill; allocate per case batch instead
	exh := mon.Workload{Name: "exhaustive", N: offs[maxLen], Batch: 20000,
		Describe: func(i int) string {
			lex, _ := decode(i, make([]string, 8), make([]gen.TokType, 8))
			return strings.Join(lex, " ")
		},
		Do: func(i int, t *mon.Tally) {
			var ws wstate
			lexb, tyb := [8]string{}, [8]gen.TokType{}
			lex, ty := decode(i, lexb[:], tyb[:])
			gram, accepted := c04Judge(r, t, "exhaustive", i, lex, ty, &ws.rec)
			if gram {
				t.NontrivialDistinct(1)
				if i%37 == 0 {
					t.Sample(map[string]interface{}{"sequence": strings.Join(lex, " "), "grammatical": true, "compiled": accepted})
				}
				if accepted {
					c04Whitespace(r, t, "exhaustive", i, lex)
				}
			}
		}}
	r.Exec(exh)
	c04Random(r)
	c04Long(r)
}

// c04Long: long and deeply nested sentences (and their one-token mutations), decided by the same
// recogniser on up to ref.MaxLongTok tokens: a length or nesting limit, a counter, or a buffer in the
// parser must not move the accepted language.
var c04Nest = []struct {
	name           string
	pre, core, suf []string
}{
	{"parentheses", []string{"("}, []string{"a"}, []string{")"}},
	{"multi-select lists", []string{"["}, []string{"a"}, []string{"]"}},
	{"nots", []string{"!"}, []string{"a"}, nil},
	{"dots", []string{"a", "."}, []string{"a"}, nil},
	{"indices", nil, []string{"a"}, []string{"[", "0", "]"}},
	{"list wildcards", nil, []string{"a"}, []string{"[", "*", "]"}},
	{"flattens", nil, []string{"a"}, []string{"[]"}},
	{"filters", nil, []string{"a"}, []string{"[?", "a", "]"}},
	{"nested filters", []string{"a", "[?"}, []string{"a"}, []string{"]"}},
	{"hashes", []string{"{", "a", ":"}, []string{"a"}, []string{"}"}},
	{"calls", []string{"abs", "("}, []string{"a"}, []string{")"}},
	{"expression references", []string{"f", "(", "&"}, []string{"a"}, []string{")"}},
	{"ors", []string{"a", "||"}, []string{"a"}, nil},
	{"ands", []string{"a", "&&"}, []string{"a"}, nil},
	{"pipes", []string{"a", "|"}, []string{"a"}, nil},
	{"comparisons", []string{"a", "=="}, []string{"a"}, nil},
	{"object wildcards", nil, []string{"a"}, []string{".", "*"}},
	{"slices", nil, []string{"a"}, []string{"[", ":", ":", "-1", "]"}},
	{"slices of two", nil, []string{"a"}, []string{"[", "0", ":", "2", "]"}},
	{"wide list", []string{"a", ","}, []string{"a", "]"}, nil}, // prefixed by "[" below
	{"wide hash", []string{"a", ":", "a", ","}, []string{"a", ":", "a", "}"}, nil},
	{"wide arguments", []string{"a", ","}, []string{"a", ")"}, nil},
	{"dotted multi-selects", []string{"a", ".", "["}, []string{"a"}, []string{"]"}},
	{"star after star", []string{"*", "."}, []string{"*"}, nil},
	{"projection after filter", nil, []string{"a"}, []string{"[?", "a", "]", ".", "a", "[", "*", "]"}},
	{"index then slice with a start", nil, []string{"a"}, []string{"[", "0", "]", "[", "1", ":", "]"}},
	{"index then full slice", nil, []string{"a"}, []string{"[", "-1", "]", "[", "1", ":", "2", ":", "1", "]"}},
	{"slice then index", nil, []string{"a"}, []string{"[", ":", "1", "]", "[", "0", "]"}},
	{"index then stop-only slice", nil, []string{"a"}, []string{"[", "0", "]", "[", ":", "1", "]"}},
	{"index, slice, index after a star", nil, []string{"a", "[", "*", "]"}, []string{"[", "0", "]", "[", "1", ":", "]", "[", "0", "]"}},
	{"dotted path ending in a call", nil, []string{"a"}, []string{".", "a", ".", "length", "(", "@", ")"}},
	{"adjacent list wildcards", nil, []string{"a"}, []string{"[", "*", "]", "[", "*", "]"}},
	// two or three bracketing constructs alternating (whatever keeps track of open delimiters keeps track of their kinds)
	{"parenthesis in list", []string{"[", "("}, []string{"a"}, []string{")", "]"}},
	{"list in parenthesis", []string{"(", "["}, []string{"a"}, []string{"]", ")"}},
	{"parenthesis in hash", []string{"{", "k", ":", "("}, []string{"a"}, []string{")", "}"}},
	{"parenthesis in filter", []string{"a", "[?", "("}, []string{"a"}, []string{")", "]"}},
	{"list in call", []string{"f", "(", "["}, []string{"a"}, []string{"]", ")"}},
	{"not of parenthesis", []string{"!", "("}, []string{"a"}, []string{")"}},
	{"hash in list in parenthesis", []string{"(", "[", "{", "k", ":"}, []string{"a"}, []string{"}", "]", ")"}},
	{"parenthesis then index", []string{"("}, []string{"a"}, []string{")", "[", "0", "]"}},
	{"pipe in parenthesis", []string{"(", "a", "|"}, []string{"a"}, []string{")"}},
	{"or in list", []string{"[", "a", "||"}, []string{"a"}, []string{"]"}},
	{"filter in hash in call", []string{"f", "(", "{", "k", ":", "a", "[?"}, []string{"a"}, []string{"]", "}", ")"}},
	{"dotted hash", []string{"a", ".", "{", "k", ":"}, []string{"a"}, []string{"}"}},
}

func c04Long(r *mon.Run) {
	depths := []int{1, 2, 3, 8, 15, 16, 17, 31, 32, 33, 34, 63, 64, 65, 100, 127, 128, 129, 200}
	const nmut = 6
	build := func(c, d int) []string {
		n := c04Nest[c]
		var lex []string
		switch n.name {
		case "wide list":
			lex = append(lex, "[")
		case "wide hash":
			lex = append(lex, "{")
		case "wide arguments":
			lex = append(lex, "f", "(")
		}
		for k := 0; k < d; k++ {
			lex = append(lex, n.pre...)
		}
		lex = append(lex, n.core...)
		for k := 0; k < d; k++ {
			lex = append(lex, n.suf...)
		}
		return lex
	}
	mutateLex := func(lex []string, m int) []string {
		out := append([]string(nil), lex...)
		mid := len(out) / 2
		switch m {
		case 1:
			out = out[:len(out)-1]
		case 2:
			out = out[1:]
		case 3:
			out = append(out[:mid], append([]string{","}, out[mid:]...)...)
		case 4:
			out = append(out[:mid], append([]string{out[mid]}, out[mid:]...)...)
		case 5:
			if mid+1 < len(out) {
				out[mid], out[mid+1] = out[mid+1], out[mid]
			}
		}
		return out
	}
	recs := sync.Pool{New: func() interface{} { return new(ref.Recognizer) }}
	judge := func(t *mon.Tally, wl string, i int, lex []string) {
		if len(lex) == 0 || len(lex) > ref.MaxLongTok {
			t.Count("skipped: longer than the recogniser handles")
			return
		}
		types, ok := ref.TokTypes(lex)
		if !ok {
			t.Count("skipped: lexeme did not lex")
			return
		}
		rec := recs.Get().(*ref.Recognizer)
		gram, accepted := c04Judge(r, t, wl, i, lex, types, rec)
		recs.Put(rec)
		if gram {
			t.Nontrivial("g:" + strconv.Itoa(i))
			t.Count("long grammatical sentences (" + strconv.Itoa(len(lex)/100*100) + "+ tokens)")
			if accepted && len(lex) < 400 {
				c04Whitespace(r, t, wl, i, lex)
			}
		} else {
			t.Nontrivial("u:" + strconv.Itoa(i))
		}
	}
	nn := len(c04Nest) * len(depths) * nmut
	w1 := mon.Workload{Name: "long-nestings", N: nn, Batch: 50,
		Describe: func(i int) string {
			return c04Nest[i/nmut/len(depths)].name + " x " + strconv.Itoa(depths[i/nmut%len(depths)]) + " mutation " + strconv.Itoa(i%nmut)
		},
		Do: func(i int, t *mon.Tally) {
			lex := mutateLex(build(i/nmut/len(depths), depths[i/nmut%len(depths)]), i%nmut)
			judge(t, "long-nestings", i, lex)
		}}
	nl := tierPick(r, 1500, 30000)
	w2 := mon.Workload{Name: "long-random-sentences", N: nl, Batch: 50,
		Do: func(i int, t *mon.Tally) {
			rng := gen.DeriveN(r.Seed, "c04long", i)
			g := gen.NewTreeGen(rng)
			g.MaxDepth = 4 + rng.Intn(4)
			g.IllTyped = 0
			var lex []string
			for k := 0; k < 30; k++ {
				lex = gen.Tokens(g.Expr(0, gen.WAny), gen.Min)
				if len(lex) > 34 && len(lex) <= 400 {
					break
				}
			}
			if len(lex) <= 34 || len(lex) > 400 {
				t.Count("skipped: no tree of 35..400 tokens drawn")
				return
			}
			judge(t, "long-random-sentences", i, mutateLex(lex, i%nmut))
		}}
	// inside a lexeme: quoted identifiers per the ABNF (unescaped-char = %x20-21 / %x23-5B / %x5D-10FFFF, escapes
	// \" \\ \/ \b \f \n \r \t \uXXXX) with every ASCII byte raw and after a backslash, and numbers in every
	// spelling the ABNF allows (["-"] 1*digit: leading zeros, -0) in every bracket position
	type lx struct {
		expr string
		ok   bool
		what string
	}
	var lxs []lx
	qctx := []func(string) string{func(q string) string { return q }, func(q string) string { return "foo." + q }, func(q string) string { return "{" + q + ": a}" }, func(q string) string { return q + ".b[0]" }}
	for b := 0; b < 128; b++ {
		raw := "\"a" + string(rune(b)) + "c\""
		okRaw := b >= 0x20 && b != '"' && b != '\\'
		esc := "\"a\\" + string(rune(b)) + "c\""
		okEsc := strings.ContainsRune("\"\\/bfnrt", rune(b))
		for k, c := range qctx {
			lxs = append(lxs, lx{c(raw), okRaw, fmt.Sprintf("quoted identifier with raw byte 0x%02x (context %d)", b, k)}, lx{c(esc), okEsc, fmt.Sprintf("quoted identifier with escape \\%q (context %d)", rune(b), k)})
		}
	}
	for _, u := range []struct {
		s  string
		ok bool
	}{{"\\u00e9", true}, {"\\u00E9", true}, {"\\ud83d\\ude00", true}, {"\\u12", false}, {"\\u12G4", false}, {"\\u", false}, {"\\U00e9", false}, {"\\u 0e9", false}, {"\\x41", false}, {"\\101", false}, {"\\u0000", true}, {"\\u001f", true}, {"é😀", true}, {"\t", false}, {"\n", false}, {"\r", false}} {
		for k, c := range qctx {
			lxs = append(lxs, lx{c("\"k" + u.s + "z\""), u.ok, fmt.Sprintf("quoted identifier containing %q (context %d)", u.s, k)})
		}
	}
	for _, k := range awkwardKeys { // member names with quotes, backslash runs, dots, syntax look-alikes, spelled by JSON escaping
		q := gen.QuotedLexeme(k)
		if k == "" {
			continue // (the ABNF wants at least one character between the quotes; what "" means is C01's business)
		}
		for ci, c := range qctx {
			lxs = append(lxs, lx{c(q), true, fmt.Sprintf("quoted identifier %s (context %d)", q, ci)})
		}
	}
	nums := []string{"0", "00", "000", "07", "08", "09", "010", "018", "0019", "-0", "-00", "-08", "-09", "-010", "1", "-1", "9", "19", "99", "0x1", "1e1", "1.0", "+1", "--1", "- 1", "١", "1_0", "9223372036854775807", "-9223372036854775808", "0000000000000000000009", "-", "--", "-\t1", "-\u0661", "1-", "-1-", "-0-"}
	for _, n := range nums {
		ok := true
		digits := strings.TrimPrefix(n, "-")
		if digits == "" {
			ok = false
		}
		for _, ch := range digits {
			if ch < '0' || ch > '9' {
				ok = false
			}
		}
		for k, f := range []string{"a[%s]", "a[%s:]", "a[:%s]", "a[::%s]", "a[%s:%s:%s]", "[%s]", "a[*][%s]", "a.b[%s].c"} {
			e := strings.ReplaceAll(f, "%s", n)
			lxs = append(lxs, lx{e, ok, fmt.Sprintf("number spelling %q in bracket position %d", n, k)})
		}
	}
	// JSON literals: ` json-value ` — the text between the backticks (with \` for a backtick) must be one JSON
	// value and nothing else; judged by encoding/json's own validity check on the unescaped text
	jsonTexts := []string{"1", "-0.5e3", "\"s\"", "null", "true", "[]", "[1]", "[1, [2]]", "{}", "{\"a\": 1}", "{\"a\": [1, {\"b\": null}]}", "\"a\\\"b\"", " 1 ", "\"\\u00e9\"", "[\"]\"]", "{\"}\": \"{\"}"}
	corrupt := []func(string) string{
		func(t string) string { return t }, func(t string) string { return t + "]" }, func(t string) string { return t + "}" }, func(t string) string { return t + " ]" }, func(t string) string { return t + "} x" },
		func(t string) string { return t + " 2" }, func(t string) string { return t + "," }, func(t string) string { return t + "x" }, func(t string) string { return "[" + t }, func(t string) string { return "]" + t },
		func(t string) string { return t + " null" }, func(t string) string { return t + "\n" }, func(t string) string { return t[:len(t)-1] }, func(t string) string { return t + t }, func(t string) string { return t + " // c" },
		func(t string) string { return "{" + t + "}" }, func(t string) string { return "[" + t + ",]" }, func(t string) string { return "[" + t + "]" }, func(t string) string { return t + "\x00" },
	}
	lctx := []func(string) string{func(l string) string { return l }, func(l string) string { return "foo[?a == " + l + "]" }, func(l string) string { return "[" + l + ", a]" }, func(l string) string { return l + " | [0]" }}
	for _, jt := range jsonTexts {
		for k, cf := range corrupt {
			body := cf(jt)
			ok := json.Valid([]byte(body)) && strings.TrimSpace(body) != ""
			lit := "`" + strings.ReplaceAll(body, "`", "\\`") + "`"
			for q, c := range lctx {
				lxs = append(lxs, lx{c(lit), ok, fmt.Sprintf("JSON literal %q (corruption %d, context %d)", body, k, q)})
			}
		}
	}
	// characters that are white space for Unicode, Go or JSON but not for JMESPath (only space, tab, LF, CR are): alone between two
	// tokens and next to a legal blank on either side, at the start and at the end - never skipped, always an error
	for _, sp := range []string{"\v", "\f", "\u0085", "\u00a0", "\u1680", "\u2000", "\u2003", "\u200a", "\u2028", "\u2029", "\u202f", "\u205f", "\u3000", "\ufeff", "\u200b", "\u001c", "\u001f", "\x00", "\u180e"} {
		for _, pre := range []string{"", " ", "\t", "\n", "\r", " \t"} {
			for _, post := range []string{"", " ", "\n"} {
				w := pre + sp + post
				for k, f := range []string{"a%s| b", "a |%sb", "%sa", "a%s", "a[%s0]", "f(%sa)", "[a,%sb]", "a .%sb", "a%s.b"} {
					if (len(pre)+len(post)+k)%2 == 1 && pre != "" {
						continue
					}
					lxs = append(lxs, lx{strings.Replace(f, "%s", w, 1), false, fmt.Sprintf("%q between tokens (form %d)", w, k)})
				}
			}
		}
	}
	// no character beyond ASCII is part of an unquoted identifier or of any token: every code point of the basic plane (and a
	// sample beyond) directly after, inside and before an identifier
	for cp := rune(0x80); cp <= 0x10FFFF; cp++ {
		if cp >= 0xD800 && cp <= 0xDFFF {
			continue
		}
		if cp > 0xFFFF && cp%257 != 0 {
			continue
		}
		if cp > 0x2FFF && cp <= 0xFFFF && cp%3 != 0 && cp&0xFF != 0x61 && cp&0xFF != 0x5F && cp&0xFF != 0x30 {
			continue
		}
		c := string(cp)
		form := []string{"foo" + c, "foo" + c + "bar", "a.b" + c, c + "a", "{k" + c + ": v}", "foo" + c + "[0]"}[int(cp)%6]
		lxs = append(lxs, lx{form, false, fmt.Sprintf("U+%04X next to an identifier", cp)})
		if cp&0xFF == 0x61 || cp&0xFF == 0x5F || cp&0xFF == 0x30 || cp < 0x800 {
			lxs = append(lxs, lx{"foo" + c, false, fmt.Sprintf("U+%04X at the end of an identifier", cp)}, lx{"a" + c + "b.c", false, fmt.Sprintf("U+%04X inside an identifier", cp)})
		}
	}
	// scalars as a hand-written scanner might read them: what strconv, a lenient number parser or a keyword table takes
	// but JSON does not (and the valid neighbours), bare, inside a list and as a member value
	scalarTexts := []string{"-01", "1.", "-.5", "1_000", "0x1p-2", "01", "+1", ".5", "-", "1e", "1e+", "1E5", "-0", "-0.0", "0.0e-0", "Infinity", "-Infinity", "-Inf", "+Inf", "NaN", "-NaN", "inf", "-inf", "nan", "0x10", "1e5", "1E+5", "1.5e-3",
		"00", "-00", "0.", "0.e1", "1.e1", "1e1.5", "--1", "1-", "0b1", "0o7", "1f", "1d", "1L", "\u0661", "1,000", "1 000", "1e 5", "- 1", "-\n1", "1.0", "\uff11", "1e-0", "1E-00", "2e0", "0e5", "0E+0", "-1E-1", "12345678901234567890", "0.1e1", "1__0", "1e_5", "0_1", "1.5.", "1..5", "1e5e5", "0x", "0X1F", "1p3", "-0x1", "1e+-5",
		"True", "TRUE", "nul", "nulll", "tru", "truee", "Null", "None", "undefined", "nil", "False", "fals", "true", "false", "null", "t", "n", "f", "yes", "no",
		"\"a", "'a'", "\"\\x\"", "\"\\u12\"", "\"\t\"", "\"\n\"", "\"\\u12g4\"", "\"\\U0041\"", "\"\\a\"", "\"\\'\"", "\"\\0\"", "\"\x7f\"", "\"\x1f\"", "\"\\/\"", "\"\\ud800\"", "\"a\" ", " \"a\"", "\"a\"\"b\"", "\"", "\"\\\"", "\"\\\\\"", "\"\\\\\\\"\""}
	sctx := []func(string) string{func(b string) string { return b }, func(b string) string { return "[" + b + "]" }, func(b string) string { return "[0, " + b + "]" }, func(b string) string { return "{\"k\": " + b + "}" }, func(b string) string { return " " + b + " " }}
	for _, st := range scalarTexts {
		for k, sc := range sctx {
			body := sc(st)
			ok := json.Valid([]byte(body)) && strings.TrimSpace(body) != ""
			lit := "`" + strings.ReplaceAll(body, "`", "\\`") + "`"
			for q, c := range lctx {
				if (k+q)%2 == 1 && k > 0 {
					continue
				}
				lxs = append(lxs, lx{c(lit), ok, fmt.Sprintf("JSON literal %q (scalar spelling, shape %d, context %d)", body, k, q)})
			}
		}
	}
	// long literals (whatever puts off decoding a literal "because it is big" puts off finding out that it is no JSON): valid and
	// broken at the start, in the middle, at the end, 100 bytes to 100 KB
	for _, n := range []int{100, 1000, 1023, 1024, 1025, 2000, 4096, 10000, 100000} {
		elems := strings.Repeat("1234567, ", n/9)
		long := "[" + elems + "0]"
		str := "\"" + strings.Repeat("x", n) + "\""
		for k, body := range []string{long, "[" + elems + "]", "[" + elems + "0", long + "]", "[," + elems + "0]", "[" + elems[:len(elems)/2] + "oops, " + elems[len(elems)/2:] + "0]", str, str[:len(str)-1], str + "x", "{\"k\": " + long + ", \"j\": }", "{\"k\": " + long + "}", long + " " + long} {
			ok := json.Valid([]byte(body))
			lit := "`" + body + "`"
			lxs = append(lxs, lx{lit, ok, fmt.Sprintf("a literal of %d bytes (variant %d)", len(body), k)}, lx{"a[?b == " + lit + "]", ok, fmt.Sprintf("a literal of %d bytes in a filter (variant %d)", len(body), k)})
		}
	}
	// every built-in function name (and near misses) with every argument shape the grammar allows: the grammar knows
	// no function names, arities or argument kinds - sort_by(a, b) is a sentence like f(a, b)
	fnNames := append(ref.FunctionNames(), "f", "sort", "sortby", "Sort_by", "max_", "to", "not", "null", "true")
	argShapes := [][]string{{}, {"a"}, {"a", ",", "a"}, {"&", "a"}, {"&", "a", ",", "a"}, {"a", ",", "&", "a"}, {"a", ",", "a", ",", "a"}, {"&", "a", ",", "&", "a"}, {"'r'", ",", "`1`"}, {"@"}, {"a", ".", "b", ",", "a", "[", "0", "]"}}
	fnw := mon.Workload{Name: "function-names-and-argument-shapes", N: len(fnNames) * len(argShapes) * 3,
		Do: func(i int, t *mon.Tally) {
			lex := append([]string{fnNames[i/3/len(argShapes)], "("}, argShapes[i/3%len(argShapes)]...)
			lex = append(lex, ")")
			switch i % 3 {
			case 1:
				lex = append([]string{"a", "[", "*", "]", "."}, lex...)
			case 2:
				lex = append(append([]string{"a", "||"}, lex...), "|", "[", "0", "]")
			}
			judge(t, "function-names-and-argument-shapes", i, lex)
		}}
	w3 := mon.Workload{Name: "inside-lexemes", N: len(lxs),
		Describe: func(i int) string { return lxs[i].what },
		Do: func(i int, t *mon.Tally) {
			c := lxs[i]
			t.Eval()
			for k, o := range []mon.Observed{func() mon.Observed { _, o := apiCompile(c.expr); return o }(), apiSearch(c.expr, map[string]interface{}{})} {
				api := []string{"Compile", "Search"}[k]
				if o.Panicked {
					r.Violate(&mon.Violation{Workload: "inside-lexemes", Index: i, API: api, Expr: c.expr, Expected: "no panic", Observed: o.String(), Class: "panic"})
					return
				}
				rejected := o.Err != nil // (field and index access on {} cannot fail at evaluation time)
				if c.ok && rejected {
					r.Violate(&mon.Violation{Workload: "inside-lexemes", Index: i, API: api, Expr: c.expr, Expected: "accepted: " + c.what + " is allowed by the ABNF", Observed: o.String(), Class: "inside-lexemes: rejects-grammatical"})
					return
				}
				if !c.ok && !rejected {
					r.Violate(&mon.Violation{Workload: "inside-lexemes", Index: i, API: api, Expr: c.expr, Expected: "rejected at compile time: " + c.what + " is not allowed by the ABNF", Observed: o.String(), Class: "inside-lexemes: accepts-ungrammatical"})
					return
				}
			}
			if mo := mon.Guard(func() (interface{}, error) { jmespath.MustCompile(c.expr); return nil, nil }); mo.Panicked == c.ok {
				r.Violate(&mon.Violation{Workload: "inside-lexemes", Index: i, API: "MustCompile", Expr: c.expr, Expected: "MustCompile panics exactly when the expression is not a sentence", Observed: mo.String(), Class: "inside-lexemes: MustCompile and Compile disagree"})
				return
			}
			if c.ok {
				t.Count("lexeme spellings accepted as the ABNF says")
			} else {
				t.Count("lexeme spellings rejected as the ABNF says")
			}
			t.Nontrivial("lx:" + c.expr)
		}}
	r.Exec(w1, w2, fnw, w3)
}

// c04Whitespace: the no-space and mixed-whitespace spellings of a grammatical
// sequence must compile to the same AST.
func c04Whitespace(r *mon.Run, t *mon.Tally, wl string, idx int, lex []string) {
	base := strings.Join(lex, " ")
	jp0, o0 := apiCompile(base)
	if o0.Err != nil || o0.Panicked {
		return
	}
	want := jmespath.VerifSexpr(jmespath.VerifAST(jp0))
	rng := gen.DeriveN(r.Seed, "c04ws:"+wl, idx)
	for k, s := range []string{gen.JoinTight(lex), gen.JoinWS(lex, rng)} {
		t.Eval()
		jp, o := apiCompile(s)
		name := []string{"no-space", "mixed-whitespace"}[k]
		if o.Panicked || o.Err != nil {
			r.Violate(&mon.Violation{Workload: wl, Index: idx, API: "Compile", Expr: s, Expected: "accepted like its single-space spelling " + base, Observed: o.String(), Class: "whitespace-" + name})
			continue
		}
		if got := jmespath.VerifSexpr(jmespath.VerifAST(jp)); got != want {
			r.Violate(&mon.Violation{Workload: wl, Index: idx, API: "Compile", Expr: s, Expected: want, Observed: got, Detail: "the " + name + " spelling parses differently from " + base, Class: "whitespace-" + name})
			continue
		}
		t.Count("whitespace renderings agreeing")
	}
}

// c04Random: grammatical spellings of random trees (all fragments) and their
// single-token mutations — the inputs a broken separator or delimiter check
// lets through — judged by the recogniser.
func c04Random(r *mon.Run) {
	n := tierPick(r, 60000, 1500000)
	w := mon.Workload{Name: "mutated-spellings", N: n,
		Do: func(i int, t *mon.Tally) {
			rng := gen.DeriveN(r.Seed, "c04rand", i)
			g := gen.NewTreeGen(rng)
			g.MaxDepth = 2 + rng.Intn(2)
			g.IllTyped = 0
			tree := g.Expr(0, gen.WAny)
			lex := gen.Tokens(tree, gen.Min)
			if len(lex) > 34 || len(lex) < 2 {
				t.Count("skipped: spelling too long or too short for the recogniser window")
				return
			}
			var rec ref.Recognizer
			mut := i % 8 // 0: unmutated, 1 insert, 2 delete, 3 replace, 4 swap, 5 wrap a span in ( ), 6 wrap a span in [ ], 7 remove a matching pair
			lex = append([]string(nil), lex...)
			switch mut {
			case 5, 6:
				a := rng.Intn(len(lex))
				b := a + 1 + rng.Intn(3)
				if b > len(lex) {
					b = len(lex)
				}
				open, close := "(", ")"
				if mut == 6 {
					open, close = "[", "]"
				}
				w := append([]string{}, lex[:a]...)
				w = append(w, open)
				w = append(w, lex[a:b]...)
				w = append(w, close)
				lex = append(w, lex[b:]...)
			case 7:
				// remove a ( … ) or [ … ] pair (the first opener at or after a random position and its partner)
				start := rng.Intn(len(lex))
				for k := 0; k < len(lex); k++ {
					a := (start + k) % len(lex)
					if lex[a] != "(" && lex[a] != "[" {
						continue
					}
					depth, bpos := 0, -1
					for q := a; q < len(lex); q++ {
						if lex[q] == "(" || lex[q] == "[" || lex[q] == "[?" || lex[q] == "{" {
							depth++
						} else if lex[q] == ")" || lex[q] == "]" || lex[q] == "}" {
							depth--
							if depth == 0 {
								bpos = q
								break
							}
						}
					}
					if bpos > a {
						w := append([]string{}, lex[:a]...)
						w = append(w, lex[a+1:bpos]...)
						lex = append(w, lex[bpos+1:]...)
					}
					break
				}
			case 1:
				p := rng.Intn(len(lex) + 1)
				lex = append(lex[:p], append([]string{gen.Pick(rng, c04Alphabet)}, lex[p:]...)...)
			case 2:
				p := rng.Intn(len(lex))
				lex = append(lex[:p], lex[p+1:]...)
			case 3:
				lex[rng.Intn(len(lex))] = gen.Pick(rng, c04Alphabet)
			case 4:
				p := rng.Intn(len(lex) - 1)
				lex[p], lex[p+1] = lex[p+1], lex[p]
			}
			types, ok := ref.TokTypes(lex)
			if !ok {
				t.Count("skipped: lexeme did not lex")
				return
			}
			gram, accepted := c04Judge(r, t, "mutated-spellings", i, lex, types, &rec)
			if mut == 0 && !gram {
				// the speller produced something the recogniser rejects: a harness defect, not an observation
				r.Inconclusive("speller/recogniser disagreement on " + strings.Join(lex, " "))
				return
			}
			key := strings.Join(lex, " ")
			if gram {
				t.Nontrivial("g:" + key)
				if accepted && i%4 == 0 {
					c04Whitespace(r, t, "mutated-spellings", i, lex)
				}
			} else {
				t.Nontrivial("u:" + key)
				t.Count("ungrammatical at edit distance 1 from a grammatical spelling")
			}
			if i%5003 == 0 {
				t.Sample(map[string]interface{}{"sequence": key, "grammatical": gram, "compiled": accepted, "mutation": []string{"none", "insert", "delete", "replace", "swap", "wrap()", "wrap[]", "unpair"}[mut]})
			}
		}}
	// every lexeme of the alphabet inserted at, and substituted for, every position of sentences built around calls: what the
	// grammar allows in one argument position only (an expression reference) must not leak into what is nested below it
	// (a list, a hash, a filter, a parenthesis, an inner call), whatever state the parser keeps while it is inside a call
	tmpl := [][]string{
		{"f", "(", "[", "a", ",", "b", "]", ")"}, {"f", "(", "a", ",", "[", "b", ",", "c", "]", ")"}, {"f", "(", "{", "k", ":", "a", ",", "j", ":", "b", "}", ")"}, {"f", "(", "a", "[?", "b", "]", ")"},
		{"f", "(", "(", "a", ")", ",", "b", ")"}, {"f", "(", "&", "a", ",", "[", "b", ",", "c", "]", ")"}, {"f", "(", "[", "a", ",", "b", "]", ",", "&", "c", ")"}, {"f", "(", "g", "(", "a", ",", "b", ")", ")"},
		{"f", "(", "g", "(", "[", "a", ",", "b", "]", ")", ")"}, {"f", "(", "a", ".", "[", "b", ",", "c", "]", ")"}, {"f", "(", "a", "[", "*", "]", ".", "[", "b", ",", "c", "]", ")"}, {"f", "(", "a", "||", "b", ",", "c", "&&", "d", ")"},
		{"f", "(", "!", "a", ",", "b", ")"}, {"f", "(", "a", "|", "b", ",", "c", ")"}, {"f", "(", "a", "[", "0", "]", ",", "b", "[", "1", ":", "2", "]", ")"}, {"f", "(", "*", ",", "a", ".", "*", ")"}, {"f", "(", "`1`", ",", "'r'", ",", "\"q\"", ")"},
		{"[", "f", "(", "a", ",", "b", ")", ",", "c", "]"}, {"{", "k", ":", "f", "(", "a", ",", "&", "b", ")", "}"}, {"a", "[?", "f", "(", "b", ",", "c", ")", "]"}, {"f", "(", "a", ")", ".", "g", "(", "b", ",", "c", ")"}, {"f", "(", "a", ",", "b", ")", "[", "0", "]"},
		{"f", "(", "a", ",", "&", "b", ".", "c", "[", "0", "]", ")"}, {"f", "(", "&", "(", "a", ")", ")"}, {"f", "(", "&", "[", "a", ",", "b", "]", ")"}, {"f", "(", "&", "{", "k", ":", "a", "}", ")"}, {"f", "(", "&", "a", "||", "b", ")"},
		{"f", "(", "&", "g", "(", "a", ",", "&", "b", ")", ")"}, {"f", "(", "a", ",", "{", "k", ":", "[", "b", ",", "c", "]", "}", ")"}, {"f", "(", "[", "[", "a", ",", "b", "]", ",", "c", "]", ")"}, {"f", "(", "a", "[?", "b", "==", "c", "]", ",", "d", ")"},
		{"f", "(", "(", "a", ",", "b", ")", ")"}, {"f", "(", "a", ")", "||", "[", "b", ",", "c", "]"}, {"[", "a", ",", "b", "]", "|", "f", "(", "@", ",", "&", "c", ")"}, {"f", "(", "a", "[", "]", ",", "b", ")"}, {"f", "(", "a", ",", "b", ")", ".", "[", "c", ",", "d", "]"},
	}
	nRand := tierPick(r, 150, 1500)
	ins := mon.Workload{Name: "every-lexeme-at-every-position-around-calls", N: len(tmpl) + nRand, Batch: 10,
		Do: func(i int, t *mon.Tally) {
			var base []string
			if i < len(tmpl) {
				base = tmpl[i]
			} else {
				rng := gen.DeriveN(r.Seed, "c04ins", i)
				g := gen.NewTreeGen(rng)
				g.MaxDepth = 2
				g.IllTyped = 0
				for try := 0; try < 40; try++ {
					tree := g.Expr(0, gen.WAny)
					base = gen.Tokens(tree, gen.Min)
					if len(base) >= 6 && len(base) <= 22 && hasCallTok(base) {
						break
					}
					base = nil
				}
				if base == nil {
					t.Count("skipped: no suitable random sentence")
					return
				}
			}
			var rec ref.Recognizer
			for p := 0; p <= len(base); p++ {
				for _, tok := range c04Alphabet {
					for mode := 0; mode < 2; mode++ {
						if mode == 1 && p == len(base) {
							continue
						}
						lex := append([]string{}, base[:p]...)
						lex = append(lex, tok)
						lex = append(lex, base[p+mode:]...)
						types, ok := ref.TokTypes(lex)
						if !ok {
							continue
						}
						gram, _ := c04Judge(r, t, "every-lexeme-at-every-position-around-calls", i, lex, types, &rec)
						if gram {
							t.Count("grammatical after the edit")
						} else {
							t.Count("ungrammatical after the edit")
						}
					}
				}
			}
			t.Nontrivial("ins:" + strings.Join(base, " "))
		}}
	r.Exec(w, ins)
}

// hasCallTok: does the token sequence contain a function call (a name directly followed by an opening parenthesis)?
func hasCallTok(lex []string) bool {
	for k := 1; k < len(lex); k++ {
		if lex[k] == "(" && len(lex[k-1]) > 0 && (lex[k-1][0] == '_' || lex[k-1][0] >= 'a' && lex[k-1][0] <= 'z' || lex[k-1][0] >= 'A' && lex[k-1][0] <= 'Z') {
			return true
		}
	}
	return false
}
