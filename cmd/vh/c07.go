package main

import (
	"fmt"
	"reflect"
	"strconv"
	"strings"
	"verifharness/docs"
	"verifharness/gen"
	"verifharness/mon"
	"verifharness/ref"
)

// C07 — truthiness, logical operators and comparators.

func init() { register("C07", c07) }

var c07Ops = []string{"||", "&&", "==", "!=", "<", "<=", ">", ">="}

func binExpr(op string, a, b *gen.Expr) *gen.Expr {
	switch op {
	case "||":
		return gen.Or(a, b)
	case "&&":
		return gen.And(a, b)
	}
	return gen.Cmp(op, a, b)
}

func emptiness(v interface{}) string {
	f, _ := ref.Falsy(v)
	if f {
		return "false-like"
	}
	return "true-like"
}

func c07(r *mon.Run) {
	r.Rule = "exhaustive: every ordered pair of a 26-value universe (all JSON types, strings that hold JSON text, every emptiness class, one level of nesting) x the 8 binary operators, operands supplied as literals, as document fields and mixed; ! and filter conditions [?@] / [?a] over the universe; short-circuit probes (x || E, x && E for every x and every error kind E: the right operand must be evaluated exactly when needed), also as filter conditions evaluated per element; " +
		"every tree of exactly three binary operators over {|| && == <} and 5 field operands (200 000 trees, one in seven as a filter condition); ! || && == != < and type() applied to what a pipe hands on, for every universe value; every operator tree of depth <= 2 over 6 representative operands (depth 3 sampled in thorough); deep equality over every ordered pair of a 56-value universe of small nested arrays and objects (different key sets of equal size, null members, element order, nesting), as ==, !=, inside a filter condition and through contains(); !, ||, && and filter conditions over the same universe given as Go pointers (*T, **T, ***T, nil; in a map, as list elements, as the document): a pointer is as true-like as its pointee; seeded random nestings inside filter conditions. node-kind pairs: 49 representatives of every node kind in each of the 38 single-hole grammar contexts and in every context of every context, on 3 documents (the trees this property owns: a logical operator or comparator, no function). Oracle: ref truth table / deep equality / numeric ordering. Non-trivial = distinct (expression, document); the (operator, left type, right type, emptiness) matrix is reported."
	r.Exhaustive = true
	r.Floor = 3000
	r.Assumptions = []string{"truth definition, deep equality and ordering rules as stated in C07 (ref/value.go: Falsy, DeepEq)"}
	us := docs.U()
	ut := docs.UTexts()
	n := len(us)
	pairs := mon.Workload{Name: "operand-pairs", N: n * n * len(c07Ops) * 3,
		Describe: func(i int) string { return "pair case " + mon.Show(i) },
		Do: func(i int, t *mon.Tally) {
			way := i % 3
			k := i / 3
			op := c07Ops[k%len(c07Ops)]
			k /= len(c07Ops)
			x, y := k/n, k%n
			var a, b *gen.Expr
			doc := map[string]interface{}{"a": us[x], "b": us[y]}
			switch way {
			case 0:
				a, b = gen.LitJSON(ut[x]), gen.LitJSON(ut[y])
			case 1:
				a, b = gen.Field("a"), gen.Field("b")
			default:
				a, b = gen.Field("a"), gen.LitJSON(ut[y])
			}
			tree := binExpr(op, a, b)
			expr := gen.Spell(tree)
			cx := &caseCtx{r, t, "operand-pairs", i}
			cx.runBoth(tree, expr, doc)
			t.NontrivialDistinct(1)
			t.Set("matrix (operator, left type/emptiness, right type/emptiness)", op+" "+ref.TypeOf(us[x])+"/"+emptiness(us[x])+" "+ref.TypeOf(us[y])+"/"+emptiness(us[y]))
			if i%7919 == 0 {
				t.Sample(map[string]interface{}{"expression": expr, "document": doc})
			}
		}}
	// unary: !x, !!x, [?@], [?a], [?!@]
	unary := mon.Workload{Name: "not-and-filters", N: n * 6,
		Do: func(i int, t *mon.Tally) {
			x := i / 6
			var tree *gen.Expr
			var doc interface{} = map[string]interface{}{"a": us[x]}
			switch i % 6 {
			case 0:
				tree = gen.Not(gen.LitJSON(ut[x]))
			case 1:
				tree = gen.Not(gen.Field("a"))
			case 2:
				tree = gen.Not(gen.Not(gen.Field("a")))
			case 3: // filter over the whole universe, keeping the true-like ones
				doc = us
				tree = gen.Chain(nil, gen.StFilter(gen.Current()))
			case 4:
				arr := make([]interface{}, n)
				for k := range arr {
					arr[k] = map[string]interface{}{"a": us[(k+x)%n], "i": float64(k)}
				}
				doc = arr
				tree = gen.Chain(nil, gen.StFilter(gen.Field("a")), gen.StField("i"))
			default:
				doc = us
				tree = gen.Chain(nil, gen.StFilter(gen.Not(gen.Current())))
			}
			expr := gen.Spell(tree)
			cx := &caseCtx{r, t, "not-and-filters", i}
			cx.runBoth(tree, expr, doc)
			t.Nontrivial("u:" + expr + ref.Canon(doc))
		}}
	// Go pointers as operands (SDK-style optional fields, pointers stored in generic maps): a pointer is as
	// true-like as what it points to, a nil pointer is null. The model runs on the plain value, the library
	// on the pointer form; results are compared after dereferencing (docs.ToGeneric).
	ptrTo := func(v interface{}, levels int) interface{} {
		if v == nil {
			return (*bool)(nil)
		}
		rv := reflect.ValueOf(v)
		for k := 0; k < levels; k++ {
			p := reflect.New(rv.Type())
			p.Elem().Set(rv)
			rv = p
		}
		return rv.Interface()
	}
	const pforms = 8
	ptrs := mon.Workload{Name: "pointer-operands", N: n * pforms * 3,
		Do: func(i int, t *mon.Tally) {
			x := i / (pforms * 3)
			form := i / 3 % pforms
			levels := 1 + i%3 // *T, **T, ***T
			var tree *gen.Expr
			a := gen.Field("a")
			var gdoc, pdoc interface{}
			gdoc = map[string]interface{}{"a": us[x], "b": "set"}
			pdoc = map[string]interface{}{"a": ptrTo(us[x], levels), "b": "set"}
			switch form {
			case 0:
				tree = gen.Not(a)
			case 1:
				tree = gen.Or(a, gen.Raw("default"))
			case 2:
				tree = gen.And(a, gen.Raw("then"))
			case 3:
				tree = gen.Not(gen.Not(a))
			case 4, 5, 6: // filters over the whole universe as pointers
				ga, pa := make([]interface{}, n), make([]interface{}, n)
				for k := range ga {
					v := us[(k+x)%n]
					ga[k] = map[string]interface{}{"a": v, "i": float64(k)}
					pa[k] = map[string]interface{}{"a": ptrTo(v, levels), "i": float64(k)}
				}
				gdoc, pdoc = ga, pa
				cond := []*gen.Expr{a, gen.Not(a), gen.Or(gen.And(a, gen.Cmp(">", gen.Field("i"), gen.LitJSON("3"))), gen.Not(a))}[form-4]
				tree = gen.Chain(nil, gen.StFilter(cond), gen.StField("i"))
			default: // the document itself is a pointer
				gdoc, pdoc = us[x], ptrTo(us[x], levels)
				// (no multi-select here: what a multi-select makes of a nil *pointer document* is not C07's business)
				tree = gen.Or(gen.And(gen.Not(gen.Current()), gen.Raw("F")), gen.And(gen.Current(), gen.Raw("T")))
			}
			expr := gen.Spell(tree)
			res := ref.RefSet(tree, gdoc, gen.Quirks{})
			t.Eval()
			for k, o := range []mon.Observed{apiSearch(expr, pdoc), apiCompiledSearch(expr, pdoc)} {
				if !o.Panicked && o.Err == nil {
					o.V = docs.ToGeneric(o.V, false)
				}
				if !matches(res, o) {
					r.Violate(&mon.Violation{Workload: "pointer-operands", Index: i, API: []string{"Search", "Compile+Search"}[k], Expr: expr, Doc: gdoc,
						DocDesc:  "the same document with every 'a' (or the document itself) given as a " + strings.Repeat("*", levels) + "T pointer: " + clipStr(mon.Snapshot(pdoc), 500),
						Expected: expectedString(res) + " (a pointer is as true-like as its pointee; a nil pointer is null)", Observed: o.String(), Class: "pointer-operands: truthiness of a pointer"})
					return
				}
			}
			t.Nontrivial("p:" + expr + ref.Canon(gdoc) + strconv.Itoa(levels))
			t.Count("pointer operands agreeing with the truth table")
		}}
	// short circuit
	bads := []*gen.Expr{
		gen.Func("abs", gen.Raw("x")),                              // invalid type
		gen.Func("abs"),                                            // invalid arity
		gen.Func("nosuchfn", gen.Current()),                        // unknown function
		gen.Chain(gen.LitJSON("[1,2]"), gen.StSliceS("", "", "0")), // zero step
		gen.Func("sort_by", gen.LitJSON(`[{"a":1},{"a":"x"}]`), gen.ExpRef(gen.Field("a"))),
	}
	// the same inside filter conditions: for every element the right operand may only be evaluated when needed
	scf := mon.Workload{Name: "short-circuit-in-filters", N: n * len(bads) * 6,
		Do: func(i int, t *mon.Tally) {
			k := i
			form := k % 6
			k /= 6
			bad := bads[k%len(bads)]
			x := k / len(bads)
			var cond *gen.Expr
			switch form {
			case 0:
				cond = gen.Or(gen.Field("a"), bad)
			case 1:
				cond = gen.And(gen.Field("a"), bad)
			case 2:
				cond = gen.Not(gen.Or(gen.Field("a"), bad))
			case 3:
				cond = gen.Or(gen.And(gen.Not(gen.Field("a")), bad), gen.Field("i"))
			case 4:
				cond = gen.And(gen.Cmp("==", gen.Func("type", gen.Field("a")), gen.Raw("string")), gen.Func("starts_with", gen.Field("a"), gen.Raw("a")))
			default:
				cond = gen.Paren(gen.Or(gen.Field("a"), bad))
			}
			// every element decides the same way (all true-like or all false-like), plus mixed arrays
			arr := []interface{}{map[string]interface{}{"a": us[x], "i": float64(0)}, map[string]interface{}{"a": us[x], "i": float64(1)}}
			if form == 4 {
				arr = []interface{}{map[string]interface{}{"a": us[x]}, map[string]interface{}{"a": "apple"}, map[string]interface{}{"a": us[(x+7)%n]}}
			}
			tree := gen.Chain(nil, gen.StFilter(cond), gen.StField("i"))
			expr := gen.Spell(tree)
			cx := &caseCtx{r, t, "short-circuit-in-filters", i}
			res, _, _ := cx.runBoth(tree, expr, arr)
			if isErr(res) {
				t.Count("filter: right operand needed: error expected")
			} else {
				t.Count("filter: right operand short-circuited: value expected")
			}
			t.Nontrivial("scf:" + expr + ref.Canon(arr))
		}}
	sc := mon.Workload{Name: "short-circuit", N: n * len(bads) * 4,
		Do: func(i int, t *mon.Tally) {
			k := i
			form := k % 4
			k /= 4
			bad := bads[k%len(bads)]
			x := k / len(bads)
			var tree *gen.Expr
			switch form {
			case 0:
				tree = gen.Or(gen.Field("a"), bad)
			case 1:
				tree = gen.And(gen.Field("a"), bad)
			case 2:
				tree = gen.Or(gen.LitJSON(ut[x]), bad)
			default:
				tree = gen.And(gen.Not(gen.Field("a")), bad)
			}
			doc := map[string]interface{}{"a": us[x]}
			expr := gen.Spell(tree)
			cx := &caseCtx{r, t, "short-circuit", i}
			res, _, _ := cx.runBoth(tree, expr, doc)
			if isErr(res) {
				t.Count("right operand needed: error expected")
			} else {
				t.Count("right operand short-circuited: value expected")
			}
			t.Nontrivial("sc:" + expr + ref.Canon(doc))
		}}
	// every tree with exactly three binary operators (all five shapes) over {|| && == <} and five field operands of
	// one document (true-like string, empty string, 1, 2, null): which operand an || / && chain returns depends on
	// every operator below it, so a short-cut taken for one particular nesting shows only there
	ops3 := []string{"||", "&&", "==", "<"}
	flds := []string{"t", "e", "one", "two", "z"}
	tdoc3 := docs.J(`{"t":"x","e":"","one":1,"two":2,"z":null,"rows":[{"t":"x","e":"","one":1,"two":2,"z":null,"id":1},{"t":"","e":"y","one":2,"two":1,"z":0,"id":2},{"t":null,"e":[],"one":1,"two":1,"z":false,"id":3}]}`)
	nOps, nF := len(ops3), len(flds)
	n3 := 5 * nOps * nOps * nOps * nF * nF * nF * nF
	three := mon.Workload{Name: "three-operator-trees", N: n3, Batch: 5000,
		Do: func(i int, t *mon.Tally) {
			k := i
			shape := k % 5
			k /= 5
			var op [3]string
			for q := range op {
				op[q] = ops3[k%nOps]
				k /= nOps
			}
			var f [4]*gen.Expr
			for q := range f {
				f[q] = gen.Field(flds[k%nF])
				k /= nF
			}
			var tree *gen.Expr
			switch shape {
			case 0:
				tree = binExpr(op[2], binExpr(op[1], binExpr(op[0], f[0], f[1]), f[2]), f[3])
			case 1:
				tree = binExpr(op[2], binExpr(op[1], f[0], gen.Paren(binExpr(op[0], f[1], f[2]))), f[3])
			case 2:
				tree = binExpr(op[2], binExpr(op[0], f[0], f[1]), gen.Paren(binExpr(op[1], f[2], f[3])))
			case 3:
				tree = binExpr(op[2], f[0], gen.Paren(binExpr(op[1], gen.Paren(binExpr(op[0], f[1], f[2])), f[3])))
			default:
				tree = binExpr(op[2], f[0], gen.Paren(binExpr(op[1], f[1], gen.Paren(binExpr(op[0], f[2], f[3])))))
			}
			if i%7 == 3 { // the same tree as a filter condition, per element
				tree = gen.Chain(gen.Field("rows"), gen.StFilter(tree), gen.StField("id"))
			}
			expr := gen.Spell(tree)
			cx := &caseCtx{r, t, "three-operator-trees", i}
			cx.runOne(tree, expr, tdoc3)
			t.NontrivialDistinct(1)
		}}
	// the operators applied to what a pipe hands on, for every universe value (null in particular: a pipe does not
	// end where its left side is null)
	pforms2 := []func() *gen.Expr{
		func() *gen.Expr { return gen.Not(gen.Current()) },
		func() *gen.Expr { return gen.Or(gen.Current(), gen.Raw("default")) },
		func() *gen.Expr { return gen.And(gen.Current(), gen.Raw("then")) },
		func() *gen.Expr { return gen.Cmp("==", gen.Current(), gen.LitJSON("null")) },
		func() *gen.Expr { return gen.Cmp("!=", gen.Current(), gen.LitJSON("null")) },
		func() *gen.Expr { return gen.Cmp("<", gen.Current(), gen.LitJSON("1")) },
		func() *gen.Expr { return gen.MultiList(gen.Current(), gen.Not(gen.Current())) },
		func() *gen.Expr { return gen.Not(gen.Not(gen.Current())) },
		func() *gen.Expr { return gen.Func("type", gen.Current()) },
		func() *gen.Expr { return gen.LitJSON("7") },
	}
	pipew := mon.Workload{Name: "operators-after-a-pipe", N: n * len(pforms2) * 4,
		Do: func(i int, t *mon.Tally) {
			x := i / 4 / len(pforms2)
			B := pforms2[i/4%len(pforms2)]()
			var tree *gen.Expr
			var doc interface{} = map[string]interface{}{"a": us[x], "rows": []interface{}{map[string]interface{}{"v": us[x], "id": float64(1)}, map[string]interface{}{"v": "set", "id": float64(2)}, map[string]interface{}{"id": float64(3)}}}
			switch i % 4 {
			case 0:
				tree = gen.Pipe(gen.Field("a"), B)
			case 1:
				tree = gen.Pipe(gen.Pipe(gen.Field("a"), gen.Current()), B)
			case 2:
				tree = gen.Chain(gen.Field("rows"), gen.StFilter(gen.Paren(gen.Pipe(gen.Field("v"), B))), gen.StField("id"))
			default:
				tree = gen.Pipe(gen.Chain(gen.Field("missing"), gen.StField("deeper")), B)
			}
			expr := gen.Spell(tree)
			cx := &caseCtx{r, t, "operators-after-a-pipe", i}
			cx.runBoth(tree, expr, doc)
			t.Nontrivial("pipe:" + expr + ref.Canon(doc))
		}}
	// long chains of one operator and of mixed operators (left-deep as written, and right-nested with parentheses),
	// decided by the first operand, by a middle one, by the last one: the value is one of the operands, and finding
	// it takes time proportional to the length of the chain
	chainLensOp := []int{2, 3, 8, 16, 24, 32, 40, 64, 200}
	const chForms = 12
	lchain := mon.Workload{Name: "long-operator-chains", N: len(chainLensOp) * chForms, Batch: 4,
		Do: func(i int, t *mon.Tally) {
			n := chainLensOp[i/chForms]
			form := i % chForms
			opnd := func(k int) *gen.Expr { return gen.Field(fmt.Sprint("f", k)) }
			doc := map[string]interface{}{}
			decide := []int{0, n / 2, n - 1}[form%3] // which operand decides
			or := form/3%2 == 0
			for k := 0; k < n; k++ {
				var v interface{}
				if or {
					v = nil // false-like until the deciding operand
					if k >= decide {
						v = fmt.Sprint("v", k)
					}
				} else {
					v = fmt.Sprint("v", k) // true-like until the deciding operand
					if k >= decide {
						v = ""
					}
				}
				doc[fmt.Sprint("f", k)] = v
			}
			var tree *gen.Expr
			if form/6 == 0 { // left-deep
				tree = opnd(0)
				for k := 1; k < n; k++ {
					if or {
						tree = gen.Or(tree, opnd(k))
					} else {
						tree = gen.And(tree, opnd(k))
					}
				}
			} else { // right-nested
				tree = opnd(n - 1)
				for k := n - 2; k >= 0; k-- {
					if or {
						tree = gen.Or(opnd(k), gen.Paren(tree))
					} else {
						tree = gen.And(opnd(k), gen.Paren(tree))
					}
				}
			}
			if form%2 == 1 {
				tree = gen.Not(tree)
			}
			cx := &caseCtx{r, t, "long-operator-chains", i}
			cx.runBoth(tree, gen.SpellTight(tree), doc)
			t.Nontrivial(fmt.Sprint("chain:", i))
		}}
	// Go-built documents in which containers share storage (one list is a prefix / suffix / re-slice of another, two
	// members hold the same map): equality is by value - same storage is neither necessary nor sufficient
	aliasDoc := func() (interface{}, interface{}) {
		ranked := []interface{}{float64(1), float64(2), float64(3), float64(4)}
		obj := map[string]interface{}{"k": float64(1), "l": []interface{}{float64(1)}}
		d := map[string]interface{}{"ranked": ranked, "top": ranked[:2], "tail": ranked[2:], "same": ranked[:4], "none": ranked[:0], "copy": []interface{}{float64(1), float64(2)},
			"o1": obj, "o2": obj, "o3": map[string]interface{}{"k": float64(1), "l": obj["l"]}, "lists": []interface{}{ranked[:2], ranked[:3], ranked[1:3]}, "empty": []interface{}{}}
		return d, mon.DeepCopy(d) // the model sees an unaliased copy
	}
	anames := []string{"ranked", "top", "tail", "same", "none", "copy", "o1", "o2", "o3", "empty", "lists[0]", "lists[1]", "lists[2]", "ranked[:2]", "o1.l", "o3.l"}
	aliasw := mon.Workload{Name: "containers-sharing-storage", N: len(anames) * len(anames) * 4,
		Do: func(i int, t *mon.Tally) {
			a, b := anames[i/4%len(anames)], anames[i/4/len(anames)]
			expr := []string{a + " == " + b, a + " != " + b, "contains(lists, " + a + ") == contains(lists, " + b + ")", "[" + a + "] == [" + b + "]"}[i%4]
			lib, plain := aliasDoc()
			t.Eval()
			want := apiSearch(expr, plain)
			for q, o := range []mon.Observed{apiSearch(expr, lib), apiCompiledSearch(expr, lib)} {
				if o.Panicked || !sameOutcome(o, want) {
					r.Violate(&mon.Violation{Workload: "containers-sharing-storage", Index: i, API: []string{"Search", "Compile+Search"}[q], Expr: expr, Doc: plain,
						DocDesc:  "the document built in Go with top = ranked[:2], tail = ranked[2:], same = ranked[:4], o2 = o1 (same map), lists of re-slices; shown without the sharing: " + ref.Canon(plain),
						Expected: want.String() + " (the answer on a copy without shared storage)", Observed: o.String(), Class: "equality depends on shared storage"})
					return
				}
			}
			t.Nontrivial("alias:" + expr)
		}}
	// operator trees over representative operands
	reps := gen.List(gen.LitJSON("null"), gen.LitJSON("0"), gen.LitJSON(`""`), gen.LitJSON("[null]"), gen.Field("a"), gen.Field("b"))
	var bin []func(a, b *gen.Expr) *gen.Expr
	for _, op := range c07Ops {
		op := op
		bin = append(bin, func(a, b *gen.Expr) *gen.Expr { return binExpr(op, a, b) })
	}
	un := []func(*gen.Expr) *gen.Expr{func(x *gen.Expr) *gen.Expr { return gen.Not(x) }}
	d1 := gen.Materialize(gen.Union(gen.Map(reps, un...), gen.Product(reps, reps, bin...)))
	d2 := gen.Union(gen.Map(d1, un...), gen.Product(reps, d1, bin...), gen.Product(d1, reps, bin...))
	treeDocs := []interface{}{docs.J(`{"a":1,"b":[]}`), docs.J(`{"a":"x","b":2}`), docs.J(`{"a":{},"b":false}`), docs.J(`{"b":"0"}`)}
	nd := len(treeDocs)
	trees := mon.Workload{Name: "operator-trees", N: d2.Len() * nd, Batch: 4000,
		Describe: func(i int) string { return gen.Spell(d2.At(i/nd)) + " on " + ref.Canon(treeDocs[i%nd]) },
		Do: func(i int, t *mon.Tally) {
			tree := d2.At(i / nd)
			doc := treeDocs[i%nd]
			expr := gen.SpellTight(tree)
			cx := &caseCtx{r, t, "operator-trees", i}
			cx.runOne(tree, expr, doc)
			t.NontrivialDistinct(1)
		}}
	nr := tierPick(r, 30000, 800000)
	rnd := mon.Workload{Name: "random-filter-conditions", N: nr,
		Do: func(i int, t *mon.Tally) {
			rng := gen.DeriveN(r.Seed, "c07rand", i)
			g := gen.NewTreeGen(rng)
			g.Funcs, g.Proj, g.Multi, g.Pipes = false, false, false, false
			g.MaxDepth = 2 + rng.Intn(4)
			g.IllTyped = 3
			cond := g.Expr(0, gen.WBool)
			dg := docs.NewRand(rng)
			arr := make([]interface{}, 2+rng.Intn(4))
			for k := range arr {
				if rng.Chance(1, 4) {
					arr[k] = us[rng.Intn(n)]
				} else {
					arr[k] = dg.TypedDoc(1)
				}
			}
			tree := gen.Chain(nil, gen.StFilter(cond))
			expr := gen.Spell(tree)
			cx := &caseCtx{r, t, "random-filter-conditions", i}
			res, _, _ := cx.runBoth(tree, expr, arr)
			if nonNull(res) {
				t.Nontrivial("f:" + expr + ref.Canon(arr))
			}
		}}
	// deep equality over structured values: every pair of a universe of small nested arrays and objects
	// (different key sets of equal size, null members, nesting, element order)
	eqTexts := eqUniverseTexts
	eqVals := make([]interface{}, len(eqTexts))
	for i, tx := range eqTexts {
		eqVals[i] = docs.J(tx)
	}
	E := len(eqTexts)
	eqw := mon.Workload{Name: "deep-equality-universe", N: E * E * 4,
		Do: func(i int, t *mon.Tally) {
			form := i % 4
			k := i / 4
			x, y := k/E, k%E
			op := []string{"==", "!="}[form%2]
			var tree *gen.Expr
			var doc interface{} = map[string]interface{}{"a": eqVals[x], "b": eqVals[y], "rows": []interface{}{map[string]interface{}{"v": eqVals[x], "i": float64(0)}, map[string]interface{}{"v": eqVals[y], "i": float64(1)}}}
			switch {
			case form < 2:
				tree = gen.Cmp(op, gen.LitJSON(eqTexts[x]), gen.Field("b"))
			case form == 2:
				tree = gen.Chain(gen.Field("rows"), gen.StFilter(gen.Cmp("==", gen.Field("v"), gen.LitJSON(eqTexts[x]))), gen.StField("i"))
			default:
				tree = gen.Func("contains", gen.MultiList(gen.Field("b"), gen.LitJSON(`"sentinel"`)), gen.Field("a"))
			}
			expr := gen.Spell(tree)
			cx := &caseCtx{r, t, "deep-equality-universe", i}
			cx.runOne(tree, expr, doc)
			t.NontrivialDistinct(1)
		}}
	// numbers where a shortcut (integer conversion, subtraction, float32, string formatting) gives another answer
	numTexts := []string{"0", "-0.0", "1", "1.0000000000000002", "1.5", "2", "0.5", "-0.5", "0.1", "0.30000000000000004", "0.3", "16777216", "16777217", "9007199254740992", "9007199254740993",
		"9223372036854775807", "9223372036854775808", "-9223372036854775808", "1e19", "-1e19", "1e308", "-1e308", "5e-324", "1e-7", "123456789", "123456788.99999999"}
	NN := len(numTexts)
	numw := mon.Workload{Name: "special-numbers", N: NN * NN * 7,
		Do: func(i int, t *mon.Tally) {
			op := []string{"==", "!=", "<", "<=", ">", ">=", "=="}[i%7]
			k := i / 7
			x, y := k/NN, k%NN
			doc := map[string]interface{}{"a": docs.J(numTexts[x]), "b": docs.J(numTexts[y]), "rows": []interface{}{map[string]interface{}{"v": docs.J(numTexts[x])}, map[string]interface{}{"v": docs.J(numTexts[y])}}}
			var tree *gen.Expr
			switch {
			case i%7 == 6:
				tree = gen.Chain(gen.Field("rows"), gen.StFilter(gen.Cmp("<", gen.Field("v"), gen.LitJSON(numTexts[y]))), gen.StField("v"))
			case k%2 == 0:
				tree = gen.Cmp(op, gen.Field("a"), gen.LitJSON(numTexts[y]))
			default:
				tree = gen.Cmp(op, gen.Field("a"), gen.Field("b"))
			}
			cx := &caseCtx{r, t, "special-numbers", i}
			cx.runOne(tree, gen.Spell(tree), doc)
			t.NontrivialDistinct(1)
		}}
	ws := []mon.Workload{pairs, unary, ptrs, pipew, lchain, aliasw, sc, scf, trees, three, rnd, eqw, numw, kindPairsWorkload(r, "C07")}
	if r.Tier == "thorough" {
		d2m := gen.Materialize(gen.Union(gen.Map(d1, un...), gen.Product(reps, d1, bin...)))
		d3 := gen.Product(d2m, d1, bin...)
		ws = append(ws, mon.Workload{Name: "operator-trees-depth3", N: 3000000, Batch: 5000,
			Do: func(i int, t *mon.Tally) {
				tree := d3.At((i * 7919) % d3.Len())
				doc := treeDocs[i%nd]
				cx := &caseCtx{r, t, "operator-trees-depth3", i}
				cx.runOne(tree, gen.SpellTight(tree), doc)
				t.Nontrivial("d3:" + gen.SpellTight(tree) + ref.Canon(doc))
			}})
	}
	// empty lists and objects from every construct that can produce one, compared with each other and with the literals (an empty
	// container is an empty container whatever built it), and as operands of !, ||, && and filters (all false-like)
	{
		f, lit, raw, cur, fn, ch := gen.Field, gen.LitJSON, gen.Raw, gen.Current, gen.Func, gen.Chain
		emptyDoc := docs.J(`{"e":{},"ea":[],"a":[1,2],"z":null,"o":{"k":1},"s":""}`)
		esrc := []func() *gen.Expr{
			func() *gen.Expr { return lit("[]") }, func() *gen.Expr { return f("ea") }, func() *gen.Expr { return fn("values", f("e")) }, func() *gen.Expr { return fn("keys", f("e")) }, func() *gen.Expr { return ch(f("e"), gen.StStar()) },
			func() *gen.Expr { return ch(f("a"), gen.StFilter(lit("false"))) }, func() *gen.Expr { return ch(f("a"), gen.StSliceS("", "0", "")) }, func() *gen.Expr { return ch(f("ea"), gen.StListStar()) }, func() *gen.Expr { return ch(f("ea"), gen.StFlatten()) },
			func() *gen.Expr { return fn("to_array", f("ea")) }, func() *gen.Expr { return fn("map", gen.ExpRef(cur()), f("ea")) }, func() *gen.Expr { return fn("sort", f("ea")) }, func() *gen.Expr { return fn("reverse", f("ea")) },
			func() *gen.Expr { return fn("sort_by", f("ea"), gen.ExpRef(cur())) }, func() *gen.Expr { return ch(f("a"), gen.StSliceS("5", "", "")) }, func() *gen.Expr { return ch(gen.MultiList(f("ea")), gen.StIndex(0)) },
			func() *gen.Expr { return ch(f("a"), gen.StFilter(gen.Cmp(">", cur(), lit("5")))) }, func() *gen.Expr { return fn("not_null", f("z"), f("ea")) }, func() *gen.Expr { return ch(f("a"), gen.StListStar(), gen.StField("missing")) },
			func() *gen.Expr { return ch(f("o"), gen.StStar(), gen.StField("missing")) }, func() *gen.Expr { return gen.Pipe(fn("merge", f("e"), f("e")), fn("values", cur())) }, func() *gen.Expr { return ch(f("a"), gen.StSliceS("", "", "-1"), gen.StSliceS("", "0", "")) },
			func() *gen.Expr { return ch(fn("to_array", f("z")), gen.StSliceS("", "0", "")) }, func() *gen.Expr { return ch(gen.MultiList(lit("[]")), gen.StIndex(0)) }, func() *gen.Expr { return gen.And(f("a"), f("ea")) },
			func() *gen.Expr { return lit("{}") }, func() *gen.Expr { return f("e") }, func() *gen.Expr { return fn("merge", f("e")) }, func() *gen.Expr { return fn("merge", f("e"), f("e")) },
			func() *gen.Expr { return ch(gen.MultiHash(keyA("k"), []*gen.Expr{f("e")}), gen.StField("k")) }, func() *gen.Expr { return fn("not_null", f("z"), f("e")) }, func() *gen.Expr { return ch(gen.MultiList(f("e")), gen.StIndex(0)) },
			func() *gen.Expr {
				return ch(fn("values", gen.MultiHash(keyA("k"), []*gen.Expr{f("e")})), gen.StIndex(0))
			}, func() *gen.Expr { return ch(fn("to_array", f("e")), gen.StIndex(0)) }, func() *gen.Expr { return gen.And(f("o"), f("e")) },
		}
		NE := len(esrc)
		ws = append(ws, mon.Workload{Name: "empty-containers-from-every-source", N: NE*NE*2 + NE*6, Batch: 500,
			Do: func(i int, t *mon.Tally) {
				var tree *gen.Expr
				if i < NE*NE*2 {
					tree = gen.Cmp([]string{"==", "!="}[i%2], esrc[i/2/NE](), esrc[i/2%NE]())
				} else {
					k := i - NE*NE*2
					src := esrc[k/6]
					switch k % 6 {
					case 0:
						tree = gen.Not(src())
					case 1:
						tree = gen.Or(src(), raw("d"))
					case 2:
						tree = gen.And(src(), raw("d"))
					case 3:
						tree = ch(f("a"), gen.StFilter(src()))
					case 4:
						tree = gen.MultiList(gen.Cmp("==", src(), lit("[]")), gen.Cmp("==", src(), lit("{}")), gen.Cmp("==", src(), lit("null")), gen.Cmp("==", src(), f("ea")), gen.Cmp("==", src(), f("e")))
					default:
						tree = gen.MultiList(gen.Not(src()), fn("type", src()), fn("length", src()))
					}
				}
				cx := &caseCtx{r, t, "empty-containers-from-every-source", i}
				cx.runBoth(tree, gen.Spell(tree), emptyDoc)
				t.NontrivialDistinct(1)
			}})
		// filters over long lists of scalars that print alike and are not alike (1 and "1", true and "true", null and "null", 0 and
		// "0" and "", [] and "[]"): each element is judged as what it is, wherever it stands and whatever stood before it
		look := []interface{}{float64(1), "1", true, "true", false, "false", nil, "null", float64(0), "0", "", "[]", []interface{}{}, "{}", map[string]interface{}{}, float64(-1), "-1", "1.0", float64(2), "2", "a", " ", "0.0", "1e0"}
		eq := func(x *gen.Expr) *gen.Expr { return gen.Cmp("==", cur(), x) }
		lconds := []func() *gen.Expr{
			func() *gen.Expr { return eq(lit("1")) }, func() *gen.Expr { return eq(raw("1")) }, func() *gen.Expr { return gen.Not(cur()) }, func() *gen.Expr { return cur() }, func() *gen.Expr { return eq(lit("true")) }, func() *gen.Expr { return eq(raw("true")) },
			func() *gen.Expr { return eq(lit("null")) }, func() *gen.Expr { return eq(raw("null")) }, func() *gen.Expr { return gen.Cmp("<", cur(), lit("2")) }, func() *gen.Expr { return gen.Cmp(">=", cur(), lit("0")) },
			func() *gen.Expr { return gen.Cmp("==", fn("type", cur()), raw("string")) }, func() *gen.Expr { return gen.Cmp("!=", cur(), lit("0")) }, func() *gen.Expr { return eq(lit("false")) }, func() *gen.Expr { return eq(lit("[]")) }, func() *gen.Expr { return eq(raw("[]")) },
			func() *gen.Expr { return eq(lit("0")) }, func() *gen.Expr { return eq(raw("")) }, func() *gen.Expr { return gen.Not(gen.Paren(eq(lit("1")))) }, func() *gen.Expr { return gen.And(cur(), gen.Cmp("!=", cur(), raw("1"))) },
			func() *gen.Expr { return gen.Or(eq(lit("1")), eq(raw("true"))) }, func() *gen.Expr { return gen.Cmp("!=", cur(), cur()) }, func() *gen.Expr { return gen.Not(gen.Paren(gen.Cmp("<", cur(), lit("1")))) },
			func() *gen.Expr { return gen.And(gen.Cmp(">", cur(), lit("0")), gen.Cmp("<", cur(), lit("2"))) }, func() *gen.Expr { return eq(lit("{}")) },
		}
		llens := []int{3, 24, 31, 32, 33, 40, 64, 65, 100, 257}
		ws = append(ws, mon.Workload{Name: "filters-over-long-lists-of-look-alike-scalars", N: len(lconds) * len(llens) * 4 * 4, Batch: 100,
			Do: func(i int, t *mon.Tally) {
				ord, form := i%4, i/4%4
				L := llens[i/16%len(llens)]
				cond := lconds[i/16/len(llens)]
				arr := make([]interface{}, L)
				for k := range arr {
					switch ord {
					case 0:
						arr[k] = look[k%len(look)]
					case 1:
						arr[k] = look[(len(look) - 1 - k%len(look))]
					case 2:
						arr[k] = look[(k*7+3)%len(look)]
					default:
						arr[k] = look[(k/2*2+1-k%2)%len(look)] // every pair swapped: the string before its look-alike
					}
				}
				doc := map[string]interface{}{"a": arr}
				var tree *gen.Expr
				switch form {
				case 0:
					tree = ch(f("a"), gen.StFilter(cond()))
				case 1:
					tree = fn("length", ch(f("a"), gen.StFilter(cond())))
				case 2:
					tree = gen.Pipe(ch(f("a"), gen.StFilter(cond())), ch(nil, gen.StIndex(0)))
				default:
					tree = gen.Pipe(ch(f("a"), gen.StListStar()), ch(nil, gen.StFilter(cond())))
				}
				cx := &caseCtx{r, t, "filters-over-long-lists-of-look-alike-scalars", i}
				cx.runBoth(tree, gen.SpellTight(tree), doc)
				t.NontrivialDistinct(1)
			}})
		// members that are CALLED true, false and null, present and holding values: written bare they are member names everywhere,
		// also as a whole comparator operand inside a filter
		kwDoc := docs.J(`{"svc":[{"name":"a","enabled":true,"true":"yes","false":1,"null":0},{"name":"b","enabled":false,"true":true,"false":false,"null":null},{"name":"c","enabled":"yes","true":"yes","false":"yes"},{"name":"d","enabled":1,"true":1,"null":1}],"true":5,"false":[1],"null":"n","v":5}`)
		kw := func(n string) *gen.Expr { return &gen.Expr{K: gen.KField, Name: n} } // written bare, without quotes
		en := func() *gen.Expr { return f("enabled") }
		names := func(c *gen.Expr) *gen.Expr { return ch(f("svc"), gen.StFilter(c), gen.StField("name")) }
		var kwTrees []*gen.Expr
		for _, k := range []string{"true", "false", "null"} {
			for _, op := range []string{"==", "!=", "<", ">="} {
				kwTrees = append(kwTrees, names(gen.Cmp(op, en(), kw(k))), names(gen.Cmp(op, kw(k), en())), names(gen.Cmp(op, kw(k), lit(k))), gen.Cmp(op, f("v"), kw(k)), names(gen.Cmp(op, gen.Paren(kw(k)), en())),
					names(gen.And(gen.Cmp(op, en(), kw(k)), kw("true"))), names(gen.Or(gen.Cmp(op, en(), kw(k)), kw("null"))), gen.Pipe(ch(f("svc"), gen.StFilter(gen.Cmp(op, en(), kw(k)))), ch(nil, gen.StIndex(0), gen.StField("name"))),
					ch(f("svc"), gen.StListStar(), gen.StMultiList(gen.Cmp(op, kw(k), en()), kw(k))), fn("map", gen.ExpRef(gen.Cmp(op, kw(k), en())), f("svc")))
			}
			kwTrees = append(kwTrees, names(kw(k)), names(gen.Not(kw(k))), kw(k), gen.Not(kw(k)), gen.Or(kw(k), raw("d")), gen.And(kw(k), raw("t")), gen.MultiList(kw("true"), kw("false"), kw("null")),
				ch(fn("sort_by", ch(f("svc"), gen.StFilter(gen.Cmp(">=", kw(k), lit("0")))), gen.ExpRef(kw(k))), gen.StListStar(), gen.StField("name")), gen.MultiHash([]gen.Key{{Name: k}}, []*gen.Expr{kw(k)}), names(gen.Cmp("==", ch(cur(), gen.Step{K: gen.SField, Name: k}), en())))
		}
		ws = append(ws, mon.Workload{Name: "members-called-true-false-null-in-conditions", N: len(kwTrees) * 2,
			Do: func(i int, t *mon.Tally) {
				tree := kwTrees[i/2]
				expr := gen.Spell(tree)
				if i%2 == 1 {
					expr = gen.SpellTight(tree)
				}
				cx := &caseCtx{r, t, "members-called-true-false-null-in-conditions", i}
				cx.runBoth(tree, expr, kwDoc)
				t.NontrivialDistinct(1)
			}})
	}
	r.Exec(ws...)
}

// eqUniverseTexts: small nested arrays and objects that differ in exactly the ways a hand-written deep equality gets wrong
// (different key sets of equal size, null members against missing ones, nesting, element order, 0 / -0 / 1.0, "1" / 1).
var eqUniverseTexts = []string{`null`, `1`, `"a"`, `[]`, `{}`, `[null]`, `[1]`, `["a"]`, `[null,null]`, `[1,null]`, `[null,1]`, `[1,"a"]`, `["a",1]`, `[[]]`, `[[null]]`, `[{}]`, `[{"a":null}]`,
	`{"a":null}`, `{"b":null}`, `{"a":1}`, `{"b":1}`, `{"a":"a"}`, `{"a":[]}`, `{"a":{}}`, `{"a":[null]}`, `{"a":{"b":null}}`, `{"a":{"a":null}}`, `{"a":{"b":1}}`,
	`{"a":null,"b":null}`, `{"a":null,"c":null}`, `{"b":null,"c":null}`, `{"a":1,"b":null}`, `{"a":null,"b":1}`, `{"a":1,"b":1}`, `{"a":1,"c":1}`, `{"a":1,"b":2}`, `{"a":2,"b":1}`,
	`{"a":[1,2]}`, `{"a":[2,1]}`, `{"a":{"b":[{"c":null}]}}`, `{"a":{"b":[{"d":null}]}}`, `{"a":{"b":[{"c":null},null]}}`, `[{"a":null},{"b":null}]`, `[{"b":null},{"a":null}]`,
	`0`, `-0.0`, `1.0`, `"1"`, `[0]`, `[-0.0]`, `{"a":0}`, `{"a":-0.0}`, `[1.0, [0.0]]`, `[1, [-0.0]]`, `{"a":[1e0]}`, `{"a":[1]}`, `true`, `false`, `""`, `"null"`, `[true]`, `[false]`, `{"":null}`, `{"":""}`}
