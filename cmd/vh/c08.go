package main

import (
	"encoding/json"
	"fmt"
	"math/big"
	"reflect"
	"sort"
	"strconv"
	"time"

	"verifharness/docs"
	"verifharness/gen"
	"verifharness/mon"
	"verifharness/ref"
)

// C08 — slices select what Python-style extended slicing selects.

func init() { register("C08", c08) }

type sliceBlock struct {
	n     int
	vals  []string // "" = absent
	form  int      // 0 bare, 1 after head a, 2 inside [*], 3 followed by [0], 4 typed []float64, 5 typed []string, 6 followed by .a
	start int      // first case index
}

var sliceForms = []string{"bare [a:b:c]", "a[a:b:c]", "[*][a:b:c]", "[a:b:c][0] (projection rhs)", "typed []float64", "typed []string", "[a:b:c].a (projection rhs)", "[a:b:c].type(@) over elements some of which are null (a right-hand side that gives null a value)", "[a:b:c].not_null(@, 'n') over numbers"}

func window(n, pad int) []string {
	v := []string{""}
	for i := -n - pad; i <= n+pad; i++ {
		v = append(v, strconv.Itoa(i))
	}
	return v
}

func sliceRegion(v string, n int) string {
	if v == "" {
		return "absent"
	}
	b := gen.BigOf(v)
	N := big.NewInt(int64(n))
	switch {
	case b.Sign() < 0 && new(big.Int).Neg(b).Cmp(N) > 0:
		return "<-n"
	case b.Sign() < 0:
		return "-n..-1"
	case b.Cmp(N) < 0:
		return "0..n-1"
	case b.Cmp(N) == 0:
		return "=n"
	}
	return ">n"
}

func seqArray(n int) []interface{} {
	a := make([]interface{}, n)
	for i := range a {
		a[i] = float64(i)
	}
	return a
}

type namedBool bool

func c08(r *mon.Run) {
	r.Rule = "exhaustive: every (n, start, stop, step) with n in 0..N and start/stop/step in {absent} ∪ [-n-3, n+3], in several syntactic positions and on typed Go slices; " +
		"boundary values ±1, ±2, ±(2^31-1), ±2^31, ±(2^63-2), ±(2^63-1), -2^63 crossed into every position for n in {0,1,2,3,5}; values beyond 64 bits; number spellings with leading zeros and -0 on a 12-element array; every non-array operand; every ordered pair of 20 slice parameter triples as two slice nodes of one expression (multi-select, pipe, hash, nested), the compiled expression searched twice. " +
		"Oracle: ref.PySliceIndices (CPython PySlice_AdjustIndices in unbounded integers). Non-trivial = distinct (expression, document) whose expected selection is non-empty."
	r.Exhaustive = true
	r.Assumptions = []string{"the slice model ref.PySliceIndices equals CPython slicing (checked against a table frozen from CPython in setup self-tests)",
		"a compile error is accepted for an integer outside the int64 range (implementation limit), a panic never"}
	r.Floor = 1000
	maxN := tierPick(r, 8, 24)
	var blocks []sliceBlock
	total := 0
	add := func(n int, vals []string, form int) {
		blocks = append(blocks, sliceBlock{n, vals, form, total})
		total += len(vals) * len(vals) * len(vals)
	}
	for n := 0; n <= maxN; n++ {
		add(n, window(n, 3), 0)
	}
	for _, n := range []int{0, 1, 3, 4} {
		for form := 1; form <= 5; form++ {
			add(n, window(n, 2), form)
		}
	}
	for _, n := range []int{0, 1, 2, 3, 4, 5, 6, 7, 9} {
		add(n, window(n, 2), 7)
		add(n, window(n, 1), 8)
	}
	bounds := []string{"", "0", "1", "-1", "2", "-2", "127", "128", "129", "-128", "-129", "255", "256", "-256", "32767", "32768", "-32769", "65535", "65536", "2147483647", "-2147483647", "2147483648", "-2147483648",
		"9223372036854775806", "-9223372036854775806", "9223372036854775807", "-9223372036854775807", "-9223372036854775808"}
	for _, n := range []int{0, 1, 2, 3, 5} {
		v := append([]string{}, bounds...)
		v = append(v, strconv.Itoa(n), strconv.Itoa(-n-1), strconv.Itoa(n+1))
		add(n, v, 0)
	}
	// boundary values also where the slice is followed by a right-hand side (a fused slice+projection walk
	// has its own loop) and after a head expression
	for _, n := range []int{2, 4} {
		add(n, bounds, 3)
		add(n, bounds, 6)
	}
	add(3, bounds, 1)
	// ... and on Go typed slices (the reflection walk is a loop of its own) and inside a list projection
	add(4, bounds, 4)
	add(3, bounds, 5)
	add(2, bounds, 2)
	if r.Tier == "thorough" {
		for _, n := range []int{2, 4} {
			for _, form := range []int{1, 2, 4, 5} {
				add(n, bounds, form)
			}
		}
	}
	// lengths around the usual size thresholds, on a sparse parameter grid
	for _, n := range []int{15, 16, 17, 31, 33, 64, 65, 100} {
		v := []string{"", "0", "1", "-1", "2", "-2", "3", "-3", "7", "-7", strconv.Itoa(n - 1), strconv.Itoa(n), strconv.Itoa(n + 1), strconv.Itoa(-n), strconv.Itoa(-n - 1), strconv.Itoa(n / 2), strconv.Itoa(-n / 2)}
		add(n, v, 0)
	}
	// spellings of the numbers: leading zeros, -0 (decimal, never octal), on an array longer than 8
	spell := []string{"", "010", "-010", "08", "-08", "00", "-0", "007", "0011", "1", "-1", "012"}
	add(12, spell, 0)
	add(12, spell, 1)
	add(12, spell, 6)
	// beyond 64 bits
	huge := []string{"", "1", "-1", "9223372036854775808", "-9223372036854775809", "18446744073709551616", "-18446744073709551616",
		"1000000000000000000000000000000", "-1000000000000000000000000000000"}
	for _, n := range []int{0, 3} {
		add(n, huge, 0)
	}
	starts := make([]int, len(blocks))
	for i, b := range blocks {
		starts[i] = b.start
	}
	decode := func(i int) (sliceBlock, string, string, string) {
		k := sort.Search(len(starts), func(j int) bool { return starts[j] > i }) - 1
		b := blocks[k]
		o := i - b.start
		m := len(b.vals)
		return b, b.vals[o/(m*m)], b.vals[(o/m)%m], b.vals[o%m]
	}
	build := func(b sliceBlock, a, s, c string) (*gen.Expr, interface{}, interface{}) {
		// returns tree, model document, library document
		arr := seqArray(b.n)
		sl := gen.StSliceS(a, s, c)
		switch b.form {
		case 0:
			return gen.Chain(nil, sl), arr, arr
		case 1:
			d := map[string]interface{}{"a": arr}
			return gen.Chain(gen.Field("a"), sl), d, d
		case 2:
			d := []interface{}{arr, seqArray(b.n + 1), "x", nil}
			return gen.Chain(nil, gen.StListStar(), sl), d, d
		case 3:
			// elements are arrays so that [0] applied per element differs from [0] of the slice
			outer := make([]interface{}, b.n)
			for i := range outer {
				outer[i] = []interface{}{float64(10 + i), float64(20 + i)}
			}
			return gen.Chain(nil, sl, gen.StIndex(0)), outer, outer
		case 6:
			// elements are objects: the right-hand side .a is applied per selected element
			outer := make([]interface{}, b.n)
			for i := range outer {
				outer[i] = map[string]interface{}{"a": float64(100 + i)}
			}
			return gen.Chain(nil, sl, gen.StField("a")), outer, outer
		case 7, 8:
			// the slice selects exactly the positions Python selects - no more (a spare null at the end), no fewer (a null
			// element is an element): a right-hand side that turns null into a value shows both
			outer := make([]interface{}, b.n)
			for i := range outer {
				outer[i] = float64(i)
				if b.form == 7 && i%3 == 1 {
					outer[i] = nil
				}
			}
			if b.form == 7 {
				return gen.Chain(nil, sl, gen.StFunc("type", gen.Current())), outer, outer
			}
			return gen.Chain(nil, sl, gen.StFunc("not_null", gen.Current(), gen.Raw("n"))), outer, outer
		case 4:
			fs := make([]float64, b.n)
			for i := range fs {
				fs[i] = float64(i)
			}
			return gen.Chain(nil, sl), arr, fs
		default:
			ss := make([]string, b.n)
			ga := make([]interface{}, b.n)
			for i := range ss {
				ss[i] = "s" + strconv.Itoa(i)
				ga[i] = ss[i]
			}
			return gen.Chain(nil, sl), ga, ss
		}
	}
	beyond := func(vs ...string) bool {
		lo, hi := gen.BigOf("-9223372036854775808"), gen.BigOf("9223372036854775807")
		for _, v := range vs {
			if v != "" {
				b := gen.BigOf(v)
				if b.Cmp(lo) < 0 || b.Cmp(hi) > 0 {
					return true
				}
			}
		}
		return false
	}
	main := mon.Workload{Name: "slices", N: total,
		Describe: func(i int) string {
			b, a, s, c := decode(i)
			tree, _, _ := build(b, a, s, c)
			return fmt.Sprintf("%s on n=%d form=%s", gen.SpellTight(tree), b.n, sliceForms[b.form])
		},
		Do: func(i int, t *mon.Tally) {
			b, a, s, c := decode(i)
			tree, mdoc, ldoc := build(b, a, s, c)
			expr := gen.SpellTight(tree)
			cx := &caseCtx{r, t, "slices", i}
			res := ref.RefSet(tree, mdoc, gen.Quirks{})
			var obs mon.Observed
			if b.form == 4 || b.form == 5 {
				obs = apiSearch(expr, ldoc)
			} else if i%2 == 0 {
				obs = apiSearch(expr, mon.DeepCopy(ldoc))
			} else {
				obs = apiCompiledSearch(expr, mon.DeepCopy(ldoc))
			}
			if beyond(a, s, c) {
				t.Count("beyond-int64 cases")
				// implementation limit: a compile-time error is acceptable, a panic is not
				if !obs.Panicked && obs.Err != nil {
					t.Eval()
					t.Count("beyond-int64 rejected with an error")
					return
				}
			}
			cx.judge(tree, expr, mdoc, "Search", obs, res)
			t.Set("form", sliceForms[b.form])
			if isErr(res) {
				t.Count("step-0 on array (error expected)")
				t.NontrivialDistinct(1)
				return
			}
			if len(res.Outcomes) == 1 {
				if arr, ok := res.Outcomes[0].V.([]interface{}); ok && len(arr) > 0 {
					t.NontrivialDistinct(1)
					sign := "+"
					if c != "" && gen.BigOf(c).Sign() < 0 {
						sign = "-"
					}
					t.Set("class(n,step sign,start region,stop region)", fmt.Sprintf("n=%d step%s start %s stop %s", b.n, sign, sliceRegion(a, b.n), sliceRegion(s, b.n)))
					if i%997 == 0 {
						t.Sample(map[string]interface{}{"expression": expr, "n": b.n, "form": sliceForms[b.form], "selected": res.Outcomes[0].String()})
					}
				}
			}
		}}
	// non-array operands
	us := docs.U()
	svals := []string{"", "0", "1", "-1", "2"}
	nonArr := mon.Workload{Name: "non-arrays", N: len(us) * 125,
		Do: func(i int, t *mon.Tally) {
			u := us[i/125]
			o := i % 125
			tree := gen.Chain(nil, gen.StSliceS(svals[o/25], svals[(o/5)%5], svals[o%5]))
			expr := gen.SpellTight(tree)
			cx := &caseCtx{r, t, "non-arrays", i}
			res, _, _ := cx.runBoth(tree, expr, u)
			if _, isArr := u.([]interface{}); !isArr {
				t.Count("slice of a non-array (null expected)")
				t.Nontrivial("nonarray:" + expr + ref.Canon(u))
			} else if nonNull(res) {
				t.Nontrivial("U-array:" + expr + ref.Canon(u))
			}
		}}
	// two slice nodes in one expression (and one compiled expression searched twice): state kept between
	// slice evaluations - defaults, computed bounds - must not carry over from one slice to the next
	triples := [][3]string{{"", "", ""}, {"1", "", ""}, {"", "2", ""}, {"", "", "-1"}, {"", "", "2"}, {"1", "3", ""}, {"3", "1", "-1"}, {"-2", "", ""}, {"", "-2", ""}, {"", "", "-2"},
		{"7", "", ""}, {"", "7", ""}, {"0", "10", "3"}, {"-1", "", "-1"}, {"", "0", "-1"}, {"4", "", "-3"}, {"-3", "-1", ""}, {"1", "4", "2"}, {"6", "2", "-2"}, {"", "", "1"},
		{"0", "", ""}, {"", "8", ""}, {"0", "8", "1"}, {"-8", "", ""}, {"", "99", ""}, {"-99", "99", "1"}} // (the last six select the whole 8-element array forwards)
	T := len(triples)
	objs8 := make([]interface{}, 8)
	for k := range objs8 {
		objs8[k] = map[string]interface{}{"k": float64(k), "l": []interface{}{float64(k), float64(k + 1)}}
	}
	objs8[2] = nil
	two := mon.Workload{Name: "two-slices", N: T * T * 10,
		Describe: func(i int) string { return fmt.Sprint("two-slices case ", i) },
		Do: func(i int, t *mon.Tally) {
			form := i % 10
			k := i / 10
			a, b := triples[k/T], triples[k%T]
			sa, sb := gen.StSliceS(a[0], a[1], a[2]), gen.StSliceS(b[0], b[1], b[2])
			var tree *gen.Expr
			switch form {
			case 0:
				tree = gen.MultiList(gen.Chain(gen.Current(), sa), gen.Chain(gen.Current(), sb))
			case 1:
				tree = gen.Pipe(gen.Chain(nil, sa), gen.Chain(nil, sb))
			case 2:
				tree = gen.MultiHash([]gen.Key{{Name: "p"}, {Name: "q"}}, []*gen.Expr{gen.Chain(gen.Current(), sa, gen.StIndex(0)), gen.Chain(gen.Paren(gen.Chain(gen.Current(), sb)), gen.StIndex(-1))})
			case 3:
				tree = gen.Func("not_null", gen.Chain(gen.LitJSON("null"), sa), gen.Chain(gen.Paren(gen.Chain(gen.Current(), sa)), sb))
			case 4: // a right-hand side after each slice, over elements one of which is null: the first slice's
				// projection must leave the array as the second one expects it
				tree = gen.MultiList(gen.Chain(gen.Current(), sa, gen.StField("k")), gen.Chain(gen.Current(), sb, gen.StField("k")), gen.Chain(gen.Current(), sa, gen.StField("k")))
			case 5:
				tree = gen.MultiList(gen.Chain(gen.Current(), sa), gen.Chain(gen.Current(), sb), gen.Func("length", gen.Current()))
			case 6:
				tree = gen.MultiList(gen.Chain(gen.Current(), sa, gen.StField("l"), gen.StIndex(1)), gen.Chain(gen.Current(), sb, gen.StField("l"), gen.StFlatten()))
			case 7: // a slice of what a slice selected (nulls dropped by the first one), piped
				tree = gen.Pipe(gen.Chain(nil, sa), gen.Chain(nil, sb))
			case 8:
				tree = gen.Pipe(gen.Chain(nil, sa), gen.Chain(nil, sb, gen.StField("k")))
			default:
				tree = gen.MultiList(gen.Func("length", gen.Pipe(gen.Chain(nil, sa), gen.Chain(nil, sb))), gen.Chain(gen.Paren(gen.Chain(nil, sa)), sb))
			}
			var doc interface{} = seqArray(8)
			if form >= 4 {
				doc = objs8
			}
			expr := gen.SpellTight(tree)
			cx := &caseCtx{r, t, "two-slices", i}
			res, _, _ := cx.runBoth(tree, expr, doc)
			if nonNull(res) {
				t.NontrivialDistinct(1)
			}
		}}
	// a step of 0 applied to an array is an error wherever the slice stands: every single-hole context of the
	// grammar (operator sides, projections, function arguments, expression-reference bodies, multi-selects) x
	// 8 spellings of a zero-step slice; on a non-array the same slice is null in every context
	zs := [][3]string{{"", "", "0"}, {"1", "", "0"}, {"", "1", "0"}, {"0", "2", "0"}, {"-1", "", "-0"}, {"5", "", "0"}, {"2", "2", "0"}, {"", "", "00"}}
	zctx := c11Contexts()
	zdoc := docs.J(`{"a":1,"arr":[1,2,3],"str":"abc","o":{"p":{"a":1},"q":{"a":2}},"x":[{"a":1,"arr":[1,2]},{"a":2,"arr":[3]}]}`)
	zero := mon.Workload{Name: "zero-step-in-every-context", N: len(zctx) * len(zs) * 3,
		Do: func(i int, t *mon.Tally) {
			z := zs[i/3%len(zs)]
			operand := []*gen.Expr{gen.Field("arr"), gen.Field("str"), gen.LitJSON("[1,2]")}[i%3]
			tree := zctx[i/3/len(zs)].f(gen.Chain(operand, gen.StSliceS(z[0], z[1], z[2])))
			cx := &caseCtx{r, t, "zero-step-in-every-context", i}
			res, _, _ := cx.runBoth(tree, gen.Spell(tree), zdoc)
			if isErr(res) {
				t.Count("zero step on an array inside a context: error expected")
				t.Nontrivial("zero:" + strconv.Itoa(i))
			}
		}}
	// typed slices of pointers with nil entries (null elements of the JSON form), sliced right after a longer
	// slice of the same element type was sliced (whatever view or buffer the first query used must not show through)
	type pnode struct {
		K float64
		S string
	}
	ptrSlice := func(pattern, n int) ([]*pnode, []interface{}) {
		var ps []*pnode
		var gs []interface{}
		for k := 0; k < n; k++ {
			if pattern>>(uint(k)%6)&1 == 1 {
				ps, gs = append(ps, nil), append(gs, nil)
				continue
			}
			ps = append(ps, &pnode{float64(k), fmt.Sprint("s", k)})
			gs = append(gs, map[string]interface{}{"K": float64(k), "S": fmt.Sprint("s", k)})
		}
		return ps, gs
	}
	npat := 24
	pn := mon.Workload{Name: "pointer-slices-with-nil-entries", N: T * npat * 3,
		Do: func(i int, t *mon.Tally) {
			tr := triples[i/3%T]
			pattern := []int{0, 1, 2, 5, 10, 22, 26, 42, 63, 31, 47, 55, 3, 6, 12, 24, 48, 33, 18, 36, 9, 45, 54, 27}[i/3/T%npat]
			n := []int{6, 3, 8}[i%3]
			ps, gs := ptrSlice(pattern, n)
			full, _ := ptrSlice(0, 9)
			apiSearch("[:]", full)      // an earlier, longer slice of the same element type
			apiSearch("[::-1].K", full) // and one with a right-hand side
			st := gen.StSliceS(tr[0], tr[1], tr[2])
			var tree *gen.Expr
			switch i % 2 {
			case 0:
				tree = gen.Chain(nil, st)
			default:
				tree = gen.Chain(nil, st, gen.StField("K"))
			}
			expr := gen.SpellTight(tree)
			res := ref.RefSet(tree, gs, gen.Quirks{})
			t.Eval()
			for k, o := range []mon.Observed{apiSearch(expr, ps), apiCompiledSearch(expr, ps)} {
				if !o.Panicked && o.Err == nil {
					o.V = docs.ToGeneric(o.V, false)
				}
				if !matches(res, o) {
					r.Violate(&mon.Violation{Workload: "pointer-slices-with-nil-entries", Index: i, API: []string{"Search", "Compile+Search"}[k], Expr: expr, Doc: gs,
						DocDesc: "a []*T whose nil entries are the nulls of " + ref.Canon(gs), Expected: expectedString(res), Observed: o.String(), Class: "pointer-slices-with-nil-entries: differs from the JSON form"})
					return
				}
			}
			if nonNull(res) {
				t.Nontrivial("pn:" + strconv.Itoa(i))
			}
		}}
	// Go values that are not slices (what a struct field, a typed map or a hand-built document may hold): slicing
	// them yields null like slicing any other non-array, and never panics
	type gs struct{ A int }
	gi, gstr := 7, docs.Str("named")
	goVals := []struct {
		name string
		v    interface{}
	}{{"int", int(5)}, {"int64", int64(-3)}, {"uint8", uint8(9)}, {"float32", float32(1.5)}, {"complex128", complex(1, 1)}, {"named bool", namedBool(true)}, {"time.Duration", time.Duration(5)}, {"[3]int array", [3]int{1, 2, 3}},
		{"named string", gstr}, {"struct", gs{1}}, {"*struct", &gs{2}}, {"map[string]int", map[string]int{"a": 1}}, {"*int", &gi}, {"json.Number", json.Number("12")}, {"func", func() {}}, {"chan", make(chan int)}, {"nil *struct", (*gs)(nil)}, {"[]int (a real slice: sliced)", []int{1, 2, 3}}}
	gsl := [][3]string{{"", "1", ""}, {"0", "", ""}, {"", "", "-1"}, {"1", "3", "2"}, {"", "", ""}, {"-1", "", ""}}
	gow := mon.Workload{Name: "go-values-that-are-not-slices", N: len(goVals) * len(gsl) * 4,
		Do: func(i int, t *mon.Tally) {
			gv := goVals[i/4/len(gsl)]
			s := gsl[i/4%len(gsl)]
			st := gen.StSliceS(s[0], s[1], s[2])
			var doc interface{}
			var tree *gen.Expr
			switch i % 4 {
			case 0:
				doc, tree = gv.v, gen.Chain(nil, st)
			case 1:
				doc, tree = map[string]interface{}{"x": gv.v}, gen.Chain(gen.Field("x"), st)
			case 2:
				doc, tree = map[string]interface{}{"xs": []interface{}{gv.v, []interface{}{float64(1), float64(2)}}}, gen.Chain(gen.Field("xs"), gen.StListStar(), st)
			default:
				doc, tree = map[string]interface{}{"xs": []interface{}{gv.v}}, gen.Func("map", gen.ExpRef(gen.Chain(nil, st)), gen.Field("xs"))
			}
			expr := gen.SpellTight(tree)
			t.Eval()
			isSlice := reflect.ValueOf(gv.v).Kind() == reflect.Slice
			for k, o := range []mon.Observed{apiSearch(expr, doc), apiCompiledSearch(expr, doc)} {
				bad := o.Panicked
				if !bad && !isSlice && i%4 < 2 && (o.Err != nil || o.V != nil) {
					bad = true // a non-array: null
				}
				if bad {
					r.Violate(&mon.Violation{Workload: "go-values-that-are-not-slices", Index: i, API: []string{"Search", "Compile+Search"}[k], Expr: expr, DocDesc: "the sliced value is a Go " + gv.name,
						Expected: "null (slicing a non-array), no panic", Observed: o.String(), Detail: o.Stack, Class: "go-values-that-are-not-slices"})
					return
				}
			}
			t.Nontrivial("go:" + strconv.Itoa(i))
		}}
	// slices of arrays that another construct hands over (parenthesis, pipe, multi-select, not_null, ||, projection, flatten, map,
	// to_array, a double reverse ...): the same Python selection applies to whatever list the construct yields; the list holds a
	// null and a nested list, so constructs that copy (and drop nulls or flatten) yield a list of another length than the member
	pprods := argProducers()
	pvals := window(5, 1)
	PV := len(pvals)
	psl := mon.Workload{Name: "slices-of-arrays-produced-by-other-constructs", N: len(pprods) * PV * PV * PV, Batch: 5000,
		Do: func(i int, t *mon.Tally) {
			pi, k := i/(PV*PV*PV), i%(PV*PV*PV)
			a, b, c := pvals[k/(PV*PV)], pvals[k/PV%PV], pvals[k%PV]
			if (k+pi)%3 != 0 && r.Tier != "thorough" {
				return
			}
			doc := map[string]interface{}{"a": []interface{}{float64(0), float64(1), nil, []interface{}{float64(3)}, float64(4)}, "z": nil, "ao": []interface{}{}}
			tree := gen.Chain(pprods[pi](gen.Field("a")), gen.StSliceS(a, b, c))
			cx := &caseCtx{r, t, "slices-of-arrays-produced-by-other-constructs", i}
			res, _, _ := cx.runOne(tree, gen.SpellTight(tree), doc)
			if nonNull(res) {
				t.NontrivialDistinct(1)
			}
		}}
	r.Exec(main, nonArr, two, zero, pn, gow, psl)
}
