package main

import (
	"fmt"
	"regexp"
	"strconv"
	"strings"

	jmespath "github.com/jmespath/go-jmespath"

	"verifharness/gen"
	"verifharness/mon"
)

// C17 — Compile failures are reported consistently and with a usable location.

func init() { register("C17", c17) }

var digitsRe = regexp.MustCompile(`[0-9]+`)

func msgTemplate(msg string) string {
	// normalise an error message to its template: drop quoted payloads and numbers
	if i := strings.IndexAny(msg, "'\""); i >= 0 && len(msg) > i+1 {
		msg = msg[:i] + "…"
	}
	msg = digitsRe.ReplaceAllString(msg, "N")
	if len(msg) > 90 {
		msg = msg[:90] + "…"
	}
	return msg
}

func c17Check(r *mon.Run, t *mon.Tally, wl string, idx int, expr string) {
	t.Eval()
	viol := func(class, exp, obs string) {
		r.Violate(&mon.Violation{Workload: wl, Index: idx, API: "Compile/MustCompile", Expr: expr, Expected: exp, Observed: obs, Class: wl + ": " + class})
	}
	var jp *jmespath.JMESPath
	var cerr error
	o := mon.Guard(func() (interface{}, error) {
		jp, cerr = jmespath.Compile(expr)
		return nil, nil
	})
	if o.Panicked {
		viol("Compile panics", "Compile returns", o.String())
		return
	}
	if (jp == nil) == (cerr == nil) {
		viol("both or neither", "exactly one of (expression, error) is nil", fmt.Sprintf("expression nil=%v, error=%v", jp == nil, cerr))
		return
	}
	// MustCompile
	var mjp *jmespath.JMESPath
	mo := mon.Guard(func() (interface{}, error) {
		mjp = jmespath.MustCompile(expr)
		return nil, nil
	})
	if cerr == nil {
		t.Count("compiles")
		if mo.Panicked {
			viol("MustCompile panics on a valid expression", "MustCompile returns what Compile returns", mo.String())
			return
		}
		if mjp == nil {
			viol("MustCompile returned nil", "a compiled expression", "nil")
			return
		}
		if a, b := jmespath.VerifSexpr(jmespath.VerifAST(jp)), jmespath.VerifSexpr(jmespath.VerifAST(mjp)); a != b {
			viol("MustCompile differs from Compile", a, b)
		}
		// a usable compiled expression: searching it must not panic
		if so := apiJP(jp, map[string]interface{}{"a": float64(1)}); so.Panicked {
			viol("compiled expression unusable", "Search on the returned expression returns", so.String())
		}
		return
	}
	t.Count("fails to compile")
	if !mo.Panicked {
		viol("MustCompile does not panic", "MustCompile panics exactly when Compile fails ("+cerr.Error()+")", "returned normally")
		return
	}
	if !strings.Contains(mo.Panic, strconv.Quote(expr)) && !strings.Contains(mo.Panic, expr) {
		viol("MustCompile panic does not name the expression", "a panic message containing the quoted expression", mo.Panic)
	}
	se, isSyn := cerr.(jmespath.SyntaxError)
	if !isSyn {
		if sp, ok := cerr.(*jmespath.SyntaxError); ok && sp != nil {
			se, isSyn = *sp, true
		}
	}
	if !isSyn {
		t.Count("error is not a SyntaxError (no location to check)")
		t.Set("non-SyntaxError error types", fmt.Sprintf("%T", cerr))
		t.Nontrivial("other:" + fmt.Sprintf("%T", cerr) + ":" + msgTemplate(cerr.Error()))
		return
	}
	t.Count("error is a SyntaxError")
	if se.Expression != expr {
		viol("SyntaxError.Expression differs from the input", strconv.Quote(expr), strconv.Quote(se.Expression))
		return
	}
	if se.Offset < 0 || se.Offset > len(expr) {
		viol("SyntaxError.Offset out of range", fmt.Sprintf("0 <= offset <= %d", len(expr)), fmt.Sprintf("offset %d (%s)", se.Offset, se.Error()))
		return
	}
	var hl string
	ho := mon.Guard(func() (interface{}, error) { hl = se.HighlightLocation(); return nil, nil })
	if ho.Panicked {
		viol("HighlightLocation panics", "a caret rendering", ho.String())
		return
	}
	if want := expr + "\n" + strings.Repeat(" ", se.Offset) + "^"; hl != want {
		viol("HighlightLocation rendering", strconv.Quote(want), strconv.Quote(hl))
		return
	}
	oc := "inside"
	if se.Offset == 0 {
		oc = "0"
	} else if se.Offset == len(expr) {
		oc = "=len"
	}
	tpl := msgTemplate(se.Error())
	t.Set("error message templates", tpl)
	t.Count("offset class: " + oc)
	t.Nontrivial(tpl + "|" + oc + "|" + strconv.Itoa(len(expr)%7))
}

// errorSiteFamily: one targeted family per error return site of lexer and parser.
var errorSiteSeeds = []string{
	"#", "a#", "é", "aé", "a.é", "\x80", "a\xff", "a ^", "😀", "a😀",
	// runs of bytes that are no character starts (whatever cuts a piece of the expression out for a message looks for a character
	// boundary and finds none nearby), at the start, at the end, around the offending position
	"\x80\x80\x80\x80\x80\x80\x80\x80", "\x80\x80\x80\x80\x80\x80\x80\x80\x80", "'\x80\x80\x80\x80\x80\x80\x80\x80", "'\xbf\xbf\xbf\xbf\xbf\xbf\xbf\xbf\xbf\xbf\xbf\xbf\xbf\xbf\xbf\xbf", "a\x80\x80\x80\x80\x80\x80\x80\x80\x80\x80\x80\x80 b", "\"\x80\x80\x80\x80\x80\x80\x80\x80\x80\x80",
	"`\x80\x80\x80\x80\x80\x80\x80\x80\x80\x80", "a.b.c \x80\x80\x80\x80\x80\x80\x80\x80\x80\x80\x80\x80\x80\x80\x80\x80\x80\x80\x80\x80 d", "\xe2\x82\xe2\x82\xe2\x82\xe2\x82\xe2\x82", "\xf0\x9f\x98\xf0\x9f\x98\xf0\x9f\x98", "a # \x80\x80\x80\x80\x80\x80\x80\x80\x80\x80\x80\x80\x80\x80\x80\x80\x80",
	"\x80\x80\x80\x80\x80\x80\x80\x80\x80\x80\x80\x80\x80\x80\x80\x80\x80 # a", "'r' \xbf\xbf\xbf\xbf\xbf\xbf\xbf\xbf\xbf 'r'", "éééééééééééééééé #", "# éééééééééééééééé", "😀😀😀😀😀😀😀😀 ^ 😀😀😀😀😀😀😀😀", "a\xc3", "\xc3", "a.\xe2\x82", "'x' \xf0\x9f",
	"'abc", "`abc", "\"abc", "a.'x", "'\\", "\"\\", "`\\",
	"\"\\x\"", "\"\\ud800\"", "`{`", "`nul`", "`1 2`", "``", "`]`",
	"=", "a=b", "a = b",
	"-", "[-]", "[--1]", "[1-]", "[99999999999999999999]", "[-99999999999999999999]", "a[1:99999999999999999999]",
	"", " ", "a.", "a..b", "a.0", "a.@", "a.'r'", "a.`1`", "a.(b)", ".a", "..",
	"a[", "a[0", "a[0:", "a[0:1", "a[0:1:2:3]", "a[0 1]", "a[:1 2]", "a[a]", "a[*", "a[*b]", "a[?", "a[?b", "a[?]", "[?]",
	"(", "(a", "()", "a)", ")", "a(", "a(b", "a(b,", "a(b c)", "a(,)", "\"a\"(b)", "@(b)", "a(b)(c)",
	"{", "{a", "{a:", "{a:b", "{a:b,", "{a:b,}", "{a b}", "{a:b c:d}", "{}", "{0:a}", "{'a':b}",
	"[", "[a", "[a,", "[a,]", "[a b]", "[]a", "[,]", "]", "}", ",", ":", "a:",
	"|", "a|", "|a", "a||", "||a", "a&&", "&&a", "&", "&a", "a&b", "!", "a!", "a!b", "==", "a==", "==a", "a<", "<a", "a<>b",
	"*a", "a*", "a.*b", "**", "*.*.", "a[*]b", "a[*](", "a[*].", "a[*][b]", "*[a]", "a[][b]",
	"@a", "a@", "@@", "0", "a 0", "a b", "'a' 'b'", "`1` `2`", "a 'b'",
	"\"\xff\xff\"(", "foo.\"\xe2\x82\"(", "sort_by(@, &\"\x80\xbf\xc0\"(", "\"\xff\xff\xff\xff\"(a", "\"é\"(", "\"\xff\"", "\"\xff\xff\".", "{\"\xff\xff\"", "\"\xff\xff\" \"\xff\"",
	"'\xff\xff", "`\xff\xff", "a.\xff\xff", "[\xff\xff]",
}

func c17(r *mon.Run) {
	r.Rule = "the Compile/MustCompile/SyntaxError contract is applied to every observed return for: every byte string of <= 2 bytes and 3-byte strings over a 40-byte alphabet, hostile lexeme soups, deep nestings up to 64 KiB, the fuzz corpus + compliance expressions and their mutations, and one targeted family per error return site of lexer and parser (each seed plain, with a multi-byte prefix, with trailing bytes, embedded in brackets). " +
		"Non-trivial = distinct failing inputs by (normalised message template, offset class 0/inside/=len, length mod 7)."
	r.Floor = 50
	r.Assumptions = []string{"errors that are not of type SyntaxError (strconv / encoding/json errors passed through) carry no location; they are counted and listed, the location contract is applied to SyntaxError values only, as the statement says"}
	gens := []byteGen{genShortBytes(), genTokenSoup(r.Seed, tierPick(r, 150000, 3000000)), genNesting(), genCutShort(), genMutations(r.Seed, r.Root, tierPick(r, 120000, 3000000))}
	var ws []mon.Workload
	for _, g := range gens {
		g := g
		batch := 2000
		if g.name == "deep-nesting" {
			batch = 4
		}
		ws = append(ws, mon.Workload{Name: g.name, N: g.n, Batch: batch,
			Describe: func(i int) string { return g.at(i) },
			Do: func(i int, t *mon.Tally) {
				e := g.at(i)
				c17Check(r, t, g.name, i, e)
				if i%50021 == 7 {
					t.Sample(map[string]interface{}{"workload": g.name, "expression": brief(e)})
				}
			}})
	}
	wrappers := []func(string) string{
		func(s string) string { return s },
		func(s string) string { return "é😀 | " + s }, func(s string) string { return "\ufeff" + s }, func(s string) string { return s + "\n" }, func(s string) string { return "\r\n" + s + "\r\n" },
		func(s string) string { return s + " | é" },
		func(s string) string { return "[" + s + "]" },
		func(s string) string { return "a[?" + s + "]" },
		func(s string) string { return "\n\t " + s },
		func(s string) string { return "f(" + s + ")" },
		func(s string) string { return "{k: " + s + "}" },
	}
	nsite := len(errorSiteSeeds) * len(wrappers)
	siteAt := func(i int) string { return wrappers[i%len(wrappers)](errorSiteSeeds[i/len(wrappers)]) }
	ws = append(ws, mon.Workload{Name: "error-sites", N: nsite,
		Describe: siteAt,
		Do: func(i int, t *mon.Tally) {
			c17Check(r, t, "error-sites", i, siteAt(i))
		}})
	// expressions of 1...3 MiB whose (first) error lies beyond byte 1 000 000, and ones of that size with an early error
	// or none: the location contract has no size limit
	hugeMk := []func() string{
		func() string { return "a" + strings.Repeat(" ", 1100000) + "#" },
		func() string { return strings.Repeat("a.", 600000) + "." },
		func() string { return "'" + strings.Repeat("x", 1048600) + "' ~" },
		func() string { return "`\"" + strings.Repeat("y", 2100000) + "\"` )" },
		func() string { return "#" + strings.Repeat(" ", 1100000) + "a" },
		func() string { return "a" + strings.Repeat(" ", 3200000) + "| b" },
		func() string { return "a |\n" + strings.Repeat(" ", 1000010) + "\n b |" },
		func() string { return strings.Repeat("é", 520000) },
		func() string { return "foo[" + strings.Repeat("1", 1000100) + "]" },
		func() string { return strings.Repeat("(a)|", 262144) + "#" }, // (flat: a million nested openers need more than Go's 1 GB stack limit - a resource limit, see DESIGN 8.2 #18)
	}
	ws = append(ws, mon.Workload{Name: "megabyte-expressions", N: len(hugeMk), Batch: 1,
		Describe: func(i int) string { return "megabyte-expressions case " + strconv.Itoa(i) },
		Do: func(i int, t *mon.Tally) {
			c17Check(r, t, "megabyte-expressions", i, hugeMk[i]())
		}})
	nt := tierPick(r, 20000, 400000)
	ws = append(ws, mon.Workload{Name: "hostile-trees", N: nt,
		Do: func(i int, t *mon.Tally) {
			c17Check(r, t, "hostile-trees", i, gen.SpellTight(hostileTree(gen.DeriveN(r.Seed, "c05tree", i))))
		}})
	r.Exec(ws...)
}
