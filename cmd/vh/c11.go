package main

import (
	"verifharness/docs"
	"verifharness/gen"
	"verifharness/mon"
	"verifharness/ref"
)

// C11 — evaluation errors propagate; never swallowed into null or a partial result.

func init() { register("C11", c11) }

type c11Ctx struct {
	name string
	f    func(h *gen.Expr) *gen.Expr
}

// dotRHS turns an expression into something that may follow a dot: a function call as it is, anything else
// inside a multi-select list.
func dotRHS(h *gen.Expr) gen.Step {
	if h.K == gen.KFunc {
		return gen.StFunc(h.Name, h.Items...)
	}
	return gen.StMultiList(h)
}

func c11Contexts() []c11Ctx {
	a := func() *gen.Expr { return gen.Field("a") }
	x := func() *gen.Expr { return gen.Field("x") }
	st := func(s gen.Step) func(h *gen.Expr) *gen.Expr {
		return func(h *gen.Expr) *gen.Expr { return gen.Chain(gen.Paren(h), s) }
	}
	return []c11Ctx{
		{"□.a", st(gen.StField("a"))}, {"□[0]", st(gen.StIndex(0))}, {"□[*]", st(gen.StListStar())}, {"□[]", st(gen.StFlatten())},
		{"□[?@]", st(gen.StFilter(gen.Current()))}, {"□.*", st(gen.StStar())}, {"□[1:]", st(gen.StSlice(gen.I(1), nil, nil))},
		{"□ | a", func(h *gen.Expr) *gen.Expr { return gen.Pipe(h, a()) }}, {"a | □", func(h *gen.Expr) *gen.Expr { return gen.Pipe(a(), h) }},
		{"□ || a", func(h *gen.Expr) *gen.Expr { return gen.Or(h, a()) }}, {"a || □", func(h *gen.Expr) *gen.Expr { return gen.Or(a(), h) }},
		{"□ && a", func(h *gen.Expr) *gen.Expr { return gen.And(h, a()) }}, {"a && □", func(h *gen.Expr) *gen.Expr { return gen.And(a(), h) }},
		{"!□", func(h *gen.Expr) *gen.Expr { return gen.Not(h) }},
		{"□ == a", func(h *gen.Expr) *gen.Expr { return gen.Cmp("==", h, a()) }}, {"a < □", func(h *gen.Expr) *gen.Expr { return gen.Cmp("<", a(), h) }},
		{"[□]", func(h *gen.Expr) *gen.Expr { return gen.MultiList(h) }}, {"[a, □]", func(h *gen.Expr) *gen.Expr { return gen.MultiList(a(), h) }},
		{"{k: □}", func(h *gen.Expr) *gen.Expr { return gen.MultiHash(keyA("k"), []*gen.Expr{h}) }},
		{"to_array(□)", func(h *gen.Expr) *gen.Expr { return gen.Func("to_array", h) }},
		{"not_null(a, □)", func(h *gen.Expr) *gen.Expr { return gen.Func("not_null", a(), h) }},
		{"(□)", func(h *gen.Expr) *gen.Expr { return gen.Paren(h) }},
		{"x[*].[□]", func(h *gen.Expr) *gen.Expr { return gen.Chain(x(), gen.StListStar(), gen.StMultiList(h)) }},
		{"x[?□]", func(h *gen.Expr) *gen.Expr { return gen.Chain(x(), gen.StFilter(h)) }},
		{"x[?a].[□]", func(h *gen.Expr) *gen.Expr { return gen.Chain(x(), gen.StFilter(a()), gen.StMultiList(h)) }},
		{"o.*.[□]", func(h *gen.Expr) *gen.Expr { return gen.Chain(gen.Field("o"), gen.StStar(), gen.StMultiList(h)) }},
		{"x[].[□]", func(h *gen.Expr) *gen.Expr { return gen.Chain(x(), gen.StFlatten(), gen.StMultiList(h)) }},
		{"x[:1].[□]", func(h *gen.Expr) *gen.Expr {
			return gen.Chain(x(), gen.StSlice(nil, gen.I(1), nil), gen.StMultiList(h))
		}},
		{"map(&□, x)", func(h *gen.Expr) *gen.Expr { return gen.Func("map", gen.ExpRef(h), x()) }},
		{"sort_by(x, &□)", func(h *gen.Expr) *gen.Expr { return gen.Func("sort_by", x(), gen.ExpRef(h)) }},
		{"max_by(x, &□)", func(h *gen.Expr) *gen.Expr { return gen.Func("max_by", x(), gen.ExpRef(h)) }},
		{"min_by(x, &□)", func(h *gen.Expr) *gen.Expr { return gen.Func("min_by", x(), gen.ExpRef(h)) }},
		{"a.[□]", func(h *gen.Expr) *gen.Expr { return gen.Chain(a(), gen.StMultiList(h)) }},
		{"{k: □, k: a}", func(h *gen.Expr) *gen.Expr {
			return gen.MultiHash([]gen.Key{{Name: "k"}, {Name: "k"}}, []*gen.Expr{h, a()})
		}},
		{"{k: a, \"k\": □, j: a}", func(h *gen.Expr) *gen.Expr {
			return gen.MultiHash([]gen.Key{{Name: "k"}, {Name: "k", Quoted: true}, {Name: "j"}}, []*gen.Expr{a(), h, a()})
		}},
		{"[□, □]", func(h *gen.Expr) *gen.Expr { return gen.MultiList(h, h) }},
		// the hole twice under one operator (nothing may be decided from "both operands are the same expression")
		{"□ == □", func(h *gen.Expr) *gen.Expr { return gen.Cmp("==", h, h) }}, {"□ != □", func(h *gen.Expr) *gen.Expr { return gen.Cmp("!=", h, h) }},
		{"□ <= □", func(h *gen.Expr) *gen.Expr { return gen.Cmp("<=", h, h) }}, {"□ || □", func(h *gen.Expr) *gen.Expr { return gen.Or(h, h) }}, {"□ && □", func(h *gen.Expr) *gen.Expr { return gen.And(h, h) }},
		// the hole as the argument of functions that accept more than the hole's own function does
		{"length(□)", func(h *gen.Expr) *gen.Expr { return gen.Func("length", h) }}, {"type(□)", func(h *gen.Expr) *gen.Expr { return gen.Func("type", h) }},
		{"to_string(□)", func(h *gen.Expr) *gen.Expr { return gen.Func("to_string", h) }}, {"length(keys(□))", func(h *gen.Expr) *gen.Expr { return gen.Func("length", gen.Func("keys", h)) }},
		{"x[?□] | [0]", func(h *gen.Expr) *gen.Expr {
			return gen.Pipe(gen.Chain(x(), gen.StFilter(h)), gen.Chain(nil, gen.StIndex(0)))
		}},
		{"x[*].[□] | [0]", func(h *gen.Expr) *gen.Expr {
			return gen.Pipe(gen.Chain(x(), gen.StListStar(), gen.StMultiList(h)), gen.Chain(nil, gen.StIndex(0)))
		}},
		// the hole on the right of a dot whose left side is null / missing / an out-of-range element (only a
		// function call or a multi-select may stand there: other holes are wrapped in a multi-select list)
		{"missing.□", func(h *gen.Expr) *gen.Expr { return gen.Chain(gen.Field("missing"), dotRHS(h)) }},
		{"x[9].□", func(h *gen.Expr) *gen.Expr { return gen.Chain(x(), gen.StIndex(9), dotRHS(h)) }},
		{"x[*].missing.□", func(h *gen.Expr) *gen.Expr {
			return gen.Chain(x(), gen.StListStar(), gen.StField("missing"), dotRHS(h))
		}},
		{"a.□", func(h *gen.Expr) *gen.Expr { return gen.Chain(a(), dotRHS(h)) }},
		{"not_null(a, a, □)", func(h *gen.Expr) *gen.Expr { return gen.Func("not_null", a(), a(), h) }},
		// the hole on the LEFT of an operator whose right side alone would decide the outcome: the left side is evaluated first all the same
		{"x[?□ && `false`]", func(h *gen.Expr) *gen.Expr { return gen.Chain(x(), gen.StFilter(gen.And(h, gen.LitJSON("false")))) }},
		{"x[?□ || `true`]", func(h *gen.Expr) *gen.Expr { return gen.Chain(x(), gen.StFilter(gen.Or(h, gen.LitJSON("true")))) }},
		{"□ && `false`", func(h *gen.Expr) *gen.Expr { return gen.And(h, gen.LitJSON("false")) }},
		{"□ || `true`", func(h *gen.Expr) *gen.Expr { return gen.Or(h, gen.LitJSON("true")) }},
		{"x[?(□ || `true`) && a]", func(h *gen.Expr) *gen.Expr {
			return gen.Chain(x(), gen.StFilter(gen.And(gen.Paren(gen.Or(h, gen.LitJSON("true"))), a())))
		}},
		{"x[?!(□ && `null`)]", func(h *gen.Expr) *gen.Expr {
			return gen.Chain(x(), gen.StFilter(gen.Not(gen.Paren(gen.And(h, gen.LitJSON("null"))))))
		}},
		{"□ == □ || `true`", func(h *gen.Expr) *gen.Expr { return gen.Or(gen.Cmp("==", h, h), gen.LitJSON("true")) }},
		// a condition that never mentions the element, over a list whose FIRST element is null (a multi-select there is null and
		// evaluates nothing; on the later elements it evaluates its members)
		{"nl[?[□]]", func(h *gen.Expr) *gen.Expr { return gen.Chain(gen.LitJSON("[null,1,2]"), gen.StFilter(gen.MultiList(h))) }},
		{"nl[?{k: □}]", func(h *gen.Expr) *gen.Expr {
			return gen.Chain(gen.LitJSON("[null,1,2]"), gen.StFilter(gen.MultiHash(keyA("k"), []*gen.Expr{h})))
		}},
		{"nl[*].[□]", func(h *gen.Expr) *gen.Expr { return gen.Chain(gen.LitJSON("[null,null,1]"), gen.StListStar(), gen.StMultiList(h)) }},
		{"nl[?[a, □]].a", func(h *gen.Expr) *gen.Expr {
			return gen.Chain(gen.LitJSON(`[null,{"a":1}]`), gen.StFilter(gen.MultiList(gen.Field("a"), h)), gen.StField("a"))
		}},
		{"merge({k: a}, {k: □})", func(h *gen.Expr) *gen.Expr {
			return gen.Func("merge", gen.MultiHash(keyA("k"), []*gen.Expr{a()}), gen.MultiHash(keyA("k"), []*gen.Expr{h}))
		}},
	}
}

func c11Errors() []struct {
	name string
	e    *gen.Expr
} {
	return []struct {
		name string
		e    *gen.Expr
	}{
		{"invalid-type", gen.Func("abs", gen.Raw("s"))},
		{"invalid-arity", gen.Func("abs")},
		{"unknown-function", gen.Func("nosuchfn", gen.Current())},
		{"zero-slice-step", gen.Chain(gen.LitJSON("[1,2]"), gen.StSliceS("", "", "0"))},
		{"zero-slice-step, start at the length", gen.Chain(gen.LitJSON("[1,2]"), gen.StSliceS("2", "", "0"))},
		{"zero-slice-step, bounds select nothing", gen.Chain(gen.LitJSON("[1,2]"), gen.StSliceS("5", "7", "0"))},
		{"zero-slice-step, equal bounds", gen.Chain(gen.LitJSON("[1,2,3]"), gen.StSliceS("1", "1", "0"))},
		{"zero-slice-step on an empty array", gen.Chain(gen.LitJSON("[]"), gen.StSliceS("0", "", "0"))},
		{"by-expression key error", gen.Func("sort_by", gen.LitJSON(`[{"a":1},{"a":"x"}]`), gen.ExpRef(gen.Field("a")))},
		{"error inside an expref body", gen.Func("map", gen.ExpRef(gen.Func("abs", gen.Raw("s"))), gen.LitJSON("[1]"))},
		{"error inside a filter condition", gen.Chain(gen.LitJSON("[1]"), gen.StFilter(gen.Func("abs", gen.Raw("s"))))},
		{"variadic invalid-type", gen.Func("merge", gen.LitJSON("{}"), gen.LitJSON("1"))},
		{"expression reference where a value is required (any)", gen.Func("to_array", gen.ExpRef(gen.Field("a")))},
		{"expression reference where a value is required (any, second argument)", gen.Func("contains", gen.LitJSON("[1]"), gen.ExpRef(gen.Field("a")))},
		{"by-expression keys of two kinds (max_by)", gen.Func("max_by", gen.LitJSON(`[{"a":1},{"a":"x"}]`), gen.ExpRef(gen.Field("a")))},
		{"by-expression keys of two kinds (min_by, string first)", gen.Func("min_by", gen.LitJSON(`[{"a":"x"},{"a":2},{"a":"y"}]`), gen.ExpRef(gen.Field("a")))},
		{"elements all of one non-number, non-string kind (sort)", gen.Func("sort", gen.LitJSON(`[true,false]`))},
		{"inner call rejects what the outer call would accept", gen.Func("length", gen.Func("keys", gen.Raw("str")))},
		{"inner call rejects an array the outer call would accept", gen.Func("length", gen.Func("values", gen.LitJSON("[1,2]")))},
		// the outer call rejects what the inner call rightly returns (an array of the other element kind, a string where a number is due)
		{"outer call rejects the strings a sort returns", gen.Func("sum", gen.Func("sort", gen.LitJSON(`["b","a"]`)))},
		{"outer call rejects the numbers a sort returns", gen.Func("join", gen.Raw(","), gen.Func("sort", gen.LitJSON(`[2,1]`)))},
		{"outer call rejects the strings keys() returns", gen.Func("avg", gen.Func("keys", gen.LitJSON(`{"a":1}`)))},
		{"outer call rejects what map() returns", gen.Func("sum", gen.Func("map", gen.ExpRef(gen.Current()), gen.LitJSON(`["a"]`)))},
		{"outer call rejects the string a type() returns", gen.Func("abs", gen.Func("type", gen.LitJSON("1")))},
		{"outer call rejects the number a length() returns", gen.Func("starts_with", gen.Func("length", gen.Raw("abc")), gen.Raw("3"))},
		{"outer call rejects the reversed strings", gen.Func("max", gen.MultiList(gen.LitJSON("1"), gen.Func("reverse", gen.Raw("ab"))))},
		{"outer call rejects the values() of an object of strings", gen.Func("sum", gen.Func("values", gen.LitJSON(`{"a":"x"}`)))},
		{"outer call rejects the sorted strings of a sort_by", gen.Func("sum", gen.Func("sort_by", gen.LitJSON(`["b","a"]`), gen.ExpRef(gen.Current())))},
	}
}

// c11LateCases: expressions in which only some elements of a projection / map / sort_by / max_by raise an
// error (first, middle, last, none; also far into 40-element arrays), with an index, slice, pipe or function
// applied to the projection - and the documents they run on. Shared with C10 (the failing call is a function
// type error).
func c11LateCases() ([]*gen.Expr, []interface{}) {
	// errors that only SOME elements raise: an early exit, a first-match shortcut or a per-element
	// cache can swallow the error of a later (or earlier) element
	var lateTrees []*gen.Expr
	absA := func() *gen.Expr { return gen.Func("abs", gen.Field("a")) }
	gt0 := func() *gen.Expr { return gen.Cmp(">", absA(), gen.LitJSON("0")) }
	x := func() *gen.Expr { return gen.Field("x") }
	idx := func(e *gen.Expr, n int64) *gen.Expr { return gen.Chain(gen.Paren(e), gen.StIndex(n)) }
	pipeIdx := func(e *gen.Expr, n int64) *gen.Expr { return gen.Pipe(e, gen.Chain(nil, gen.StIndex(n))) }
	fn := gen.StFunc("abs", gen.Field("a"))
	proj := func(steps ...gen.Step) *gen.Expr { return gen.Chain(x(), steps...) }
	add := func(e *gen.Expr) { lateTrees = append(lateTrees, e) }
	base := []*gen.Expr{
		proj(gen.StListStar(), fn), proj(gen.StFilter(gt0())), proj(gen.StFilter(gt0()), gen.StField("k")), proj(gen.StFlatten(), fn), proj(gen.StSliceS("0", "2", ""), fn), proj(gen.StSliceS("1", "", ""), fn),
		proj(gen.StSliceS("", "", "-1"), fn), gen.Chain(gen.Field("o"), gen.StStar(), fn), proj(gen.StListStar(), gen.StMultiList(absA())), proj(gen.StListStar(), gen.StMultiHash(keyA("v"), []*gen.Expr{absA()})),
		proj(gen.StFilter(gen.Cmp("<", gen.Field("k"), gen.LitJSON("3"))), fn), proj(gen.StFilter(gen.Cmp(">", gen.Field("k"), gen.LitJSON("1"))), fn), proj(gen.StFilter(gen.Cmp("!=", gen.Field("k"), gen.LitJSON("2"))), fn),
		gen.Func("map", gen.ExpRef(absA()), x()), gen.Func("sort_by", x(), gen.ExpRef(absA())), gen.Func("max_by", x(), gen.ExpRef(absA())), gen.Func("min_by", x(), gen.ExpRef(absA())),
		proj(gen.StListStar(), gen.StFunc("not_null", absA(), gen.Field("k"))), proj(gen.StFilter(gen.Or(gen.Cmp("==", gen.Field("a"), gen.LitJSON("1")), gen.Cmp(">", absA(), gen.LitJSON("5"))))),
		proj(gen.StFilter(gen.And(gen.Cmp("==", gen.Field("k"), gen.LitJSON("1")), gt0()))), proj(gen.StListStar(), gen.StMultiList(gen.Field("k"), absA()), gen.StIndex(0)),
		gen.Chain(gen.Field("y"), gen.StListStar(), gen.StListStar(), fn), gen.Chain(gen.Field("y"), gen.StFlatten(), fn), gen.Chain(gen.Field("y"), gen.StListStar(), gen.StIndex(0), fn),
		gen.Chain(gen.Field("y"), gen.StIndex(0), gen.StListStar(), fn), gen.Chain(gen.Field("y"), gen.StListStar(), gen.StFilter(gt0())), proj(gen.StListStar(), gen.StField("k")),
	}
	for _, b := range base {
		add(b)
		for _, n := range []int64{0, 1, -1} {
			add(pipeIdx(b, n))
			add(idx(b, n))
		}
		add(gen.Pipe(b, gen.Chain(nil, gen.StIndex(0), gen.StField("k"))))
		add(gen.Pipe(b, gen.Func("length", gen.Current())))
		add(gen.Pipe(b, gen.Chain(nil, gen.StSliceS("0", "1", ""))))
		add(gen.Chain(gen.Paren(b), gen.StSliceS("", "1", "")))
		add(gen.Func("not_null", b))
		add(gen.Func("length", b))
		add(gen.Or(b, gen.LitJSON("1")))
		add(gen.MultiList(b, gen.Field("k")))
		add(gen.Or(pipeIdx(b, 0), gen.LitJSON("9")))
	}
	add(gen.MultiList(gen.Chain(x(), gen.StIndex(0), fn), gen.Chain(x(), gen.StIndex(2), fn)))
	add(gen.MultiList(gen.Chain(x(), gen.StIndex(0), fn), gen.Chain(x(), gen.StIndex(1), fn)))
	add(gen.Func("sum", proj(gen.StListStar(), fn)))
	var lateDocs []interface{}
	for bad := -1; bad < 4; bad++ {
		mk := func(n int) []interface{} {
			arr := make([]interface{}, n)
			for i := range arr {
				var a interface{} = float64(i + 1)
				if i == bad {
					a = "s"
				}
				arr[i] = map[string]interface{}{"a": a, "k": float64(i + 1)}
			}
			return arr
		}
		xs := mk(4)
		o := map[string]interface{}{"p": xs[0], "q": xs[1], "r": xs[2]}
		lateDocs = append(lateDocs, map[string]interface{}{"x": xs, "o": o, "y": []interface{}{mk(2), mk(4)}, "k": float64(7)})
	}
	for _, bad := range []int{0, 17, 39} {
		// long arrays: the erroring element is far from the start (beyond any small-input fast path)
		arr := make([]interface{}, 40)
		for i := range arr {
			var a interface{} = float64(i + 1)
			if i == bad {
				a = "s"
			}
			arr[i] = map[string]interface{}{"a": a, "k": float64(i%3 + 1)}
		}
		lateDocs = append(lateDocs, map[string]interface{}{"x": arr, "o": map[string]interface{}{"p": arr[0], "q": arr[17], "r": arr[39]}, "y": []interface{}{arr[:20], arr[20:]}, "k": float64(7)})
	}
	// lists in which the failing element is not an object at all (its members are null, and abs(null) is an error): whatever skips
	// "elements that cannot contribute" must not skip the evaluation that fails on them
	for bad := 0; bad < 4; bad++ {
		for _, odd := range []interface{}{float64(7), "str", nil, []interface{}{float64(1)}, true} {
			mk := func(n int) []interface{} {
				arr := make([]interface{}, n)
				for i := range arr {
					arr[i] = map[string]interface{}{"a": float64(i + 1), "k": float64(i + 1)}
					if i == bad {
						arr[i] = odd
					}
				}
				return arr
			}
			xs := mk(4)
			lateDocs = append(lateDocs, map[string]interface{}{"x": xs, "o": map[string]interface{}{"p": xs[0], "q": xs[1], "r": xs[2]}, "y": []interface{}{mk(2), mk(4)}, "k": float64(7)})
		}
	}
	return lateTrees, lateDocs
}

func c11(r *mon.Run) {
	r.Rule = "E = one representative per error kind and origin (invalid type, invalid arity, unknown function, zero slice step, by-expression key error, error inside an expref body, error inside a filter condition, ill-typed variadic argument) placed in every single-hole context of the grammar (53 contexts, incl. a multi-select hash that repeats a key: every operator side, every projection kind as left side and as right-hand side / condition, function arguments, expression-reference bodies, multi-select members), " +
		"composed to depth 1 and 2 (3 in thorough) and evaluated on 5 documents that make the hole evaluated or legitimately skipped (left of || true-like, projection over [] / over a non-array, filter never true). plus 460 expressions in which only some elements of a projection / map / sort_by / max_by raise the error (first, middle, last, none), with an index, slice, pipe or function applied to the projection. Oracle: the model evaluates, so 'error expected' is computed. Non-trivial = distinct (context path, error kind, document) with both classes (error expected / legitimately hidden) counted."
	r.Exhaustive = true
	r.Floor = 1000
	r.Assumptions = []string{"which operands are 'legitimately not evaluated' is what the reference evaluator does: right side of a short-circuited || / &&, right-hand side or condition of a projection over zero elements or over a left side of the wrong type"}
	cxs := c11Contexts()
	errs := c11Errors()
	ds := []interface{}{
		docs.J(`{"a":1,"x":[{"a":1},{"a":2}],"o":{"p":{"a":1},"q":{"a":2}}}`),
		docs.J(`{"a":null,"x":[],"o":{}}`),
		docs.J(`{"a":0,"x":"str","o":[1]}`),
		docs.J(`{"a":"","x":[{"a":false},{"a":null}],"o":{"p":null}}`),
		docs.J(`null`),
	}
	C, E, D := len(cxs), len(errs), len(ds)
	depth := tierPick(r, 2, 3)
	total := 0
	offs := []int{0}
	p := 1
	for d := 1; d <= depth; d++ {
		p *= C
		total += p * E * D
		offs = append(offs, total)
	}
	decode := func(i int) (*gen.Expr, interface{}, string, string) {
		d := 1
		for i >= offs[d] {
			d++
		}
		o := i - offs[d-1]
		doc := ds[o%D]
		o /= D
		er := errs[o%E]
		o /= E
		tree := er.e
		path := ""
		for k := 0; k < d; k++ {
			c := cxs[o%C]
			o /= C
			tree = c.f(tree)
			path = c.name + " ∘ " + path
		}
		return tree, doc, path, er.name
	}
	w := mon.Workload{Name: "error-in-context", N: total, Batch: 4000,
		Describe: func(i int) string { tr, d, _, _ := decode(i); return gen.Spell(tr) + " on " + ref.Canon(d) },
		Do: func(i int, t *mon.Tally) {
			tree, doc, path, ek := decode(i)
			expr := gen.Spell(tree)
			cx := &caseCtx{r, t, "error-in-context", i}
			var res ref.Result
			if i%3 == 0 {
				res, _, _ = cx.runBoth(tree, expr, doc)
			} else {
				res, _, _ = cx.runOne(tree, expr, doc)
			}
			t.NontrivialDistinct(1)
			if isErr(res) {
				t.Count("hole evaluated: error expected")
				t.Set("error kinds propagated", ek)
			} else {
				t.Count("hole legitimately not evaluated: value expected")
			}
			if len(path) < 40 {
				t.Set("depth-1 contexts", path)
			}
			if i%20011 == 0 {
				t.Sample(map[string]interface{}{"expression": expr, "document": doc, "context": path, "error": ek, "expected": expectedString(res)})
			}
		}}
	lateTrees, lateDocs := c11LateCases()
	LD := len(lateDocs)
	// the same documents with Go-typed slices ([]map[string]interface{}, [][]map[string]interface{}): the
	// reflection twins of the projection loops must propagate the same errors
	typed := func(doc interface{}) interface{} {
		m := doc.(map[string]interface{})
		out := map[string]interface{}{"o": m["o"], "k": m["k"]}
		allObjects := true
		conv := func(v interface{}) []map[string]interface{} {
			arr := v.([]interface{})
			ms := make([]map[string]interface{}, len(arr))
			for i, e := range arr {
				if o, ok := e.(map[string]interface{}); ok {
					ms[i] = o
				} else {
					allObjects = false
				}
			}
			return ms
		}
		out["x"] = conv(m["x"])
		ys := m["y"].([]interface{})
		yy := make([][]map[string]interface{}, len(ys))
		for i, e := range ys {
			yy[i] = conv(e)
		}
		out["y"] = yy
		if !allObjects {
			return doc // (a list holding something that is no object has no []map form)
		}
		return out
	}
	late := mon.Workload{Name: "errors-in-some-elements", N: len(lateTrees) * LD * 2,
		Describe: func(i int) string { return gen.Spell(lateTrees[(i/2)/LD]) + " on " + ref.Canon(lateDocs[(i/2)%LD]) },
		Do: func(i int, t *mon.Tally) {
			asTyped := i%2 == 1
			i /= 2
			tree, doc := lateTrees[i/LD], lateDocs[i%LD]
			expr := gen.Spell(tree)
			cx := &caseCtx{r, t, "errors-in-some-elements", i}
			if asTyped {
				// only error-ness is compared on typed data (value equivalence of typed documents is C18's)
				res := ref.RefSet(tree, doc, gen.Quirks{})
				o := apiSearch(expr, typed(mon.DeepCopy(doc)))
				t.Eval()
				if o.Panicked {
					r.Violate(&mon.Violation{Workload: "errors-in-some-elements", Index: i, API: "Search", Expr: expr, Doc: doc, DocDesc: "typed-slice form of " + ref.Canon(doc), Expected: expectedString(res), Observed: o.String(), Class: "typed: panic"})
				} else if isErr(res) && o.Err == nil {
					r.Violate(&mon.Violation{Workload: "errors-in-some-elements", Index: i, API: "Search", Expr: expr, Doc: doc, DocDesc: "typed-slice ([]map[string]interface{}) form of " + ref.Canon(doc),
						Expected: expectedString(res), Observed: o.String(), Class: "typed: error swallowed"})
				}
				return
			}
			res, _, _ := cx.runBoth(tree, expr, doc)
			t.NontrivialDistinct(1)
			if isErr(res) {
				t.Count("element-dependent: error expected")
			} else {
				t.Count("element-dependent: value expected (the erroring element is not evaluated)")
			}
		}}
	nr := tierPick(r, 40000, 1000000)
	rnd := mon.Workload{Name: "random-erroring-trees", N: nr,
		Do: func(i int, t *mon.Tally) {
			rng := gen.DeriveN(r.Seed, "c11rand", i)
			g := gen.NewTreeGen(rng)
			g.MaxDepth = 2 + rng.Intn(4)
			g.IllTyped = 5
			tree := g.Expr(0, gen.WAny)
			doc := docs.NewRand(rng).TypedDoc(0)
			expr := gen.Spell(tree)
			cx := &caseCtx{r, t, "random-erroring-trees", i}
			res, _, _ := cx.runBoth(tree, expr, doc)
			if isErr(res) {
				t.Nontrivial("r:" + expr + ref.Canon(doc))
				t.Count("random: error expected")
			} else if res.Stats.ErrorsRaised == 0 {
				t.Count("random: no error raised")
			}
		}}
	// a by-expression call whose key expression itself makes a by-expression call: the outer call fails because the
	// keys it gets are of two kinds (or of a kind that is no key) at one position only - first, second, middle,
	// last but one, last - while every inner call succeeds; and the other way round (an inner call fails for one
	// element only). Whatever a by-function keeps while it runs belongs to that one call.
	outers := []string{"sort_by", "max_by", "min_by"}
	inners := []func() *gen.Expr{
		func() *gen.Expr {
			return gen.Chain(gen.Func("sort_by", gen.Field("m"), gen.ExpRef(gen.Field("k"))), gen.StIndex(0), gen.StField("k"))
		},
		func() *gen.Expr {
			return gen.Chain(gen.Func("max_by", gen.Field("m"), gen.ExpRef(gen.Field("k"))), gen.StField("k"))
		},
		func() *gen.Expr {
			return gen.Chain(gen.Func("min_by", gen.Field("m"), gen.ExpRef(gen.Field("k"))), gen.StField("k"))
		},
		func() *gen.Expr {
			return gen.Chain(gen.Func("map", gen.ExpRef(gen.Field("k")), gen.Field("m")), gen.StIndex(-1))
		},
		func() *gen.Expr {
			return gen.Chain(gen.Func("sort", gen.Chain(gen.Field("m"), gen.StListStar(), gen.StField("k"))), gen.StIndex(0))
		},
		func() *gen.Expr {
			return gen.Func("max", gen.Chain(gen.Field("m"), gen.StListStar(), gen.StField("k")))
		},
	}
	nlens := []int{2, 3, 4, 5, 8, 20}
	const nposs, nbads = 6, 4
	nested := mon.Workload{Name: "by-functions-nested-in-by-function-keys", N: len(outers) * len(inners) * len(nlens) * nposs * nbads, Batch: 500,
		Do: func(i int, t *mon.Tally) {
			k := i
			outer := outers[k%len(outers)]
			k /= len(outers)
			inner := inners[k%len(inners)]()
			k /= len(inners)
			n := nlens[k%len(nlens)]
			k /= len(nlens)
			pos := []int{-1, 0, 1, n / 2, n - 2, n - 1}[k%nposs]
			bad := k / nposs
			groups := make([]interface{}, n)
			for g := range groups {
				k1, k2 := interface{}(float64((g*7+3)%n)), interface{}(float64((g*7+3)%n+n))
				if g == pos {
					switch bad {
					case 0: // both keys of this group are strings: its inner call succeeds, the outer keys are of two kinds
						k1, k2 = "2", "3"
					case 1: // null keys: the inner call fails for this group only
						k1, k2 = nil, nil
					case 2: // keys of two kinds inside the group: the inner call fails for this group only
						k2 = "x"
					default: // arrays as keys
						k1, k2 = []interface{}{float64(1)}, []interface{}{float64(2)}
					}
				}
				groups[g] = map[string]interface{}{"m": []interface{}{map[string]interface{}{"k": k2}, map[string]interface{}{"k": k1}}, "g": float64(g)}
			}
			doc := map[string]interface{}{"groups": groups}
			var tree *gen.Expr = gen.Func(outer, gen.Field("groups"), gen.ExpRef(inner))
			switch i % 3 {
			case 1:
				tree = gen.Func("length", gen.Func("to_array", tree))
			case 2:
				tree = gen.MultiList(tree, gen.Field("missing"))
			}
			cx := &caseCtx{r, t, "by-functions-nested-in-by-function-keys", i}
			res, _, _ := cx.runBoth(tree, gen.Spell(tree), doc)
			t.NontrivialDistinct(1)
			if isErr(res) {
				t.Count("nested by-functions: error expected")
			} else {
				t.Count("nested by-functions: value expected")
			}
		}}
	// an erroring expression searched (one-shot) right after a succeeding expression that a short digest cannot tell from it
	// (same length, same 32-bit FNV-1a checksum; the pairs are precomputed): it fails all the same
	collw := mon.Workload{Name: "erroring-expressions-that-collide-with-succeeding-ones", N: 1,
		Do: func(i int, t *mon.Tally) {
			doc := docs.J(`{"name":"n","k136079":1,"k0403522":2,"declinate":"s","macallums":"s"}`)
			for _, pr := range [][2]string{{"length(name)||k136079", "abs(name) || k0403522"}, {"declinate", "abs(macallums)"}, {"length(declinate)", "abs(macallums)"}} {
				for rep := 0; rep < 2; rep++ {
					t.Eval()
					ok := apiSearch(pr[0], mon.DeepCopy(doc))
					bad := apiSearch(pr[1], mon.DeepCopy(doc))
					if ok.Panicked || ok.Err != nil || bad.Panicked || bad.Err == nil {
						r.Violate(&mon.Violation{Workload: "erroring-expressions-that-collide-with-succeeding-ones", Index: i, API: "Search", Expr: pr[1], Doc: doc, Expected: "an error (abs of a string), also right after the one-shot Search of " + pr[0] + " (which gives " + ok.String() + ")", Observed: bad.String(), Class: "error lost after a look-alike expression"})
						return
					}
				}
			}
			t.Nontrivial("coll")
		}}
	r.Exec(w, late, rnd, nested, collw)
}
