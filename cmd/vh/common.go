package main

import (
	"strings"

	jmespath "github.com/jmespath/go-jmespath"

	"verifharness/gen"
	"verifharness/mon"
	"verifharness/ref"
)

// ---- guarded API calls ----------------------------------------------------

func apiSearch(expr string, doc interface{}) mon.Observed {
	return mon.Guard(func() (interface{}, error) { return jmespath.Search(expr, doc) })
}

// apiCompile compiles under the guard. The Observed value carries the
// *JMESPath in V when successful.
func apiCompile(expr string) (jp *jmespath.JMESPath, o mon.Observed) {
	o = mon.Guard(func() (interface{}, error) {
		j, err := jmespath.Compile(expr)
		if err != nil {
			return nil, err
		}
		jp = j
		return nil, nil
	})
	return
}

func apiCompiledSearch(expr string, doc interface{}) mon.Observed {
	jp, o := apiCompile(expr)
	if o.Panicked || o.Err != nil {
		return o
	}
	return mon.Guard(func() (interface{}, error) { return jp.Search(doc) })
}

func apiJP(jp *jmespath.JMESPath, doc interface{}) mon.Observed {
	return mon.Guard(func() (interface{}, error) { return jp.Search(doc) })
}

// ---- judging against the reference model ---------------------------------

type caseCtx struct {
	r   *mon.Run
	t   *mon.Tally
	wl  string
	idx int
}

func expectedString(res ref.Result) string {
	if res.Skipped != "" {
		return "skipped: " + res.Skipped
	}
	parts := make([]string, 0, len(res.Outcomes)+1)
	for _, o := range res.Outcomes {
		parts = append(parts, o.String())
	}
	if res.DontCare {
		parts = append(parts, "dont-care")
	}
	s := strings.Join(parts, "  |  ")
	if len(s) > 3000 {
		s = s[:3000] + "…"
	}
	return s
}

// matches: is the observation one of the allowed outcomes?
func matches(res ref.Result, obs mon.Observed) bool {
	if obs.Panicked {
		return false
	}
	for _, o := range res.Outcomes {
		if o.Err != "" {
			if obs.Err != nil {
				return true
			}
			continue
		}
		if obs.Err == nil && ref.Match(o.V, obs.V) {
			return true
		}
	}
	return false
}

// openQuirks lists the quirk modes that belong to *open* entries of
// known_findings.json (DESIGN §2.5); each is an exact reproduction of one
// documented deviation. Empty when everything has been repaired.
var openQuirks = []struct {
	class string
	q     gen.Quirks
}{}

// judge compares one observation with the model. It returns false when a
// violation (or known finding) was recorded.
func (c *caseCtx) judge(tree *gen.Expr, expr string, doc interface{}, api string, obs mon.Observed, res ref.Result) bool {
	c.t.Eval()
	c.t.Count("outcome:" + obs.Class())
	if obs.Panicked {
		c.r.Violate(&mon.Violation{Workload: c.wl, Index: c.idx, API: api, Expr: expr, Doc: doc,
			Expected: expectedString(res), Observed: obs.String(), Detail: obs.Stack, Class: "panic"})
		return false
	}
	if res.Skipped != "" {
		c.t.Count("skipped:" + res.Skipped)
		return true
	}
	if res.DontCare {
		c.t.Count("skipped:dont-care (unspecified by the function specification)")
		return true
	}
	if matches(res, obs) {
		// the value the specification assigns is JSON data: a nil slice where an empty array is due, a NaN or
		// a foreign Go type is not "exactly that value" even where the comparison above is lenient
		if obs.Err == nil {
			if why := mon.JSONShape(obs.V); why != "" {
				c.r.Violate(&mon.Violation{Workload: c.wl, Index: c.idx, API: api, Expr: expr, Doc: doc,
					Expected: expectedString(res) + " as JSON data", Observed: obs.String(), Detail: why, Class: c.wl + ": result is not JSON data"})
				return false
			}
		}
		return true
	}
	class := ""
	for _, oq := range openQuirks {
		if qr := ref.RefSet(tree, doc, oq.q); qr.Skipped == "" && !qr.DontCare && matches(qr, obs) {
			class = oq.class
			break
		}
	}
	if class == "" {
		ek := "value"
		if isErr(res) {
			ek = "error"
		} else if !nonNull(res) {
			ek = "null"
		}
		class = c.wl + ": expected " + ek + ", observed " + obs.Class()
	}
	c.r.Violate(&mon.Violation{Workload: c.wl, Index: c.idx, API: api, Expr: expr, Doc: doc,
		Expected: expectedString(res), Observed: obs.String(), Class: class})
	return false
}

// poisons are expressions evaluated (and mostly rejected) *before* a judged call in a fixed quarter of
// the cases: whatever a failed or odd earlier call leaves behind in process-wide state (pools, caches,
// reused lexers) must not leak into the next, unrelated call. The outcome of the poison call itself is
// not judged here (C05/C17 do that).
var poisons = []string{
	"'it\\'s", "'\\'", "'é\\'😀", "\"ab\\\"c", "\"\\u00e9", "`[1,\\`", "`\"\\`x", "((((a", "[[[[", "{a:{a:", "a[?b==`1", "a.b.c.d.",
	"abs(abs(abs(", "&", "a[0", "a[:", "a ~ b", "foo[", "'a\\'b'", "`\"x\\`y\"`", "\"q\\\"r\"", "a[::0]", "abs('a')", "unknown_fn(@)", "length(@)",
	"sort_by(@, &a)", "[?a==`1`].b | [0]", "'" + strings.Repeat("\\'x", 40), "`" + strings.Repeat("[", 40),
}

func poison(idx int) {
	if idx%4 != 1 {
		return
	}
	p := poisons[(idx/4)%len(poisons)]
	mon.Guard(func() (interface{}, error) { return jmespath.Search(p, poisonDoc) })
}

var poisonDoc = map[string]interface{}{"a": []interface{}{float64(1), "x"}, "b": "s"}

// runBoth evaluates expr on doc through both API entry points and judges
// both against the model. The document handed to the library is a private
// deep copy.
func (c *caseCtx) runBoth(tree *gen.Expr, expr string, doc interface{}) (ref.Result, mon.Observed, bool) {
	res := ref.RefSet(tree, doc, gen.Quirks{})
	poison(c.idx)
	o1 := apiSearch(expr, mon.DeepCopy(doc))
	ok := c.judge(tree, expr, doc, "Search", o1, res)
	// the compiled path answers twice (fresh deep copies): a cache or leftover state on the compiled
	// expression shows in the second answer
	jp, co := apiCompile(expr)
	if co.Panicked || co.Err != nil {
		ok2 := c.judge(tree, expr, doc, "Compile+Search", co, res)
		return res, o1, ok && ok2
	}
	o2 := apiJP(jp, mon.DeepCopy(doc))
	ok2 := c.judge(tree, expr, doc, "Compile+Search", o2, res)
	o3 := apiJP(jp, mon.DeepCopy(doc))
	ok3 := c.judge(tree, expr, doc, "Compile+Search (second call on the same compiled expression)", o3, res)
	// a result belongs to the caller: the later call must not have changed what the earlier one returned
	// (results sharing storage with the compiled expression's buffers)
	if ok2 && ok3 && res.Skipped == "" && !res.DontCare && !matches(res, o2) {
		c.r.Violate(&mon.Violation{Workload: c.wl, Index: c.idx, API: "Compile+Search", Expr: expr, Doc: doc,
			Expected: "the value returned by the first call stays what it was (" + expectedString(res) + ") after a second call on the same compiled expression", Observed: o2.String(),
			Class: c.wl + ": earlier result changed by a later call"})
		ok3 = false
	}
	return res, o1, ok && ok2 && ok3
}

// runOne makes one call per case (for the very large enumerations), through the one-shot Search for
// even case numbers and through Compile + Search for odd ones.
func (c *caseCtx) runOne(tree *gen.Expr, expr string, doc interface{}) (ref.Result, mon.Observed, bool) {
	res := ref.RefSet(tree, doc, gen.Quirks{})
	poison(c.idx)
	// one entry point per case, alternating: what only Compile does (rewrites, caches, eager checks) must
	// not hide from the large enumerations either
	if c.idx%2 == 1 {
		o1 := apiCompiledSearch(expr, mon.DeepCopy(doc))
		ok := c.judge(tree, expr, doc, "Compile+Search", o1, res)
		return res, o1, ok
	}
	o1 := apiSearch(expr, mon.DeepCopy(doc))
	ok := c.judge(tree, expr, doc, "Search", o1, res)
	return res, o1, ok
}

func tierPick(r *mon.Run, quick, thorough int) int {
	if r.Tier == "thorough" {
		return thorough
	}
	return quick
}

func nonNull(res ref.Result) bool {
	for _, o := range res.Outcomes {
		if o.Err == "" && o.V != nil {
			return true
		}
	}
	return false
}

func isErr(res ref.Result) bool {
	return len(res.Outcomes) > 0 && res.Outcomes[0].Err != ""
}

// edgeNumberStrings: decimal texts on and around the edges of the machine number formats (int64, uint64, the 2^53 window,
// the largest and smallest float64, long mantissas, long runs of zeros): a hand-written number scanner, an integer fast path or
// a scaled-mantissa shortcut goes wrong on one side of one of these.
var edgeNumberStrings = func() []string {
	out := []string{"9223372036854775806", "9223372036854775807", "9223372036854775808", "9223372036854775809", "-9223372036854775807", "-9223372036854775808", "-9223372036854775809", "9300000000000000000", "-9300000000000000000",
		"9999999999999999999", "10000000000000000000", "18446744073709551615", "18446744073709551616", "18446744073709551617", "99999999999999999999", "100000000000000000000", "123456789012345678901234567890", "999999999999999999", "1000000000000000000",
		"9007199254740991", "9007199254740992", "9007199254740993", "9007199254740995", "-9007199254740993", "4294967295", "4294967296", "2147483647", "2147483648", "-2147483649", "16777217", "999999999999999", "9999999999999999", "99999999999999999",
		"1e308", "1.7976931348623157e308", "1.7976931348623158e308", "1.7976931348623159e308", "1.797693134862315807e308", "1.797693134862315808e308", "1.8e308", "2e308", "18e307", "0.18e309", "179769313486231570e291", "9e308", "1e309", "-1.8e308", "-2e308", "1e310", "1e400", "-1e400", "1e4000", "1e99999",
		"17976931348623157e292", "179769313486231580793728971405303415079934132710037826936173778980444968292764750946649017977587207096330286416692887910946555547851940402630657488671505820681908902000708383676273854845817711531764475730270069855571366959622842914819860834936475292719074168444365510704342711559699508093042880177904174497791",
		"179769313486231580793728971405303415079934132710037826936173778980444968292764750946649017977587207096330286416692887910946555547851940402630657488671505820681908902000708383676273854845817711531764475730270069855571366959622842914819860834936475292719074168444365510704342711559699508093042880177904174497792",
		"5e-324", "4.9e-324", "2.5e-324", "2.4e-324", "2e-324", "1e-323", "1e-324", "1e-400", "-1e-400", "2.2250738585072014e-308", "2.2250738585072011e-308", "1e-999", "0e999", "0e-999", "-0e0", "0.0e309", "0." + strings.Repeat("0", 330) + "1", "0." + strings.Repeat("0", 320) + "1e320",
		"1" + strings.Repeat("0", 308), "1" + strings.Repeat("0", 309), "1" + strings.Repeat("0", 400) + "e-400", "0." + strings.Repeat("9", 40), "1." + strings.Repeat("0", 40) + "1", "123456789012345678", "1234567890123456789", "12345678901234567890", "0.1234567890123456789", "1.0000000000000002", "1.00000000000000011102230246251565404236316680908203125",
		"1.00000000000000011102230246251565404236316680908203124", "1.00000000000000011102230246251565404236316680908203126", "9007199254740993.0", "9007199254740992.5", "9007199254740993e0", "900719925474099.3e1", "1e22", "1e23", "8.5e22", "1e15", "1e16", "1e-5", "1e-7", "123e-20", "1.5e+300", "15e299",
		"1e+0308", "1e0000000000000000000000308", "1e00000000000000000000000309", "1E+308", "1E309", "1e-0000324", "2e-00000000000324", "1e18446744073709551616", "1e-18446744073709551616", "1e9223372036854775807", "0e18446744073709551616"}
	return out
}()
