// Command vh is the verification harness child process: it runs the
// workload and monitors of one property against the go-jmespath build it was
// linked with (the current /repo working tree, via the replace directive),
// writes evidence/<id>.json and prints VIOLATION / KNOWN-FINDING lines.
package main

import (
	"flag"
	"fmt"
	"os"
	"sort"

	"verifharness/mon"
)

type propFn func(r *mon.Run)

var props = map[string]propFn{}

func register(id string, f propFn) { props[id] = f }

func main() {
	prop := flag.String("prop", "", "property id (C01…C19)")
	tier := flag.String("tier", "quick", "quick | thorough")
	list := flag.Bool("list", false, "list properties")
	flag.Parse()
	if *list {
		ids := make([]string, 0, len(props))
		for id := range props {
			ids = append(ids, id)
		}
		sort.Strings(ids)
		for _, id := range ids {
			fmt.Println(id)
		}
		return
	}
	f, ok := props[*prop]
	if !ok {
		fmt.Fprintf(os.Stderr, "vh: unknown property %q\n", *prop)
		os.Exit(2)
	}
	if *tier != "quick" && *tier != "thorough" {
		fmt.Fprintf(os.Stderr, "vh: unknown tier %q\n", *tier)
		os.Exit(2)
	}
	r := mon.NewRun(*prop, *tier)
	f(r)
	os.Exit(r.Finish())
}
