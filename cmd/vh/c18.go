package main

import (
	"fmt"
	jmespath "github.com/jmespath/go-jmespath"
	"reflect"
	"strconv"
	"strings"

	"verifharness/docs"
	"verifharness/gen"
	"verifharness/mon"
	"verifharness/ref"
)

// C18 — Go structs, pointers and typed slices navigate like their JSON form; never panic.

func init() { register("C18", c18) }

// navGen generates navigational expressions guided by the Go type of the
// current node, so that most look-ups hit.
type navGen struct {
	r     *gen.Rand
	lower bool
}

func (g *navGen) key(name string) string { return docs.KeyName(name, g.lower) }

func deref(t reflect.Type) reflect.Type {
	for t.Kind() == reflect.Ptr {
		t = t.Elem()
	}
	return t
}

// cond builds a filter / boolean condition over element type t.
func (g *navGen) cond(t reflect.Type) *gen.Expr {
	t = deref(t)
	r := g.r
	switch t.Kind() {
	case reflect.Struct:
		var cands []*gen.Expr
		for i := 0; i < t.NumField(); i++ {
			f := t.Field(i)
			if f.PkgPath != "" || f.Anonymous {
				continue
			}
			fe := gen.Field(g.key(f.Name))
			switch deref(f.Type).Kind() {
			case reflect.String:
				cands = append(cands, fe, gen.Cmp("==", fe, gen.Raw(gen.Pick(r, []string{"a", "x", "", "id1", "t"}))), gen.Cmp("!=", fe, gen.Raw("")))
			case reflect.Float64:
				cands = append(cands, gen.Cmp(gen.Pick(r, []string{"<", "<=", ">", ">=", "=="}), fe, gen.LitJSON(gen.Pick(r, []string{"0", "1", "2"}))))
			case reflect.Bool:
				cands = append(cands, fe, gen.Not(fe), gen.Cmp("==", fe, gen.LitJSON("true")))
			case reflect.Struct, reflect.Slice:
				cands = append(cands, fe, gen.Not(fe))
				if f.Type.Kind() == reflect.Ptr {
					cands = append(cands, gen.Cmp("==", fe, gen.LitJSON("null")), gen.Cmp("!=", fe, gen.LitJSON("null")))
				}
			}
		}
		if len(cands) == 0 {
			return gen.Current()
		}
		c := gen.Pick(r, cands)
		if r.Chance(1, 3) {
			d := gen.Pick(r, cands)
			if r.Bool() {
				return gen.And(c, d)
			}
			return gen.Or(c, d)
		}
		return c
	case reflect.String:
		return gen.Cmp(gen.Pick(r, []string{"==", "!="}), gen.Current(), gen.Raw(gen.Pick(r, []string{"", "s", "t", "é"})))
	case reflect.Float64:
		return gen.Cmp(gen.Pick(r, []string{"<", ">=", "=="}), gen.Current(), gen.LitJSON(gen.Pick(r, []string{"0", "1", "2"})))
	}
	return gen.Current()
}

// steps generates chain steps from a value of type t.
func (g *navGen) steps(t reflect.Type, depth int) []gen.Step {
	r := g.r
	if depth <= 0 || r.Chance(1, 6) {
		return nil
	}
	t = deref(t)
	switch t.Kind() {
	case reflect.Struct:
		var fs []reflect.StructField
		for i := 0; i < t.NumField(); i++ {
			if f := t.Field(i); f.PkgPath == "" && !f.Anonymous {
				fs = append(fs, f)
			}
		}
		if len(fs) == 0 {
			return nil
		}
		f := gen.Pick(r, fs)
		if r.Chance(1, 12) {
			// multi-select over the struct
			f2 := gen.Pick(r, fs)
			if r.Bool() {
				return []gen.Step{gen.StMultiList(gen.Field(g.key(f.Name)), gen.Chain(gen.Field(g.key(f2.Name)), g.steps(f2.Type, depth-1)...))}
			}
			return []gen.Step{gen.StMultiHash([]gen.Key{{Name: "p"}, {Name: "q"}}, []*gen.Expr{gen.Field(g.key(f.Name)), gen.Field(g.key(f2.Name))})}
		}
		return append([]gen.Step{gen.StField(g.key(f.Name))}, g.steps(f.Type, depth-1)...)
	case reflect.Slice:
		el := t.Elem()
		switch r.Intn(7) {
		case 0:
			return append([]gen.Step{gen.StIndexS(fmt.Sprint(r.Intn(5) - 2))}, g.steps(el, depth-1)...)
		case 1:
			var sl [3]string
			for i := range sl {
				if r.Bool() {
					sl[i] = fmt.Sprint(r.Intn(5) - 2)
				}
			}
			if sl[2] == "0" {
				sl[2] = "-1"
			}
			return append([]gen.Step{gen.StSliceS(sl[0], sl[1], sl[2])}, g.steps(el, depth-1)...)
		case 2, 3:
			return append([]gen.Step{gen.StListStar()}, g.steps(el, depth-1)...)
		case 4:
			return append([]gen.Step{gen.StFlatten()}, g.steps(el, depth-1)...)
		default:
			return append([]gen.Step{gen.StFilter(g.cond(el))}, g.steps(el, depth-1)...)
		}
	case reflect.Interface:
		return []gen.Step{gen.StField(g.key(gen.Pick(r, []string{"S", "F", "B", "Name"})))}
	}
	return nil
}

// lengthOperand finds a path from t to a slice or string field.
func (g *navGen) lengthOperand(t reflect.Type) ([]gen.Step, bool) {
	t = deref(t)
	var st []gen.Step
	for hop := 0; hop < 4; hop++ {
		switch t.Kind() {
		case reflect.Slice, reflect.String:
			return st, len(st) > 0
		case reflect.Struct:
			var fs []reflect.StructField
			for i := 0; i < t.NumField(); i++ {
				f := t.Field(i)
				k := f.Type.Kind()
				if f.PkgPath == "" && !f.Anonymous && (k == reflect.Slice || k == reflect.String || k == reflect.Struct) {
					fs = append(fs, f)
				}
			}
			if len(fs) == 0 {
				return nil, false
			}
			f := gen.Pick(g.r, fs)
			st = append(st, gen.StField(g.key(f.Name)))
			t = f.Type
		default:
			return nil, false
		}
	}
	return nil, false
}

func (g *navGen) expr(t reflect.Type, depth int) *gen.Expr {
	r := g.r
	chain := func() *gen.Expr {
		st := g.steps(t, 1+r.Intn(4))
		if len(st) == 0 {
			return gen.Current()
		}
		return gen.Chain(nil, st...)
	}
	if depth <= 0 {
		return chain()
	}
	switch r.Intn(12) {
	case 0:
		return gen.Or(g.expr(t, depth-1), g.expr(t, depth-1))
	case 1:
		return gen.And(g.expr(t, depth-1), g.expr(t, depth-1))
	case 2:
		return gen.Not(g.expr(t, depth-1))
	case 3:
		return gen.MultiList(g.expr(t, depth-1), g.expr(t, depth-1))
	case 4:
		return gen.MultiHash([]gen.Key{{Name: "x"}, {Name: "y"}}, []*gen.Expr{g.expr(t, depth-1), g.expr(t, depth-1)})
	case 5:
		// length() only of slices and strings (what C18 claims); on a struct the generic form is an
		// object and the struct form is not, which the property does not equate
		if st, ok := g.lengthOperand(t); ok {
			return gen.Func("length", gen.Chain(nil, st...))
		}
		return chain()
	case 6:
		return gen.Pipe(chain(), gen.Chain(nil, gen.StIndexS(fmt.Sprint(r.Intn(3)-1))))
	case 7:
		return gen.Chain(gen.Paren(chain()), gen.StIndexS(fmt.Sprint(r.Intn(3)-1)))
	}
	return chain()
}

var c18Operands = []string{"Strs", "Flts", "Ins", "PIns", "In", "PIn", "In.Tags", "In.Nums", "In.Leaves", "In.PLeaves", "Grid", "ID", "Count", "On", "Any", "In.Leaf", "In.PLeaf", "@", "Ins[0]", "PIns[0]", "`null`", "`[1,2]`", "'s'"}

func c18(r *mon.Run) {
	r.Rule = "equivalence: documents of a Go struct family (leaf structs; nodes holding leaves by value and by nil / non-nil pointer; non-nil typed slices of structs, pointers (with nil entries), strings, float64, [][]float64; an interface{} field; roots by value, by pointer, as typed slices and inside a generic map) x type-guided seeded navigational expressions (field access in both capitalisations, indices, slices, flatten, list and filter projections with leaf comparisons, multi-select, || && !, pipes, length) plus every field path of depth <= 2, plus multi-selects whose first entry is a field of another struct of the family behind every projection kind over every typed slice, plus indices -9…8 on every typed slice: " +
		"JSON-normalised Search(e, goDoc) must equal JSON-normalised Search(e, ToGeneric(goDoc)) (the generic path of the same build, itself judged by C01/C02/C07/C08). Embedded structs (by value, by nil / set pointer, two levels; own fields shadowing promoted ones declared before and after the embed; a name promoted twice) x field access, projections, filters and multi-selects over every field name, against the model on the encoding/json form. Safety: every built-in function with typed slices, structs and pointers in every argument position, hostile trees, embedded / unexported-field documents: no panic. " +
		"Non-trivial = distinct (expression, document) whose generic result is non-null; cases traversing a nil pointer are counted separately."
	r.Floor = 1000
	r.Assumptions = []string{"the equivalent generic document is docs.ToGeneric: struct -> map keyed by field name, nil pointer -> null, typed slice -> []interface{}",
		"unexported fields, nil typed slices and maps with non-string keys are outside the equivalence family (the property's quantifier) and are used for the no-panic clause only",
		"embedded structs: the JSON form is what encoding/json produces (embedded structs flattened by Go's selector rules); names of embedded types themselves are not used in expressions"}
	ne := tierPick(r, 60000, 1200000)
	eq := mon.Workload{Name: "equivalence", N: ne,
		Do: func(i int, t *mon.Tally) {
			rng := gen.DeriveN(r.Seed, "c18eq", i)
			form := i % 5
			goDoc := docs.StructDoc(gen.DeriveN(r.Seed, "c18doc", i/7), form)
			lower := (i/5)%2 == 1
			g := &navGen{r: rng, lower: lower}
			var rootT reflect.Type
			var tree *gen.Expr
			if form == 4 {
				k := gen.Pick(rng, []string{"Obj", "Ptr", "List", "Leaf"})
				sub := goDoc.(map[string]interface{})[k]
				tree = gen.Pipe(gen.Field(k), g.expr(reflect.TypeOf(sub), rng.Intn(3)))
			} else {
				rootT = reflect.TypeOf(goDoc)
				tree = g.expr(rootT, rng.Intn(3))
			}
			c18Equiv(r, t, "equivalence", i, tree, goDoc, lower, form == 4)
		}}
	// every field path of depth <= 2 in both capitalisations
	names := docs.StructFieldNames
	L := len(names)
	np := (L + L*L) * 2 * 4
	paths := mon.Workload{Name: "field-paths", N: np,
		Do: func(i int, t *mon.Tally) {
			form := i % 4
			k := i / 4
			lower := k%2 == 1
			k /= 2
			var st []gen.Step
			if k < L {
				st = []gen.Step{gen.StField(docs.KeyName(names[k], lower))}
			} else {
				k -= L
				st = []gen.Step{gen.StField(docs.KeyName(names[k/L], lower)), gen.StField(docs.KeyName(names[k%L], lower))}
			}
			goDoc := docs.StructDoc(gen.DeriveN(r.Seed, "c18pdoc", i%13), form)
			var tree *gen.Expr
			if form >= 2 {
				tree = gen.Chain(nil, append([]gen.Step{gen.StIndex(0)}, st...)...)
			} else {
				tree = gen.Chain(nil, st...)
			}
			c18Equiv(r, t, "field-paths", i, tree, goDoc, lower, false)
		}}
	// safety: functions over typed operands
	fns := ref.FunctionNames()
	O := len(c18Operands)
	ns := len(fns) * (O + O*O)
	safety := mon.Workload{Name: "functions-on-typed-data", N: ns * 2,
		Describe: func(i int) string { return fmt.Sprint("safety case ", i) },
		Do: func(i int, t *mon.Tally) {
			form := i % 2
			k := i / 2
			fn := fns[k/(O+O*O)]
			k %= O + O*O
			var expr string
			if k < O {
				expr = fn + "(" + c18Operands[k] + ")"
			} else {
				k -= O
				a, b := c18Operands[k/O], c18Operands[k%O]
				switch fn {
				case "map":
					expr = "map(&" + a + ", " + b + ")"
				case "sort_by", "max_by", "min_by":
					expr = fn + "(" + a + ", &" + pickKey(b) + ")"
				default:
					expr = fn + "(" + a + ", " + b + ")"
				}
			}
			goDoc := docs.StructDoc(gen.DeriveN(r.Seed, "c18sdoc", i%11), form)
			for _, e := range []string{expr, "Ins[*]." + expr, "[" + expr + "]"} {
				t.Eval()
				o := apiSearch(e, goDoc)
				t.Count("safety outcome:" + o.Class())
				if o.Panicked {
					r.Violate(&mon.Violation{Workload: "functions-on-typed-data", Index: i, API: "Search", Expr: e, DocDesc: fmt.Sprintf("struct document form %d: %s", form, clipStr(mon.Snapshot(goDoc), 300)),
						Expected: "a value or an error, never a panic", Observed: o.String(), Detail: o.Stack, Class: "panic in " + fn})
					return
				}
			}
			t.Nontrivial("s:" + expr)
		}}
	nh := tierPick(r, 30000, 600000)
	hostile := mon.Workload{Name: "hostile-trees-on-structs", N: nh,
		Do: func(i int, t *mon.Tally) {
			rng := gen.DeriveN(r.Seed, "c18host", i)
			var goDoc interface{}
			if i%6 == 5 {
				goDoc = docs.EmbeddedDoc(rng, i/6)
			} else {
				goDoc = docs.StructDoc(rng, i%5)
			}
			var expr string
			switch i % 3 {
			case 0:
				expr = gen.SpellTight(hostileTree(rng))
			case 1:
				g := &navGen{r: rng, lower: rng.Bool()}
				expr = gen.Spell(gen.Func(gen.Pick(rng, fns), g.expr(reflect.TypeOf(goDoc), 1)))
			default:
				expr = gen.Pick(rng, []string{"_u", "lower", "BaseName", "baseName", "Base", "Base.BaseNum", "S", "Leaf.S", "Title", "*", "@.*", "[_u, lower, BaseName]", "keys(@)", "values(@)", "to_string(@)", "type(@)", "length(@)", "BaseNum > `1`", "[?BaseName]", "to_array(@)[0].BaseName", "not_null(BaseName, Title)", "merge(@, @)",
					"\"\"", "@.\"\"", "[\"\"]", "Leaf.\"\"", "*.\"\"", "[?\"\"]", "{a: \"\"}", "\"\" || Title", "\"\u00c9lan\"", "\"\u00e9lan\"", "\"\u03a9mega\"", "\" \"", "\"a b\"", "\"0\""})
			}
			t.Eval()
			o := apiSearch(expr, goDoc)
			if o.Panicked {
				r.Violate(&mon.Violation{Workload: "hostile-trees-on-structs", Index: i, API: "Search", Expr: expr, DocDesc: clipStr(mon.Snapshot(goDoc), 300), Expected: "a value or an error, never a panic", Observed: o.String(), Detail: o.Stack, Class: "panic on struct data"})
				return
			}
			if o.Err == nil {
				t.Nontrivial("h:" + expr)
			}
		}}
	// identifiers that are empty, contain blanks or start with a non-ASCII letter; each expression is spelled
	// consistently in one capitalisation (upper: as the Go field names; lower: first letters lower-cased)
	oddUpper := []string{"\"\"", "In.\"\"", "Ins[*].\"\"", "PIns[].\"\"", "[\"\", ID]", "{a: \"\"}", "Ins[?\"\"]", "PIn.\"\"", "Uni.\"\"", "\"\u00c9lan\"", "Uni.\"\u00c9lan\"", "PUni.\"\u00d1u\"",
		"Uni.\"\u03a9mega\"", "[Uni.\"\u00c9lan\", Uni.Z]", "Uni.* | length(@)", "\" \"", "In.\"Name \"", "\"I\"", "In.\"N\"", "\"1\"", "\"_\"", "PUni.Z", "Ins[*].Uni", "[Uni, PUni][*].\"\u00d1u\""}
	oddLower := []string{"uni.\"\u00e9lan\"", "pUni.\"\u00f1u\"", "uni.\"\u03c9mega\"", "\"iD\"", "\"i\"", "in.\"n\"", "[uni.\"\u00e9lan\", uni.z]", "uni.* | length(@)", "pUni.z", "[uni, pUni][*].\"\u00f1u\"", "in.\"name \"", "\"\u00e9lan\""}
	// names that match a field only if letter case is ignored beyond the first letter: no member of the JSON form, null
	oddUpper = append(oddUpper, "Id", "NAME", "In.NAME", "In.NaMe", "Ins[*].NAME", "COUNT", "INS", "PIN.Name", "In.Id", "[Id, NAME, ID]", "Ins[?NAME].Name", "UNI", "Uni.ZZ", "On", "ON")
	oddLower = append(oddLower, "id", "nAME", "in.nAME", "ins[*].nAmE", "cOUNT", "iNS", "pIN.name", "in.id", "[id, nAME, iD]", "ins[?nAME].name", "uNI", "oN")
	odd := append(append([]string{}, oddUpper...), oddLower...)
	oddw := mon.Workload{Name: "odd-identifiers-on-structs", N: len(odd) * 8,
		Do: func(i int, t *mon.Tally) {
			expr := odd[i%len(odd)]
			lower := i%len(odd) >= len(oddUpper)
			form := (i / len(odd)) % 4
			goDoc := docs.StructDoc(gen.DeriveN(r.Seed, "c18odd", i/len(odd)), form)
			if form >= 2 {
				expr = "[0]." + expr
			}
			t.Eval()
			og := apiSearch(expr, docs.ToGeneric(goDoc, lower))
			os := apiSearch(expr, goDoc)
			if os.Panicked {
				r.Violate(&mon.Violation{Workload: "odd-identifiers-on-structs", Index: i, API: "Search", Expr: expr, DocDesc: clipStr(mon.Snapshot(goDoc), 300), Expected: "no panic; generic form gives " + og.String(), Observed: os.String(), Detail: os.Stack, Class: "odd identifier: panic"})
				return
			}
			if og.Panicked || og.Err != nil || os.Err != nil {
				return
			}
			if norm := docs.ToGeneric(os.V, lower); !mon.JSONEqual(og.V, norm) {
				r.Violate(&mon.Violation{Workload: "odd-identifiers-on-structs", Index: i, API: "Search", Expr: expr, DocDesc: "struct form of " + clipStr(mon.Show(docs.ToGeneric(goDoc, lower)), 300), Expected: "same as on the equivalent generic document: " + og.String(),
					Observed: "value (JSON-normalised): " + mon.Show(norm), Class: "odd identifier: value differs"})
				return
			}
			if og.V != nil {
				t.Nontrivial("odd:" + expr)
			}
		}}
	// names that are fields of *another* struct of the family (null on both forms) in first position of a
	// multi-select behind every projection kind over every typed slice, and indices far outside the slice
	slicePaths := []string{"Ins", "PIns", "Strs", "Flts", "Grid", "In.Leaves", "In.PLeaves", "In.Tags", "In.Nums", "PIn.Leaves", "Any"}
	projKinds := []gen.Step{gen.StListStar(), gen.StFlatten(), gen.StFilter(gen.Current()), gen.StSliceS("1", "", ""), gen.StSliceS("", "", "-1")}
	own := []string{"Name", "S", "Num", "F"}
	FN := docs.StructFieldNames
	nff := len(slicePaths) * len(projKinds) * len(FN) * len(own) * 2
	pathSteps := func(p string, lower bool) []gen.Step {
		var st []gen.Step
		for _, part := range strings.Split(p, ".") {
			st = append(st, gen.StField(docs.KeyName(part, lower)))
		}
		return st
	}
	ffw := mon.Workload{Name: "foreign-fields-in-multi-selects", N: nff,
		Do: func(i int, t *mon.Tally) {
			k := i
			hash := k%2 == 1
			k /= 2
			o := own[k%len(own)]
			k /= len(own)
			f := FN[k%len(FN)]
			k /= len(FN)
			pk := projKinds[k%len(projKinds)]
			sp := slicePaths[k/len(projKinds)%len(slicePaths)]
			lower := i%3 == 1
			form := i % 4
			st := pathSteps(sp, lower)
			if form >= 2 {
				st = append([]gen.Step{gen.StIndex(0)}, st...)
			}
			st = append(st, pk)
			ff, oo := gen.Field(docs.KeyName(f, lower)), gen.Field(docs.KeyName(o, lower))
			if hash {
				st = append(st, gen.StMultiHash([]gen.Key{{Name: "x"}, {Name: "y"}}, []*gen.Expr{ff, oo}))
			} else {
				st = append(st, gen.StMultiList(ff, oo))
			}
			goDoc := docs.StructDoc(gen.DeriveN(r.Seed, "c18ffdoc", i%11), form)
			c18Equiv(r, t, "foreign-fields-in-multi-selects", i, gen.Chain(nil, st...), goDoc, lower, false)
		}}
	// right-hand sides that turn a null element into a value (fallbacks with ||, negations, length of a fallback)
	// behind every projection kind over slices of pointers with nil entries: a nil entry is a null element, not
	// an absent one
	ptrPaths := []string{"PIns", "In.PLeaves", "PIn.PLeaves", "Ins", "@"}
	nullRHS := func(lower bool) []gen.Step {
		n, s := gen.Field(docs.KeyName("Name", lower)), gen.Field(docs.KeyName("S", lower))
		return []gen.Step{
			gen.StFunc("length", gen.Or(n, gen.Raw("xx"))), gen.StFunc("length", gen.Or(s, gen.Raw("y"))), gen.StMultiList(gen.Or(n, gen.Raw("none")), gen.Not(gen.Current())),
			gen.StMultiHash([]gen.Key{{Name: "n"}}, []*gen.Expr{gen.And(gen.Not(n), gen.Raw("unset"))}), gen.StFunc("length", gen.Or(gen.Field(docs.KeyName("Tags", lower)), gen.LitJSON("[1,2,3]"))),
			gen.StMultiList(gen.Cmp("==", gen.Current(), gen.LitJSON("null")), gen.Cmp("==", n, s)),
			gen.StFunc("length", n), gen.StFunc("length", s), // an error on the null entries only: the whole projection is an error on both forms
		}
	}
	pkinds := []gen.Step{gen.StListStar(), gen.StFilter(gen.Not(gen.Current())), gen.StFilter(gen.Current()), gen.StFlatten(), gen.StSliceS("", "", ""), gen.StFilter(gen.Cmp("==", gen.Current(), gen.LitJSON("null")))}
	nnr := len(ptrPaths) * len(pkinds) * 8 * 4 * 6
	nrw := mon.Workload{Name: "null-reviving-right-hand-sides", N: nnr,
		Do: func(i int, t *mon.Tally) {
			k := i
			seed := k % 6
			k /= 6
			form := k % 4
			k /= 4
			lower := i%5 == 3
			rhs := nullRHS(lower)[k%8]
			k /= 8
			pk := pkinds[k%len(pkinds)]
			sp := ptrPaths[k/len(pkinds)%len(ptrPaths)]
			var st []gen.Step
			if sp != "@" {
				st = pathSteps(sp, lower)
			}
			if form >= 2 && sp != "@" {
				st = append([]gen.Step{gen.StIndex(int64(seed % 2))}, st...)
			}
			if form < 2 && sp == "@" {
				st = pathSteps("PIns", lower)
			}
			st = append(st, pk, rhs)
			goDoc := docs.StructDoc(gen.DeriveN(r.Seed, "c18nrdoc", seed), form)
			c18Equiv(r, t, "null-reviving-right-hand-sides", i, gen.Chain(nil, st...), goDoc, lower, false)
		}}
	// lists built by a multi-select that mix typed slices with scalars, nulls and other typed slices, then flattened,
	// sliced, filtered; and slices with a zero step on typed slices of every length (an error on both forms)
	mixMembers := []string{"Strs", "Flts", "Ins", "PIns", "ID", "Count", "In.Tags", "In.Leaves", "PIn", "Any", "Grid", "In.Name", "missing"}
	tails := [][]gen.Step{{gen.StFlatten()}, {gen.StFlatten(), gen.StFlatten()}, {gen.StFlatten(), gen.StField("Name")}, {gen.StListStar()}, {gen.StFilter(gen.Current())}, {gen.StSliceS("", "", "-1")}, {gen.StFlatten(), gen.StFilter(gen.Current())}, {gen.StIndex(0)}, {gen.StIndex(-1), gen.StFlatten()}}
	nmix := len(mixMembers) * len(mixMembers) * len(tails) * 4
	mixw := mon.Workload{Name: "mixed-multi-selects-flattened", N: nmix,
		Do: func(i int, t *mon.Tally) {
			k := i
			form := k % 4
			k /= 4
			tail := append([]gen.Step(nil), tails[k%len(tails)]...)
			k /= len(tails)
			for q := range tail {
				if tail[q].K == gen.SField {
					tail[q] = gen.StField(docs.KeyName(tail[q].Name, i%7 == 3)) // the member name in the capitalisation of this case
				}
			}
			m1, m2 := mixMembers[k%len(mixMembers)], mixMembers[k/len(mixMembers)%len(mixMembers)]
			lower := i%7 == 3
			mem := func(p string) *gen.Expr { return gen.Chain(nil, pathSteps(p, lower)...) }
			var head []gen.Step
			if form >= 2 {
				head = []gen.Step{gen.StIndex(0)}
			}
			st := append(append(head, gen.StMultiList(mem(m1), mem(m2))), tail...)
			var tree *gen.Expr = gen.Chain(gen.Current(), st...)
			goDoc := docs.StructDoc(gen.DeriveN(r.Seed, "c18mixdoc", i%9), form)
			c18Equiv(r, t, "mixed-multi-selects-flattened", i, tree, goDoc, lower, false)
		}}
	zsl := [][3]string{{"", "", "0"}, {"1", "2", "0"}, {"0", "", "0"}, {"", "0", "0"}, {"", "", "1"}, {"5", "", "-1"},
		// steps and bounds at the edges of the integer formats (the typed-slice walk is a loop of its own)
		{"1", "", "9223372036854775807"}, {"", "", "9223372036854775807"}, {"2", "", "9223372036854775806"}, {"-1", "", "-9223372036854775808"}, {"", "", "-9223372036854775807"}, {"1", "", "2147483647"}, {"-9223372036854775808", "9223372036854775807", "1"},
		{"9223372036854775807", "-9223372036854775808", "-1"}, {"1", "", "128"}, {"", "128", ""}, {"", "", "-2"}, {"", "", "-3"}, {"-1", "0", "-2"}, {"4", "1", "-2"}}
	nzs := len(slicePaths) * len(zsl) * 4 * 8
	zsw := mon.Workload{Name: "zero-and-other-steps-on-typed-slices", N: nzs,
		Do: func(i int, t *mon.Tally) {
			k := i
			seed := k % 8
			k /= 8
			form := k % 4
			k /= 4
			z := zsl[k%len(zsl)]
			sp := slicePaths[k/len(zsl)%len(slicePaths)]
			lower := i%5 == 1
			st := pathSteps(sp, lower)
			if form >= 2 {
				st = append([]gen.Step{gen.StIndex(0)}, st...)
			}
			st = append(st, gen.StSliceS(z[0], z[1], z[2]))
			if i%3 == 2 {
				st = append(st, gen.StField(docs.KeyName("Name", lower)))
			}
			goDoc := docs.StructDoc(gen.DeriveN(r.Seed, "c18zsdoc", seed), form)
			c18Equiv(r, t, "zero-and-other-steps-on-typed-slices", i, gen.Chain(nil, st...), goDoc, lower, false)
		}}
	idxs := []int64{-9, -6, -5, -4, -3, -2, -1, 0, 1, 2, 3, 4, 5, 8}
	nfi := len(slicePaths) * len(idxs) * 4 * 4
	fiw := mon.Workload{Name: "far-indices-on-typed-slices", N: nfi,
		Do: func(i int, t *mon.Tally) {
			k := i
			shape := k % 4
			k /= 4
			form := k % 4
			k /= 4
			ix := idxs[k%len(idxs)]
			sp := slicePaths[k/len(idxs)%len(slicePaths)]
			lower := i%5 == 2
			st := pathSteps(sp, lower)
			if form >= 2 {
				st = append([]gen.Step{gen.StIndex(0)}, st...)
			}
			var tree *gen.Expr
			switch shape {
			case 0:
				tree = gen.Chain(nil, append(st, gen.StIndex(ix))...)
			case 1:
				tree = gen.Chain(nil, append(st, gen.StIndex(ix), gen.StField(docs.KeyName("Name", lower)))...)
			case 2:
				tree = gen.Or(gen.Chain(nil, append(st, gen.StIndex(ix))...), gen.Raw("none"))
			default:
				tree = gen.Chain(nil, append(st, gen.StListStar(), gen.StIndex(ix))...)
			}
			if form >= 2 && shape == 3 {
				tree = gen.Chain(nil, gen.StIndex(ix), gen.StField(docs.KeyName("ID", lower))) // the root itself is a typed slice
			}
			goDoc := docs.StructDoc(gen.DeriveN(r.Seed, "c18fidoc", i%11), form)
			c18Equiv(r, t, "far-indices-on-typed-slices", i, tree, goDoc, lower, false)
		}}
	// embedded structs: a name means what Go's selector rules say (own field over promoted one wherever it is
	// declared, shallowest wins, a name promoted twice at one depth is no field, nothing is promoted through a
	// nil embedded pointer). encoding/json flattens embedded structs by the same rules, so the JSON form of
	// these documents is Marshal+Unmarshal and the model runs on that.
	var etrees []*gen.Expr
	F := docs.ShadowFieldNames
	for _, k := range docs.ShadowKeys {
		K := gen.Field(k)
		switch k {
		case "Items", "PItems", "QItems", "HItems":
			for _, f := range F {
				etrees = append(etrees, gen.Chain(K, gen.StListStar(), gen.StField(f)), gen.Chain(K, gen.StFlatten(), gen.StField(f)), gen.Chain(K, gen.StIndex(0), gen.StField(f)), gen.Chain(K, gen.StIndex(-1), gen.StField(f)),
					gen.Chain(K, gen.StFilter(gen.Field(f)), gen.StField("Name")), gen.Chain(K, gen.StSliceS("1", "", ""), gen.StField(f)), gen.Func("length", gen.Chain(K, gen.StFilter(gen.Field(f)))),
					gen.Chain(K, gen.StFilter(gen.Not(gen.Field(f))), gen.StMultiList(gen.Field("Name"), gen.Field("Tag"))))
			}
			etrees = append(etrees, gen.Chain(K, gen.StFilter(gen.Cmp("==", gen.Field("Name"), gen.Raw("own-b"))), gen.StField("ID")), gen.Chain(K, gen.StFilter(gen.Cmp(">", gen.Field("ID"), gen.LitJSON("1"))), gen.StField("Only")),
				gen.Chain(K, gen.StListStar(), gen.StMultiList(gen.Field("Name"), gen.Field("ID"), gen.Field("Only"))), gen.Chain(K, gen.StListStar(), gen.StMultiHash([]gen.Key{{Name: "n"}, {Name: "i"}}, []*gen.Expr{gen.Field("Name"), gen.Field("ID")})),
				gen.Chain(K, gen.StFilter(gen.Cmp("==", gen.Field("Name"), gen.Raw("pset"))), gen.StField("Only")), gen.Chain(K, gen.StFilter(gen.Cmp("==", gen.Field("Tag"), gen.Raw("qset"))), gen.StField("Name")))
		default:
			for _, f := range F {
				etrees = append(etrees, gen.Chain(K, gen.StField(f)), gen.Or(gen.Chain(K, gen.StField(f)), gen.Raw("none")), gen.Pipe(K, gen.Field(f)))
			}
			etrees = append(etrees, gen.Chain(K, gen.StMultiList(gen.Field("Name"), gen.Field("ID"), gen.Field("Only"))), gen.Chain(K, gen.StMultiHash([]gen.Key{{Name: "n"}, {Name: "i"}}, []*gen.Expr{gen.Field("Name"), gen.Field("ID")})),
				gen.MultiList(gen.Chain(K, gen.StField("Name")), gen.Chain(gen.Field("Deep"), gen.StField("ID")), gen.Chain(K, gen.StField("Only"))))
		}
	}
	const eorders = 4
	nes := tierPick(r, 3, 40)
	emb := mon.Workload{Name: "embedded-structs", N: len(etrees) * eorders * nes, Batch: 500,
		Describe: func(i int) string { return gen.Spell(etrees[i%len(etrees)]) + " on docs.ShadowDoc" },
		Do: func(i int, t *mon.Tally) {
			tree := etrees[i%len(etrees)]
			k := i / len(etrees)
			mk := func() interface{} { return docs.ShadowDoc(gen.DeriveN(r.Seed, "c18shadow", k/eorders), k%eorders) }
			jform := docs.JSONForm(mk())
			expr := gen.SpellTight(tree)
			res := ref.RefSet(tree, jform, gen.Quirks{})
			t.Eval()
			for q, o := range []mon.Observed{apiSearch(expr, mk()), apiCompiledSearch(expr, mk())} {
				if !o.Panicked && o.Err == nil {
					o.V = docs.JSONForm(o.V)
				}
				if !matches(res, o) {
					r.Violate(&mon.Violation{Workload: "embedded-structs", Index: i, API: []string{"Search", "Compile+Search"}[q], Expr: expr, Doc: jform,
						DocDesc:  "Go form (embedded structs, shadowed and ambiguous names, nil embedded pointers): " + clipStr(mon.Snapshot(mk()), 900) + "  JSON form: " + ref.Canon(jform),
						Expected: expectedString(res), Observed: o.String(), Class: "embedded-structs: differs from the JSON form"})
					return
				}
			}
			if nonNull(res) {
				t.Nontrivial("emb:" + expr + ref.Canon(jform))
				t.Count("embedded-struct cases with a non-null expected result")
			}
		}}
	// anonymous struct types and function-local types sharing a name: every ordered pair of field paths in
	// one expression (one interpreter sees both types), as a multi-select and as a pipe
	AP := docs.AnonPaths
	anon := mon.Workload{Name: "anonymous-and-local-struct-types", N: len(AP) * len(AP) * 2,
		Do: func(i int, t *mon.Tally) {
			p, q := AP[i/2%len(AP)], AP[i/2/len(AP)]
			expr := "[" + p + ", " + q + ", " + p + "]"
			if i%2 == 1 {
				expr = "[" + p + ", @] | [1]." + q
			}
			mk := func() interface{} { return docs.AnonDoc(gen.DeriveN(r.Seed, "c18anon", i%5)) }
			jform := docs.JSONForm(mk())
			t.Eval()
			want := apiSearch(expr, jform)
			for q, o := range []mon.Observed{apiSearch(expr, mk()), apiCompiledSearch(expr, mk())} {
				if !o.Panicked && o.Err == nil {
					o.V = docs.JSONForm(o.V)
				}
				if o.Panicked || (o.Err == nil) != (want.Err == nil) || (o.Err == nil && !mon.JSONEqual(o.V, want.V)) {
					r.Violate(&mon.Violation{Workload: "anonymous-and-local-struct-types", Index: i, API: []string{"Search", "Compile+Search"}[q], Expr: expr, Doc: jform,
						DocDesc: "Go form: " + clipStr(mon.Snapshot(mk()), 900), Expected: want.String() + " (the answer on the JSON form)", Observed: o.String(), Class: "anonymous/local struct types: differs from the JSON form"})
					return
				}
			}
			t.Nontrivial("anon:" + expr)
			t.Count("anonymous / local struct type cases agreeing with the JSON form")
		}}
	// unexported twins: a struct that has an unexported field spelled like an exported one in lower case (`name` next to `Name`):
	// the identifier `name` means the exported field (first letter upper-cased), the unexported one is not part of the document
	type twinItem struct {
		id   float64
		ID   float64
		tags []string
		Tags []string
	}
	type twin struct {
		name  string
		Name  string
		count float64
		Count float64
		items []twinItem
		Items []twinItem
		P     *twinItem
		p     *twinItem
	}
	mkTwin := func() interface{} {
		return &twin{name: "hidden", Name: "Savings", count: -1, Count: 3, items: []twinItem{{id: -1}}, Items: []twinItem{{id: -1, ID: 7, tags: []string{"h"}, Tags: []string{"x", "y"}}, {ID: 8}}, P: &twinItem{id: -2, ID: 9}, p: &twinItem{ID: -9}}
	}
	twinExprs := []string{"name", "Name", "count", "Count", "name || 'none'", "[name, count]", "items[*].id", "Items[*].ID", "items[0].tags", "items[*].tags[]", "p.id", "P.ID", "{n: name, c: count}", "items[?id > `7`].id", "length(items)", "keys(@)", "@.name", "items[].id | [0]", "p.tags", "[p, items[0]][*].id"}
	twinw := mon.Workload{Name: "unexported-twins-of-exported-fields", N: len(twinExprs) * 2,
		Do: func(i int, t *mon.Tally) {
			expr := twinExprs[i/2]
			lower := expr[0] >= 'a' && expr[0] <= 'z' || expr[0] == '[' || expr[0] == '{' || expr[0] == '@'
			if strings.ContainsAny(expr[:1], "NCIP") {
				lower = false
			}
			gform := docs.ToGeneric(mkTwin(), lower)
			t.Eval()
			want := apiSearch(expr, gform)
			o := apiSearch(expr, mkTwin())
			if i%2 == 1 {
				o = apiCompiledSearch(expr, mkTwin())
			}
			if strings.HasPrefix(expr, "keys") {
				if o.Panicked {
					r.Violate(&mon.Violation{Workload: "unexported-twins-of-exported-fields", Index: i, API: "Search", Expr: expr, Expected: "no panic", Observed: o.String(), Class: "unexported twins: panic"})
				}
				return
			}
			if !o.Panicked && o.Err == nil {
				o.V = docs.ToGeneric(o.V, lower)
			}
			if o.Panicked || (o.Err == nil) != (want.Err == nil) || (o.Err == nil && !mon.JSONEqual(o.V, want.V)) {
				r.Violate(&mon.Violation{Workload: "unexported-twins-of-exported-fields", Index: i, API: []string{"Search", "Compile+Search"}[i%2], Expr: expr, Doc: gform,
					DocDesc: "a struct with unexported fields name / count / items / p next to exported Name / Count / Items / P", Expected: want.String() + " (the answer on the generic form, which holds the exported fields only)", Observed: o.String(), Class: "unexported twin of an exported field"})
				return
			}
			t.Nontrivial("twin:" + expr)
		}}
	// Go zero values: nil typed slices, nil maps, nil interfaces, zero structs, empty non-nil slices, pointers to
	// empty structs, nil pointers to slices - under every function and every navigational form: no panic
	type emptyS struct{}
	type zv struct {
		NilStrs   []string
		EmptyStrs []string
		NilFlts   []float64
		NilGrid   [][]float64
		NilIns    []docs.Inner
		NilPIns   []*docs.Inner
		NilMap    map[string]interface{}
		EmptyMap  map[string]interface{}
		TypedMap  map[string]string
		NilIface  interface{}
		Zero      docs.Leaf
		PEmpty    *emptyS
		Empty     emptyS
		NilPtr    *docs.Leaf
		PNilSlice *[]string
		Arr       [2]string
		Ifaces    []interface{}
	}
	zvNames := []string{"NilStrs", "EmptyStrs", "NilFlts", "NilGrid", "NilIns", "NilPIns", "NilMap", "EmptyMap", "TypedMap", "NilIface", "Zero", "PEmpty", "Empty", "NilPtr", "PNilSlice", "Arr", "Ifaces", "Zero.S", "NilPtr.S", "missing"}
	zvForms := []string{"%s", "%s[0]", "%s[*]", "%s[]", "%s[?@]", "%s[1:]", "%s[::-1]", "%s.*", "%s.x", "%s[*].x", "[%s, %s]", "{k: %s}", "%s || 'd'", "%s && 'y'", "!%s", "%s == %s", "%s | [0]", "%s[*][0]", "length(%s)"}
	zfns := ref.FunctionNames()
	nzv := len(zvNames) * (len(zvForms) + len(zfns)*3)
	zvw := mon.Workload{Name: "go-zero-values", N: nzv,
		Do: func(i int, t *mon.Tally) {
			name := zvNames[i%len(zvNames)]
			k := i / len(zvNames)
			var expr string
			if k < len(zvForms) {
				expr = strings.ReplaceAll(zvForms[k], "%s", name)
			} else {
				k -= len(zvForms)
				fn := zfns[k/3]
				switch k % 3 {
				case 0:
					expr = fn + "(" + name + ")"
				case 1:
					expr = fn + "(" + name + ", " + name + ")"
				default:
					expr = fn + "(" + name + ", &@)"
					if fn == "map" {
						expr = "map(&@, " + name + ")"
					}
				}
			}
			mk := func() interface{} {
				return &zv{EmptyStrs: []string{}, EmptyMap: map[string]interface{}{}, TypedMap: map[string]string{"a": "b"}, PEmpty: &emptyS{}, Ifaces: []interface{}{nil, (*docs.Leaf)(nil), []string(nil), emptyS{}}}
			}
			t.Eval()
			for q, o := range []mon.Observed{apiSearch(expr, mk()), apiCompiledSearch(expr, *mk().(*zv))} {
				if o.Panicked {
					r.Violate(&mon.Violation{Workload: "go-zero-values", Index: i, API: []string{"Search", "Compile+Search"}[q], Expr: expr, DocDesc: "a struct whose fields hold Go zero values (nil typed slices, nil maps, nil interfaces, zero structs, pointers to empty structs)",
						Expected: "a value or an error, never a panic", Observed: o.String(), Detail: o.Stack, Class: "go-zero-values: panic"})
					return
				}
			}
			t.Nontrivial("zv:" + expr)
		}}
	// equal struct values reached along different routes (a plain field, a slice element, a field behind a pointer, a
	// pointer element), in a document handed over by value and by pointer: they compare equal like their JSON forms do
	type rbox struct {
		Box    docs.Leaf
		Items  []docs.Leaf
		PBox   *docs.Leaf
		PItems []*docs.Leaf
		Sub    struct{ Box docs.Leaf }
		PSub   *struct{ Box docs.Leaf }
		Other  docs.Leaf
	}
	mkBox := func() rbox {
		l := docs.Leaf{S: "same", F: 2, B: true}
		o := docs.Leaf{S: "other", F: 2, B: true}
		l2, l3 := l, l
		return rbox{Box: l, Items: []docs.Leaf{o, l, l}, PBox: &l2, PItems: []*docs.Leaf{&l3, nil, &o}, Sub: struct{ Box docs.Leaf }{l}, PSub: &struct{ Box docs.Leaf }{l}, Other: o}
	}
	routes := []string{"Box", "Items[1]", "Items[2]", "Items[0]", "PBox", "PItems[0]", "PItems[2]", "Sub.Box", "PSub.Box", "Other", "Items[-1]", "PItems[1]"}
	rw := mon.Workload{Name: "equal-structs-along-different-routes", N: len(routes) * len(routes) * 4 * 2,
		Do: func(i int, t *mon.Tally) {
			a, b := routes[i/8%len(routes)], routes[i/8/len(routes)]
			isPtr := func(s string) bool { return strings.HasPrefix(s, "P") && !strings.HasPrefix(s, "PSub") }
			if isPtr(a) != isPtr(b) {
				// a struct against a pointer to a struct: equality between two Go representations, which no property fixes
				// (reflect.DeepEqual says "different"; the JSON forms are equal) - only like is compared with like
				t.Count("skipped: a struct value against a pointer to a struct")
				return
			}
			if i/2%4 == 2 && (isPtr(a) || isPtr(b)) {
				t.Count("skipped: a pointer needle against a list of struct values")
				return
			}
			expr := []string{a + " == " + b, a + " != " + b, "contains(Items, " + a + ") == contains(Items, " + b + ")", "[" + a + ", " + b + "] | [0] == [1]"}[i/2%4]
			var goDoc interface{}
			bx := mkBox()
			if i%2 == 0 {
				goDoc = bx
			} else {
				goDoc = &bx
			}
			tree, perr := jmespath.NewParser().Parse(expr)
			_ = tree
			if perr != nil {
				r.Inconclusive("C18 workload expression does not parse: " + expr)
				return
			}
			generic := docs.ToGeneric(goDoc, false)
			t.Eval()
			og, os := apiSearch(expr, generic), apiSearch(expr, goDoc)
			if os.Panicked || (og.Err != nil) != (os.Err != nil) || (og.Err == nil && !mon.JSONEqual(og.V, docs.ToGeneric(os.V, false))) {
				r.Violate(&mon.Violation{Workload: "equal-structs-along-different-routes", Index: i, API: "Search", Expr: expr, DocDesc: []string{"struct document passed by value", "struct document passed by pointer"}[i%2] + ": " + clipStr(mon.Snapshot(goDoc), 500),
					Expected: "same as on the equivalent generic document: " + og.String(), Observed: os.String(), Class: "equal-structs-along-different-routes: differs from the JSON form"})
				return
			}
			t.Nontrivial("route:" + expr + strconv.Itoa(i%2))
		}}
	// a function applied to a typed slice ([]float64, []string, [][]float64, []Inner) and the same slice navigated
	// again in the same expression - before the call, after it, next to it: every part must read like the JSON form
	// (a function that works on the caller's slice in place shows in the part evaluated after it)
	fnavPaths := []string{"Flts", "Strs", "In.Nums", "In.Tags", "Grid[0]", "Ins[0].Nums", "Ins[0].Tags", "PIn.Nums", "PIns[0].Tags", "Ins[*].Num", "Grid[]"}
	fnavFns := []func(p string) string{
		func(p string) string { return "sort(" + p + ")" }, func(p string) string { return "reverse(" + p + ")" }, func(p string) string { return "max(" + p + ")" }, func(p string) string { return "min(" + p + ")" },
		func(p string) string { return "sum(" + p + ")" }, func(p string) string { return "avg(" + p + ")" }, func(p string) string { return "length(" + p + ")" }, func(p string) string { return "join(',', " + p + ")" },
		func(p string) string { return "to_array(" + p + ")" }, func(p string) string { return "not_null(" + p + ")" }, func(p string) string { return "sort_by(" + p + ", &@)" }, func(p string) string { return "map(&@, " + p + ")" },
		func(p string) string { return "max_by(" + p + ", &@)" }, func(p string) string { return "reverse(sort(" + p + "))" }, func(p string) string { return "sort(" + p + ")[0]" }, func(p string) string { return "to_string(" + p + ")" },
	}
	fnavForms := []func(f, p string) string{
		func(f, p string) string { return "[" + f + ", " + p + "]" }, func(f, p string) string { return "[" + p + ", " + f + ", " + p + "[0], " + p + "[-1]]" }, func(f, p string) string { return "(" + f + " || `1`) && " + p },
		func(f, p string) string { return "{a: " + f + ", b: " + p + ", c: " + p + "[0]}" }, func(f, p string) string { return "[" + f + ", " + p + "] | [1]" }, func(f, p string) string { return "[" + f + ", " + f + ", " + p + "[::-1]]" },
		func(f, p string) string { return "[" + f + "] | [0]" },
	}
	NP, NF, NM := len(fnavPaths), len(fnavFns), len(fnavForms)
	fnav := mon.Workload{Name: "functions-then-navigation-on-typed-slices", N: NP * NF * NM * 4, Batch: 500,
		Do: func(i int, t *mon.Tally) {
			k := i / 4
			path, fn, form := fnavPaths[k%NP], fnavFns[k/NP%NF], fnavForms[k/NP/NF]
			rng := gen.DeriveN(r.Seed, "c18fnav", i%4)
			o := docs.StructDoc(rng, 0).(docs.Outer)
			// unsorted contents of at least three elements everywhere
			o.Flts, o.Strs = []float64{3, -2, 1.5, 0}, []string{"t", "\u00e9", "s", ""}
			o.In.Nums, o.In.Tags = []float64{30, 10, 20}, []string{"c", "a", "b"}
			o.Grid = [][]float64{{2, 1, 3}, {9, 8}, {}}
			in2 := o.In
			in2.Nums, in2.Tags, in2.Num = []float64{2, 3, 1}, []string{"z", "y", "zz"}, 5
			in3 := in2
			in3.Nums, in3.Tags, in3.Num = []float64{7, 6}, []string{"q", "p"}, 4
			o.Ins = []docs.Inner{in2, in3}
			pin := in2
			pin.Nums = []float64{5, 4, 6}
			o.PIn = &pin
			pin2 := in3
			pin2.Tags = []string{"n", "m", "o"}
			o.PIns = []*docs.Inner{&pin2, nil}
			var goDoc interface{} = o
			if i%2 == 1 {
				goDoc = &o
			}
			c18EquivExpr(r, t, "functions-then-navigation-on-typed-slices", i, form(fn(path), path), goDoc, false, false)
		}}
	r.Exec(eq, paths, oddw, ffw, fiw, nrw, mixw, zsw, emb, anon, zvw, rw, safety, hostile, fnav, twinw)
}

func pickKey(operand string) string {
	switch operand {
	case "Strs", "In.Tags", "Flts", "In.Nums":
		return "@"
	case "In.Leaves", "In.PLeaves":
		return "F"
	}
	return "Num"
}

// c18Equiv compares the struct path with the generic path of the same build.
func c18Equiv(r *mon.Run, t *mon.Tally, wl string, idx int, tree *gen.Expr, goDoc interface{}, lower bool, mapRoot bool) {
	expr := gen.Spell(tree)
	if idx%2 == 1 {
		expr = gen.SpellTight(tree) // (a short cut that recognises an expression from its text may only see one spelling)
	}
	c18EquivExpr(r, t, wl, idx, expr, goDoc, lower, mapRoot)
}

func c18EquivExpr(r *mon.Run, t *mon.Tally, wl string, idx int, expr string, goDoc interface{}, lower bool, mapRoot bool) {
	generic := docs.ToGeneric(goDoc, lower)
	if mapRoot {
		// the generic map's own keys are not field names: keep them as written
		m := map[string]interface{}{}
		for k, v := range goDoc.(map[string]interface{}) {
			m[k] = docs.ToGeneric(v, lower)
		}
		generic = m
	}
	t.Eval()
	before := mon.Snapshot(generic)
	og := apiSearch(expr, generic)
	os := apiSearch(expr, goDoc)
	desc := clipStr(mon.Show(generic), 400)
	// the JSON form of the Go document is what it was: a search that rewrites a typed slice in place makes
	// every later navigation of the same document differ from the JSON form the caller started with
	if after := mon.Snapshot(docs.ToGeneric(goDoc, lower)); !mapRoot && after != before && mon.Snapshot(generic) == before {
		r.Violate(&mon.Violation{Workload: wl, Index: idx, API: "Search", Expr: expr, DocDesc: "struct form of " + desc, Expected: "the Go document still has the JSON form it had before the search: " + clipStr(before, 300),
			Observed: "its JSON form after the search: " + clipStr(after, 300), Class: wl + ": JSON form of the Go document changed by the search"})
		return
	}
	if os.Panicked {
		r.Violate(&mon.Violation{Workload: wl, Index: idx, API: "Search", Expr: expr, DocDesc: "struct form of " + desc, Expected: "no panic; generic form gives " + og.String(), Observed: os.String(), Detail: os.Stack, Class: wl + ": panic"})
		return
	}
	if og.Panicked {
		return // the generic path's own defect: C01/C02/C05 report it
	}
	if (og.Err != nil) != (os.Err != nil) {
		r.Violate(&mon.Violation{Workload: wl, Index: idx, API: "Search", Expr: expr, DocDesc: "struct form of " + desc, Expected: "same as on the equivalent generic document: " + og.String(), Observed: os.String(), Class: wl + ": error-ness differs"})
		return
	}
	if og.Err != nil {
		t.Count("both error")
		return
	}
	norm := docs.ToGeneric(os.V, lower)
	if !mon.JSONEqual(og.V, norm) {
		r.Violate(&mon.Violation{Workload: wl, Index: idx, API: "Search", Expr: expr, DocDesc: "struct form of " + desc, Expected: "same as on the equivalent generic document: " + og.String(),
			Observed: "value (JSON-normalised): " + mon.Show(norm) + "   raw: " + clipStr(mon.Snapshot(os.V), 400), Class: wl + ": value differs"})
		return
	}
	if og.V != nil {
		t.Nontrivial(expr + "\x00" + desc)
		t.Count("generic result non-null")
	}
	if idx%7001 == 0 {
		t.Sample(map[string]interface{}{"expression": expr, "generic_document": generic, "result": og.String()})
	}
}
