package main

import (
	"encoding/json"
	"os"
	"path/filepath"
	"sort"
	"strings"
	"sync"

	"verifharness/gen"
	"verifharness/mon"
)

// Byte-string workloads shared by C05 and C17 (DESIGN §4 C05 (1)–(5)).

type byteGen struct {
	name string
	n    int
	at   func(i int) string
}

var b3Alphabet = []byte("a0-.*[]?()&|!<>=@{}:,'\"`\\ \t\n_" + "\x00\x7f\x80\xbf\xc0\xc2\xe0\xed\xf0\xf4\xff")

func genShortBytes() byteGen {
	A := len(b3Alphabet)
	n := 1 + 256 + 65536 + A*A*A
	return byteGen{"all-short-byte-strings", n, func(i int) string {
		switch {
		case i == 0:
			return ""
		case i < 257:
			return string([]byte{byte(i - 1)})
		case i < 257+65536:
			k := i - 257
			return string([]byte{byte(k >> 8), byte(k)})
		}
		k := i - 257 - 65536
		return string([]byte{b3Alphabet[k/(A*A)], b3Alphabet[(k/A)%A], b3Alphabet[k%A]})
	}}
}

var hostileLexemes = []string{
	"a", "_", "a1", "A_9", "foo", "length", "sort_by", "abs",
	"a\u007f", "a\u0080", "a\u0081", "a\u00ff", "a\u07ff", "a\u0800", "a\uffff", "a\U00010000", "a\U0010ffff",
	"a\x80", "a\xc0", "a\xff", "a\xe2\x82", "a\xf0\x9f", "\x80", "\xff", "\xc3", "é", "😀",
	"\"\xff\xff\"", "\"\xe2\x82\"", "\"\x80\xbf\xc0\"", "\"a\xffb\"", "'\xff\xff'", "`\"\xff\"`",
	"0", "1", "-1", "-", "--1", "-0", "00", "9223372036854775807", "-9223372036854775808", "9223372036854775808", "-9223372036854775809",
	"18446744073709551616", "1000000000000000000000000000000", "1.5", "1e3",
	"'", "'a", "'a'", "'\\'", "'\\''", "'a\\'b'", "''", "'\x80'",
	"`", "`1", "`1`", "`\"a\"`", "`[1,2]`", "`{\"a\":1}`", "`{`", "`\\``", "`a`", "``", "`1e999`", "`\"\\ud800\"`", "`-`", "`nul`", "` 1 `",
	"\"", "\"a", "\"a\"", "\"\\", "\"\\\"", "\"\\\"\"", "\"\\u00e9\"", "\"\\ud83d\\ude00\"", "\"\\ud800\"", "\"\\x\"", "\"\"", "\"a\nb\"", "\"\x00\"",
	"\x00", "@", "*", ".", "..", "[", "]", "[?", "[]", "[*]", "[0]", "[:", "[::", "(", ")", "{", "}", ",", ":", "|", "||", "&", "&&", "!", "!=", "=", "==", "<", "<=", ">", ">=",
	"#", "$", "%", "^", "~", ";", "?", "/", "\\", "+",
}

func genTokenSoup(seed uint64, n int) byteGen {
	return byteGen{"hostile-token-soup", n, func(i int) string {
		r := gen.DeriveN(seed, "soup", i)
		k := 1 + r.Intn(8)
		var sb strings.Builder
		for j := 0; j < k; j++ {
			if j > 0 && r.Chance(1, 3) {
				sb.WriteByte(" \t\n\r"[r.Intn(4)])
			}
			sb.WriteString(gen.Pick(r, hostileLexemes))
		}
		return sb.String()
	}}
}

// nesting constructs: prefix^d + core + suffix^d
var nestings = []struct{ name, pre, core, suf string }{
	{"parens", "(", "a", ")"},
	{"multiselect-lists", "[", "a", "]"},
	{"nots", "!", "a", ""},
	{"dots", "a.", "a", ""},
	{"indices", "", "a", "[0]"},
	{"list-wildcards", "", "a", "[*]"},
	{"flattens", "", "a", "[]"},
	{"filters", "", "a", "[?a]"},
	{"nested-filters", "a[?", "a", "]"},
	{"hashes", "{a:", "a", "}"},
	{"calls", "abs(", "a", ")"},
	{"exprefs", "f(&", "a", ")"},
	{"ors", "a||", "a", ""},
	{"ands", "a&&", "a", ""},
	{"pipes", "a|", "a", ""},
	{"comparisons", "a==", "a", ""},
	{"object-wildcards", "", "a", ".*"},
	{"slices", "", "a", "[::-1]"},
	{"not-nulls", "not_null(", "a", ")"},
	{"not-nulls-after-a-null", "not_null(z,", "a", ")"},
	{"right-nested-lists", "[a,", "a", "]"},
	{"right-nested-hashes", "{x:a,y:", "a", "}"},
	{"right-nested-pipes", "@|(", "@", ")"},
	{"right-nested-ors", "z||(", "a", ")"},
	{"right-nested-ands", "a&&(", "a", ")"},
	{"to-arrays", "to_array(", "a", ")"},
	{"merges", "merge(@,", "@", ")"},
	{"maps", "map(&", "a", ",a)"},
	{"sort-bys", "sort_by(a,&", "a", ")"},
	{"nested-wildcard-multiselects", "a[*].[", "a", "]"},
	{"parens-in-lists", "[(", "a", ")]"},
	{"lists-in-parens", "([", "a", "])"},
	{"parens-in-hashes", "{k:(", "a", ")}"},
	{"parens-in-filters", "a[?(", "a", ")]"},
	{"lists-in-calls", "abs([", "a", "])"},
	{"nots-of-parens", "!(", "a", ")"},
	{"hashes-in-lists-in-parens", "([{k:", "a", "}])"},
	{"mismatched-closers", "([", "a", ")]"},
	{"mismatched-brace-and-bracket", "{k:[", "a", "}]"},
	{"unclosed-parens", "(", "", ""},
	{"unclosed-brackets", "[", "", ""},
	{"unclosed-braces", "{a:", "", ""},
	{"unclosed-filters", "[?", "", ""},
	{"closers", "", "a", ")"},
	{"literal-nesting", "", "", ""}, // special: `[[[[…]]]]`
	{"long-identifier", "", "", ""}, // special
	{"long-raw-string", "", "", ""}, // special
	{"long-number", "", "", ""},     // special
}

var nestDepths = []int{1, 2, 3, 7, 12, 20, 27, 33, 50, 64, 128, 500, 4000, 0} // 0 = as deep as 64 KiB allows

func genNesting() byteGen {
	n := len(nestings) * len(nestDepths)
	return byteGen{"deep-nesting", n, func(i int) string {
		c := nestings[i/len(nestDepths)]
		d := nestDepths[i%len(nestDepths)]
		unit := len(c.pre) + len(c.suf)
		if unit == 0 {
			unit = 2
		}
		if d == 0 || d*unit > 65000 {
			d = 65000 / unit
		}
		switch c.name {
		case "literal-nesting":
			return "`" + strings.Repeat("[", d) + strings.Repeat("]", d) + "`"
		case "long-identifier":
			return strings.Repeat("ab", d)
		case "long-raw-string":
			return "'" + strings.Repeat("\\'", d) + "'"
		case "long-number":
			return "[" + strings.Repeat("12", d) + "]"
		}
		return strings.Repeat(c.pre, d) + c.core + strings.Repeat(c.suf, d)
	}}
}

// genCutShort: nesting constructs opened d times and then cut short - nothing after the last opener, or an operand and a dangling
// operator - for every d next to a round number or a power of two (a nesting limit, a depth counter or a token buffer is at its
// edge exactly when the expression ends there)
func genCutShort() byteGen {
	var ds []int
	for _, c := range []int{8, 16, 32, 64, 100, 128, 200, 250, 256, 500, 512, 1000, 1024, 2000, 2048, 4096, 5000, 8192, 10000} {
		ds = append(ds, c-2, c-1, c, c+1, c+2)
	}
	opens := []string{"(", "[", "!", "{a:", "[?", "abs(", "a.", "a||", "a[?", "not_null(a,", "&", "(!", "[[", "a|", "a==", "f(&", "a.[", "a.{k:", "*.", "@.", "a[*].", "a[", "-", "`", "'"}
	tails := []string{"", "a", "a ||", "a.", "a[", "a)", "]", "`1`", " "}
	return byteGen{"nestings-cut-short", len(ds) * len(opens) * len(tails), func(i int) string {
		d, op, tl := ds[i/(len(opens)*len(tails))], opens[i/len(tails)%len(opens)], tails[i%len(tails)]
		if d*len(op) > 40000 {
			d = 40000 / len(op)
		}
		return strings.Repeat(op, d) + tl
	}}
}

var (
	corpusOnce sync.Once
	corpus     []string
)

// loadCorpus reads the fuzz corpus of the repository (never run by go test)
// and the compliance-suite expressions.
func loadCorpus(root string) []string {
	corpusOnce.Do(func() {
		repo := os.Getenv("VERIF_REPO")
		if repo == "" {
			repo = "/repo"
		}
		var files []string
		filepath.Walk(filepath.Join(repo, "fuzz", "testdata"), func(p string, info os.FileInfo, err error) error {
			if err == nil && !info.IsDir() {
				files = append(files, p)
			}
			return nil
		})
		sort.Strings(files)
		for _, f := range files {
			if b, err := os.ReadFile(f); err == nil && len(b) < 4096 {
				corpus = append(corpus, string(b))
			}
		}
		b, err := os.ReadFile(filepath.Join(root, "testdata", "compliance_trees.json"))
		if err == nil {
			var cs []struct {
				Expr string `json:"expr"`
			}
			if json.Unmarshal(b, &cs) == nil {
				for _, c := range cs {
					corpus = append(corpus, c.Expr)
				}
			}
		}
	})
	return corpus
}

var interestingBytes = []string{"\x00", "\x7f", "\x80", "\xff", "\xc3", "\xe2\x82", "'", "\"", "`", "\\", "[", "]", "[?", "(", ")", "{", "}", "&", "|", "!", "=", "<", "-", "0", "9223372036854775807", ":", ",", ".", "*", "@", " ", "\n", "é", "😀", "a"}

func mutate(r *gen.Rand, s string, corp []string) string {
	b := []byte(s)
	k := 1 + r.Intn(3)
	for j := 0; j < k; j++ {
		switch r.Intn(7) {
		case 0: // flip
			if len(b) > 0 {
				b[r.Intn(len(b))] ^= 1 << uint(r.Intn(8))
			}
		case 1: // insert interesting
			p := r.Intn(len(b) + 1)
			ins := gen.Pick(r, interestingBytes)
			b = append(b[:p], append([]byte(ins), b[p:]...)...)
		case 2: // delete
			if len(b) > 0 {
				p := r.Intn(len(b))
				q := p + 1 + r.Intn(3)
				if q > len(b) {
					q = len(b)
				}
				b = append(b[:p], b[q:]...)
			}
		case 3: // duplicate span
			if len(b) > 0 {
				p := r.Intn(len(b))
				q := p + 1 + r.Intn(8)
				if q > len(b) {
					q = len(b)
				}
				span := append([]byte(nil), b[p:q]...)
				b = append(b[:q], append(span, b[q:]...)...)
			}
		case 4: // splice with another corpus entry
			o := []byte(gen.Pick(r, corp))
			if len(o) > 0 {
				p := r.Intn(len(b) + 1)
				q := r.Intn(len(o))
				b = append(append([]byte(nil), b[:p]...), o[q:]...)
			}
		case 5: // replace a byte
			if len(b) > 0 {
				b[r.Intn(len(b))] = gen.Pick(r, interestingBytes)[0]
			}
		case 6: // swap two bytes
			if len(b) > 1 {
				p, q := r.Intn(len(b)), r.Intn(len(b))
				b[p], b[q] = b[q], b[p]
			}
		}
	}
	if len(b) > 65536 {
		b = b[:65536]
	}
	return string(b)
}

func genMutations(seed uint64, root string, n int) byteGen {
	return byteGen{"corpus-mutations", n, func(i int) string {
		corp := loadCorpus(root)
		r := gen.DeriveN(seed, "mut", i)
		if i < len(corp) {
			return corp[i] // the corpus itself first
		}
		var base string
		if r.Chance(1, 4) {
			g := gen.NewTreeGen(r)
			g.MaxDepth = 3
			g.HostileInts = true
			base = gen.SpellTight(g.Expr(0, gen.WAny))
		} else {
			base = gen.Pick(r, corp)
		}
		return mutate(r, base, corp)
	}}
}

// hostileTree generates trees of all fragments with hostile leaves.
func hostileTree(r *gen.Rand) *gen.Expr {
	g := gen.NewTreeGen(r)
	g.MaxDepth = 2 + r.Intn(4)
	g.HostileInts = true
	g.IllTyped = 4
	return g.Expr(0, gen.WAny)
}

// hostileDocs: documents for searching every compiled expression.
func hostileDocs() []interface{} {
	deep := interface{}(float64(1))
	for i := 0; i < 200; i++ {
		if i%2 == 0 {
			deep = []interface{}{deep}
		} else {
			deep = map[string]interface{}{"a": deep}
		}
	}
	big := make([]interface{}, 10000)
	for i := range big {
		big[i] = float64(i % 7)
	}
	long := strings.Repeat("é😀a", 3000)
	return []interface{}{
		nil, float64(1), "a\x80b", true,
		[]interface{}{float64(1), "a", nil, []interface{}{float64(2)}, map[string]interface{}{"a": float64(1)}},
		map[string]interface{}{"a": map[string]interface{}{"a": []interface{}{float64(1), float64(2)}, "b": "x"}, "b": []interface{}{map[string]interface{}{"a": float64(1)}, map[string]interface{}{"a": "s"}}, "foo": "bar", "": nil},
		deep,
		map[string]interface{}{"a": big, "b": long, "foo": []interface{}{long, long}},
	}
}

func docSize(v interface{}) int {
	switch t := v.(type) {
	case string:
		return 16 + len(t)
	case []interface{}:
		n := 24
		for _, e := range t {
			n += docSize(e)
		}
		return n
	case map[string]interface{}:
		n := 48
		for k, e := range t {
			n += 16 + len(k) + docSize(e)
		}
		return n
	}
	return 16
}

var _ = mon.Show
