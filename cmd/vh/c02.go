package main

import (
	"fmt"
	"strconv"
	"verifharness/docs"
	"verifharness/gen"
	"verifharness/mon"
	"verifharness/ref"
)

// C02 — projections apply element-wise, drop nulls, keep order and stop
// where specified.

func init() { register("C02", c02) }

var c02Steps = []gen.Step{
	gen.StField("a"), gen.StField("b"), gen.StIndex(0), gen.StIndex(-1),
	gen.StListStar(), gen.StFlatten(), gen.StFilter(gen.Field("a")), gen.StFilter(gen.Current()),
	gen.StStar(), gen.StSlice(gen.I(1), nil, nil), gen.StSlice(nil, nil, gen.I(-1)),
	gen.StMultiList(gen.Field("a"), gen.Field("b")), gen.StMultiHash([]gen.Key{{Name: "x"}}, []*gen.Expr{gen.Field("a")}),
	gen.StFunc("type", gen.Current()), gen.StFunc("to_string", gen.Current()), gen.StFunc("not_null", gen.Field("a"), gen.Raw("z")),
	gen.StQField("a"),
}

// c02Term wraps a chain in a terminator context.
var c02Terms = []struct {
	name string
	f    func(*gen.Expr) *gen.Expr
}{
	{"end", func(c *gen.Expr) *gen.Expr { return c }},
	{"| [0]", func(c *gen.Expr) *gen.Expr { return gen.Pipe(c, gen.Chain(nil, gen.StIndex(0))) }},
	{"(…).a", func(c *gen.Expr) *gen.Expr { return gen.Chain(gen.Paren(c), gen.StField("a")) }},
	{"|| b", func(c *gen.Expr) *gen.Expr { return gen.Or(c, gen.Field("b")) }},
	{"== b", func(c *gen.Expr) *gen.Expr { return gen.Cmp("==", c, gen.Field("b")) }},
	{"(…)[0]", func(c *gen.Expr) *gen.Expr { return gen.Chain(gen.Paren(c), gen.StIndex(0)) }},
	{"[…, …]", func(c *gen.Expr) *gen.Expr { return gen.MultiList(c, c) }}, // evaluated twice in one expression: the second reading must see the same data
}

func c02Chain(i int, maxSteps int) (*gen.Expr, int) {
	// index layout: term (6) × head (3) × steps(1..maxSteps over 16)
	S := len(c02Steps)
	term := i % len(c02Terms)
	i /= len(c02Terms)
	head := i % 3
	i /= 3
	n := 1
	block := S
	for i >= block {
		i -= block
		block *= S
		n++
	}
	steps := make([]gen.Step, n)
	for k := n - 1; k >= 0; k-- {
		steps[k] = c02Steps[i%S]
		i /= S
	}
	var h *gen.Expr
	switch head {
	case 0:
		h = gen.Field("a")
	case 1:
		h = gen.Current()
	}
	return c02Terms[term].f(gen.Chain(h, steps...)), n
}

func c02Count(maxSteps int) int {
	S := len(c02Steps)
	tot, block := 0, 1
	for n := 1; n <= maxSteps; n++ {
		block *= S
		tot += block
	}
	return tot * 3 * len(c02Terms)
}

func c02(r *mon.Run) {
	var lfc, twoSl mon.Workload
	maxSteps := tierPick(r, 3, 4)
	r.Rule = "exhaustive: every chain of 1..K steps (K=3 quick, 4 thorough) over 17 steps {.a .\"a\" .b [0] [-1] [*] [] [?a] [?@] .* [1:] [::-1] .[a,b] .{x:a} .type(@) .to_string(@) .not_null(a,'z')} x heads {a, @, bare} x terminators {end, | [0], (…).a, (…)[0], || b, == b, evaluated twice [c, c]} x a 38-document universe (incl. strings holding JSON text at the root) (empty / null-containing / heterogeneous / nested arrays and objects); " +
		"plus every chain of 1-2 steps over arrays of 15...1025 elements (thorough to 65536) in four element patterns; plus seeded random nested projections with filters and slices on random typed documents; plus every chain of <= 4 navigational steps on 6 documents given as Go-typed slices ([][][]float64, [][]string, []map…; the reflection twins of the projection loops) against the model on the generic form. node-kind pairs: 49 representatives of every node kind in each of the 38 single-hole grammar contexts and in every context of every context, on 3 documents (the trees this property owns: a projection, no function or operator). Oracle: ref.RefSet with member-order nondeterminism as a result set. Non-trivial = distinct (expression, document) with a projection whose expected result is a non-empty array, or null because the left side has the wrong type (counted separately)."
	r.Exhaustive = true
	r.Floor = 5000
	r.Assumptions = []string{"projection scope follows the binding powers of C03 (flatten 9 < wildcard 20 < filter 21 < dot 40 < bracket 55): a projection's right-hand side takes every following step that binds tighter than the projecting operator",
		"reference evaluator calibrated on the compliance suite (setup self-test)"}
	pdocs := docs.ProjDocs()
	nd := len(pdocs)
	total := c02Count(maxSteps)
	exh := mon.Workload{Name: "chains-exhaustive", N: total * nd, Batch: 4000,
		Describe: func(i int) string {
			tree, _ := c02Chain(i/nd, maxSteps)
			return gen.Spell(tree) + " on " + ref.Canon(pdocs[i%nd])
		},
		Do: func(i int, t *mon.Tally) {
			tree, _ := c02Chain(i/nd, maxSteps)
			doc := pdocs[i%nd]
			expr := gen.SpellTight(tree)
			cx := &caseCtx{r, t, "chains-exhaustive", i}
			var res ref.Result
			if (i/nd)%4 == 0 {
				res, _, _ = cx.runBoth(tree, expr, doc)
			} else {
				res, _, _ = cx.runOne(tree, expr, doc)
			}
			c02Account(t, tree, expr, doc, res, i)
		}}
	nrand := tierPick(r, 60000, 1500000)
	rnd := mon.Workload{Name: "projections-random", N: nrand,
		Do: func(i int, t *mon.Tally) {
			rng := gen.DeriveN(r.Seed, "c02rand", i)
			g := gen.NewTreeGen(rng)
			g.Funcs = i%3 != 0
			g.MaxDepth = 2 + rng.Intn(4)
			g.IllTyped = 10
			var tree *gen.Expr
			for k := 0; k < 20; k++ {
				tree = g.Expr(0, gen.WArray)
				if gen.HasProjection(tree) {
					break
				}
			}
			dg := docs.NewRand(rng)
			var doc interface{} = dg.TypedDoc(0)
			if rng.Chance(1, 6) {
				doc = dg.Doc()
			}
			expr := gen.Spell(tree)
			cx := &caseCtx{r, t, "projections-random", i}
			res, _, _ := cx.runBoth(tree, expr, doc)
			c02Account(t, tree, expr, doc, res, i)
		}}
	// the same projections over Go-typed slices (the reflection twins of the projection loops): every chain
	// of <= 3 navigational steps on documents whose arrays are [][][]float64, [][]string, []map…, compared
	// with the model on the generic form (results converted back with docs.ToGeneric)
	typedTexts := []string{
		`{"a":[[[1],[2,3]],[[4]],[]],"b":[[1,2],[3]]}`,
		`{"a":[["a","b"],["c"],[]],"b":["x","y"]}`,
		`{"a":[{"a":[[1,2],[3]],"b":[1]},{"a":[[4]],"b":[]},{"a":[],"b":[2]}],"b":[[["p"]],[["q","r"],[]]]}`,
		`[[{"a":1,"b":[1,2]}],[{"a":2,"b":[3]},{"a":null,"b":[]}]]`,
		`{"a":[[[["x"]]],[[["y","z"],[]]]],"b":[[true,false],[true]]}`,
		`{"a":[[[1,2],[3]],[[4],[5,6]]],"b":[[[[7]]]]}`,
	}
	var typedDocs []interface{}
	for _, tx := range typedTexts {
		typedDocs = append(typedDocs, docs.J(tx))
	}
	tsteps := []gen.Step{gen.StField("a"), gen.StField("b"), gen.StIndex(0), gen.StIndex(-1), gen.StListStar(), gen.StFlatten(),
		gen.StFilter(gen.Field("a")), gen.StFilter(gen.Current()), gen.StSlice(gen.I(1), nil, nil), gen.StSlice(nil, nil, gen.I(-1)),
		gen.StMultiList(gen.Field("a"), gen.Field("b")), gen.StFunc("type", gen.Current()), gen.StFunc("length", gen.Current())}
	TS := len(tsteps)
	K := tierPick(r, 4, 5)
	tcount, blk := 0, 1
	for n := 1; n <= K; n++ {
		blk *= TS
		tcount += blk
	}
	tdecode := func(i int) *gen.Expr {
		head := i % 2
		i /= 2
		n, block := 1, TS
		for i >= block {
			i -= block
			block *= TS
			n++
		}
		steps := make([]gen.Step, n)
		for k := n - 1; k >= 0; k-- {
			steps[k] = tsteps[i%TS]
			i /= TS
		}
		if head == 0 {
			return gen.Chain(gen.Field("a"), steps...)
		}
		return gen.Chain(nil, steps...)
	}
	ntd := len(typedDocs)
	typed := mon.Workload{Name: "typed-slice-documents", N: tcount * 2 * ntd, Batch: 4000,
		Describe: func(i int) string {
			return gen.Spell(tdecode(i/ntd)) + " on the typed-slice form of " + ref.Canon(typedDocs[i%ntd])
		},
		Do: func(i int, t *mon.Tally) {
			tree := tdecode(i / ntd)
			doc := typedDocs[i%ntd]
			expr := gen.SpellTight(tree)
			res := ref.RefSet(tree, doc, gen.Quirks{})
			t.Eval()
			if res.Skipped != "" || res.DontCare {
				t.Count("skipped:" + res.Skipped)
				return
			}
			o := apiSearch(expr, docs.Typify(mon.DeepCopy(doc)))
			if !o.Panicked && o.Err == nil {
				o.V = docs.ToGeneric(o.V, false)
			}
			t.Count("typed outcome:" + o.Class())
			if !matches(res, o) {
				r.Violate(&mon.Violation{Workload: "typed-slice-documents", Index: i, API: "Search", Expr: expr, Doc: doc,
					DocDesc:  "typed-slice form (docs.Typify: [][][]float64, [][]string, []map[string]interface{} …) of " + ref.Canon(doc),
					Expected: expectedString(res), Observed: o.String(), Class: "typed-slice-documents: differs from the generic form"})
				return
			}
			c02Account(t, tree, expr, doc, res, i)
		}}
	// long arrays: every chain of 1-2 steps over arrays whose length sits on and around internal thresholds
	// (pre-sized result buffers, chunked loops), in four element patterns (objects, nested lists, every third
	// element null, mixed types)
	llens := []int{15, 16, 17, 31, 32, 33, 63, 64, 65, 127, 128, 129, 255, 256, 257, 1000, 1024, 1025}
	if r.Tier == "thorough" {
		llens = append(llens, 4095, 4096, 4097, 10000, 65536)
	}
	const lpat = 4
	longDoc := func(n, pat int) interface{} {
		a := make([]interface{}, n)
		for i := range a {
			switch pat {
			case 0:
				a[i] = map[string]interface{}{"a": float64(i), "b": []interface{}{float64(i), nil}}
			case 1:
				a[i] = []interface{}{float64(i), []interface{}{float64(-i)}}
			case 2:
				a[i] = map[string]interface{}{"a": float64(i)}
				if i%3 == 1 {
					a[i] = nil
				} else if i%3 == 2 {
					a[i] = map[string]interface{}{"a": nil, "b": float64(i)}
				}
			default:
				a[i] = []interface{}{float64(i), "s", nil, true, []interface{}{}, map[string]interface{}{"a": float64(i)}, map[string]interface{}{}, false}[i%8]
			}
		}
		return map[string]interface{}{"a": a, "b": float64(n)}
	}
	S := len(c02Steps)
	nl := (S + S*S) * len(llens) * lpat
	lng := mon.Workload{Name: "long-array-projections", N: nl, Batch: 200,
		Describe: func(i int) string { return fmt.Sprint("long-array-projections case ", i) },
		Do: func(i int, t *mon.Tally) {
			k := i / (len(llens) * lpat)
			n := llens[i/lpat%len(llens)]
			var steps []gen.Step
			if k < S {
				steps = []gen.Step{c02Steps[k]}
			} else {
				steps = []gen.Step{c02Steps[(k-S)/S], c02Steps[(k-S)%S]}
			}
			for _, st := range steps {
				if st.K == gen.SStar && n > 64 {
					// an object wildcard per element multiplies the allowed member orders (2^n result sets): the model
					// cannot enumerate them, and nothing would be compared; member-order cases live in the other workloads
					t.Count("skipped: object wildcard over each of more than 64 elements (order explosion in the model)")
					return
				}
			}
			tree := gen.Chain(gen.Field("a"), steps...)
			doc := longDoc(n, i%lpat)
			expr := gen.SpellTight(tree)
			cx := &caseCtx{r, t, "long-array-projections", i}
			res, _, _ := cx.runOne(tree, expr, doc)
			if nonNull(res) && gen.HasProjection(tree) {
				t.Nontrivial("long:" + strconv.Itoa(i))
				t.Count("long-array projections with a non-null expected result")
			}
		}}
	// filter conditions that a null field satisfies (!=, == null, negations) over the heterogeneous documents:
	// an element that is not an object has no fields - its fields are null, and null != 1 holds
	fconds := []*gen.Expr{
		gen.Cmp("!=", gen.Field("a"), gen.LitJSON("1")), gen.Cmp("==", gen.Field("a"), gen.LitJSON("null")), gen.Cmp("!=", gen.Field("a"), gen.LitJSON("null")), gen.Cmp("==", gen.Field("a"), gen.LitJSON("1")),
		gen.Cmp("!=", gen.Current(), gen.LitJSON("1")), gen.Cmp("!=", gen.Field("a"), gen.Raw("x")), gen.Not(gen.Cmp("==", gen.Field("a"), gen.LitJSON("1"))), gen.Cmp("<", gen.Field("a"), gen.LitJSON("2")),
		gen.Cmp("!=", gen.Field("a"), gen.Field("b")), gen.Cmp("!=", gen.LitJSON("1"), gen.Field("a")), gen.Not(gen.Field("a")), gen.Cmp("==", gen.Field("a"), gen.Field("missing")),
		gen.Or(gen.Cmp("==", gen.Field("a"), gen.LitJSON("1")), gen.Not(gen.Field("b"))), gen.Cmp("!=", gen.Field("a"), gen.LitJSON("[]")), gen.Cmp("==", gen.Func("type", gen.Field("a")), gen.Raw("null")),
		// true / false / null written bare are member names (absent here: null), not constants
		gen.Cmp("==", gen.Field("a"), &gen.Expr{K: gen.KField, Name: "true"}), gen.Cmp("!=", gen.Field("a"), &gen.Expr{K: gen.KField, Name: "null"}), gen.Cmp("==", &gen.Expr{K: gen.KField, Name: "false"}, gen.Field("a")),
		gen.Cmp("==", gen.Field("a"), gen.LitJSON("true")), &gen.Expr{K: gen.KField, Name: "true"}, gen.Not(&gen.Expr{K: gen.KField, Name: "null"}),
		// the negation of a comparison is not the complementary comparison: an ordering of a non-number is null, and !null holds
		gen.Not(gen.Paren(gen.Cmp("<", gen.Field("a"), gen.LitJSON("2")))), gen.Not(gen.Paren(gen.Cmp("<=", gen.Field("a"), gen.LitJSON("1")))), gen.Not(gen.Paren(gen.Cmp(">", gen.Field("a"), gen.LitJSON("1")))), gen.Not(gen.Paren(gen.Cmp(">=", gen.Field("a"), gen.Field("b")))),
		gen.Not(gen.Paren(gen.Cmp("<", gen.Current(), gen.LitJSON("2")))), gen.Not(gen.Paren(gen.Cmp(">", gen.LitJSON("1"), gen.Field("a")))), gen.Not(gen.Paren(gen.Cmp("!=", gen.Field("a"), gen.LitJSON("1")))), gen.Not(gen.Not(gen.Paren(gen.Cmp("<", gen.Field("a"), gen.LitJSON("2"))))),
		gen.And(gen.Not(gen.Paren(gen.Cmp(">=", gen.Field("a"), gen.LitJSON("1")))), gen.Not(gen.Paren(gen.Cmp("<", gen.Field("a"), gen.LitJSON("1"))))), gen.Cmp("==", gen.Paren(gen.Cmp("<", gen.Field("a"), gen.LitJSON("2"))), gen.LitJSON("null")),
		gen.Cmp("==", gen.Paren(gen.Cmp(">", gen.Field("a"), gen.LitJSON("0"))), gen.LitJSON("false")), gen.Or(gen.Cmp("<", gen.Field("a"), gen.LitJSON("2")), gen.Cmp(">=", gen.Field("a"), gen.LitJSON("2"))),
	}
	fshapes := []func(c *gen.Expr) *gen.Expr{
		func(c *gen.Expr) *gen.Expr { return gen.Chain(nil, gen.StFilter(c)) }, func(c *gen.Expr) *gen.Expr { return gen.Chain(gen.Field("a"), gen.StFilter(c)) },
		func(c *gen.Expr) *gen.Expr { return gen.Chain(nil, gen.StFilter(c), gen.StField("a")) }, func(c *gen.Expr) *gen.Expr { return gen.Chain(gen.Field("a"), gen.StFilter(c), gen.StIndex(0)) },
		func(c *gen.Expr) *gen.Expr { return gen.Chain(nil, gen.StListStar(), gen.StFilter(c)) }, func(c *gen.Expr) *gen.Expr {
			return gen.Pipe(gen.Chain(nil, gen.StFilter(c)), gen.Chain(nil, gen.StIndex(0)))
		},
		func(c *gen.Expr) *gen.Expr { return gen.Chain(gen.Field("a"), gen.StFlatten(), gen.StFilter(c)) }, func(c *gen.Expr) *gen.Expr { return gen.Func("length", gen.Chain(gen.Field("a"), gen.StFilter(c))) },
		func(c *gen.Expr) *gen.Expr { return gen.Chain(gen.Field("b"), gen.StFilter(c), gen.StField("b")) },
	}
	fcw := mon.Workload{Name: "filter-comparisons-on-heterogeneous-lists", N: len(fconds) * len(fshapes) * nd,
		Do: func(i int, t *mon.Tally) {
			tree := fshapes[i/nd%len(fshapes)](fconds[i/nd/len(fshapes)])
			doc := pdocs[i%nd]
			cx := &caseCtx{r, t, "filter-comparisons-on-heterogeneous-lists", i}
			res, _, _ := cx.runBoth(tree, gen.SpellTight(tree), doc)
			c02Account(t, tree, gen.SpellTight(tree), doc, res, i)
		}}
	// members named like built-in functions, projected next to calls of those functions: `rows[?type].type(@)` takes
	// the member as the condition and the call as the right-hand side
	fnames := ref.FunctionNames()
	fnShapes := 7
	fnw := mon.Workload{Name: "members-named-like-functions", N: len(fnames) * fnShapes,
		Do: func(i int, t *mon.Tally) {
			f := fnames[i/fnShapes]
			F := func() *gen.Expr { return gen.Field(f) }
			rows := []interface{}{map[string]interface{}{f: "disk", "i": float64(0)}, map[string]interface{}{f: []interface{}{"net", "usb"}, "i": float64(1)}, map[string]interface{}{"i": float64(2)}, map[string]interface{}{f: float64(0), "i": float64(3)}}
			doc := map[string]interface{}{"rows": rows, f: map[string]interface{}{f: float64(1)}}
			R := gen.Field("rows")
			var tree *gen.Expr
			switch i % fnShapes {
			case 0:
				tree = gen.Chain(R, gen.StFilter(F()), gen.StFunc("type", gen.Current()))
			case 1:
				tree = gen.Chain(R, gen.StFilter(F()), gen.StFunc(f, gen.Current()))
			case 2:
				tree = gen.Chain(R, gen.StFilter(F()), gen.StFunc(f, F()))
			case 3:
				tree = gen.Chain(R, gen.StListStar(), gen.StField(f))
			case 4:
				tree = gen.Chain(R, gen.StFilter(F()), gen.StField(f))
			case 5:
				tree = gen.Chain(F(), gen.StStar())
			default:
				tree = gen.Chain(R, gen.StFilter(gen.Func("type", F())), gen.StMultiList(F(), gen.Func("type", F())))
			}
			cx := &caseCtx{r, t, "members-named-like-functions", i}
			res, _, _ := cx.runBoth(tree, gen.SpellTight(tree), doc)
			c02Account(t, tree, gen.SpellTight(tree), doc, res, i)
		}}
	// every chain of one or two steps over a list that another construct hands over (parenthesis, pipe, multi-select, not_null,
	// ||, &&, a projection, a slice, a flatten, map, to_array, a double reverse, values(), max_by ...): the projection runs over
	// what the construct yields - nothing carried over from the construct's own loop (its nulls, its spare capacity, its scope)
	hprods := argProducers()
	S2 := len(c02Steps)
	hdocs := []interface{}{pdocs[0], docs.J(`{"a":[{"a":1,"b":[1,null]},null,{"a":null,"b":2},[{"a":3}],{"a":[4,[5]],"b":{"a":6}}],"b":[0],"z":null,"ao":[]}`), docs.J(`{"a":{"a":[1,2],"b":null},"b":"s","z":null,"ao":[]}`), docs.J(`{"a":[],"b":null,"z":null,"ao":[]}`), docs.J(`{"a":[[1,null],[null],[],[[2]]],"b":[[0]],"z":null,"ao":[]}`)}
	HD := len(hdocs)
	hw := mon.Workload{Name: "projections-over-lists-produced-by-other-constructs", N: len(hprods) * (S2 + S2*S2) * HD, Batch: 4000,
		Do: func(i int, t *mon.Tally) {
			doc := hdocs[i%HD]
			k := i / HD
			pi := k % len(hprods)
			k /= len(hprods)
			var steps []gen.Step
			if k < S2 {
				steps = []gen.Step{c02Steps[k]}
			} else {
				k -= S2
				steps = []gen.Step{c02Steps[k/S2], c02Steps[k%S2]}
			}
			tree := gen.Chain(hprods[pi](gen.Field("a")), steps...)
			expr := gen.SpellTight(tree)
			cx := &caseCtx{r, t, "projections-over-lists-produced-by-other-constructs", i}
			res, _, _ := cx.runOne(tree, expr, doc)
			c02Account(t, tree, expr, doc, res, i)
		}}
	// a LIST as a filter condition (a nested filter, a projection, a slice, a flatten, a multi-select, an object wildcard): it is
	// true-like when it is not empty, whatever it holds - also when every value in it is false-like
	{
		f, lit, raw, cur, ch := gen.Field, gen.LitJSON, gen.Raw, gen.Current, gen.Chain
		hostDoc := docs.J(`{"hosts":[{"name":"a","checks":[{"kind":"disk","ok":false},{"kind":"net","ok":true}],"o":{"p":false,"q":null}},{"name":"b","checks":[{"kind":"disk","ok":false}],"o":{"p":""}},{"name":"c","checks":[{"kind":"net","ok":true},{"kind":"disk","ok":""}],"o":{}},{"name":"d","checks":[],"o":{"p":null}},{"name":"e","checks":[{"kind":"disk","ok":null},{"kind":"disk"}]},{"name":"f","checks":[{"kind":"disk","ok":true}],"o":{"p":[]}},{"name":"g","checks":[{"kind":"disk","ok":[]},{"kind":"disk","ok":{}}],"o":{"p":0}},{"name":"h"}]}`)
		isDisk := func() *gen.Expr { return gen.Cmp("==", f("kind"), raw("disk")) }
		lconds := []func() *gen.Expr{
			func() *gen.Expr { return ch(f("checks"), gen.StFilter(isDisk()), gen.StField("ok")) }, func() *gen.Expr { return ch(f("checks"), gen.StListStar(), gen.StField("ok")) }, func() *gen.Expr { return ch(f("checks"), gen.StFlatten(), gen.StField("ok")) },
			func() *gen.Expr { return ch(f("checks"), gen.StFilter(f("ok"))) }, func() *gen.Expr { return ch(f("checks"), gen.StFilter(gen.Not(f("ok"))), gen.StField("kind")) }, func() *gen.Expr { return ch(f("checks"), gen.StListStar()) },
			func() *gen.Expr { return gen.Not(ch(f("checks"), gen.StFilter(isDisk()), gen.StField("ok"))) }, func() *gen.Expr { return ch(f("checks"), gen.StFilter(gen.Cmp("==", f("kind"), raw("x")))) }, func() *gen.Expr { return ch(f("checks"), gen.StIndex(0), gen.StField("ok")) },
			func() *gen.Expr { return ch(f("checks"), gen.StListStar(), gen.StField("missing")) }, func() *gen.Expr { return gen.And(ch(f("checks"), gen.StFilter(isDisk()), gen.StField("ok")), f("name")) }, func() *gen.Expr { return ch(f("checks"), gen.StSliceS("", "1", ""), gen.StField("ok")) },
			func() *gen.Expr { return ch(f("o"), gen.StStar()) }, func() *gen.Expr { return ch(f("o"), gen.StStar(), gen.StField("x")) }, func() *gen.Expr { return ch(f("checks"), gen.StFilter(isDisk()), gen.StMultiList(f("ok"))) },
			func() *gen.Expr { return ch(f("checks"), gen.StFilter(isDisk()), gen.StMultiHash(keyA("o"), []*gen.Expr{f("ok")})) }, func() *gen.Expr { return gen.MultiList(f("missing")) }, func() *gen.Expr { return gen.MultiList(lit("false")) },
			func() *gen.Expr { return gen.Or(ch(f("checks"), gen.StFilter(isDisk()), gen.StField("ok")), lit("false")) }, func() *gen.Expr { return ch(f("checks"), gen.StFilter(ch(cur(), gen.StMultiList(f("ok"))))) }, func() *gen.Expr { return gen.Func("to_array", f("missing")) },
			func() *gen.Expr { return ch(f("checks"), gen.StFilter(isDisk()), gen.StFunc("not_null", f("ok"), lit("false"))) }, func() *gen.Expr { return gen.Func("map", gen.ExpRef(f("ok")), gen.Or(f("checks"), lit("[]"))) }, func() *gen.Expr { return gen.Func("values", gen.Or(f("o"), lit("{}"))) },
			func() *gen.Expr { return gen.Cmp("==", ch(f("checks"), gen.StFilter(isDisk()), gen.StField("ok")), lit("[false]")) }, func() *gen.Expr { return gen.Not(gen.Not(ch(f("checks"), gen.StListStar(), gen.StField("ok")))) },
		}
		ws := mon.Workload{Name: "lists-as-filter-conditions", N: len(lconds) * 5,
			Do: func(i int, t *mon.Tally) {
				c := lconds[i/5]
				var tree *gen.Expr
				switch i % 5 {
				case 0:
					tree = ch(f("hosts"), gen.StFilter(c()), gen.StField("name"))
				case 1:
					tree = gen.Func("length", ch(f("hosts"), gen.StFilter(c())))
				case 2:
					tree = ch(f("hosts"), gen.StFilter(gen.Not(gen.Paren(c()))), gen.StField("name"))
				case 3:
					tree = ch(f("hosts"), gen.StListStar(), gen.StMultiList(f("name"), gen.And(c(), lit("true")), gen.Or(c(), raw("none"))))
				default:
					tree = gen.Pipe(ch(f("hosts"), gen.StFilter(c())), ch(nil, gen.StIndex(0), gen.StField("name")))
				}
				cx := &caseCtx{r, t, "lists-as-filter-conditions", i}
				res, _, _ := cx.runBoth(tree, gen.SpellTight(tree), hostDoc)
				c02Account(t, tree, gen.SpellTight(tree), hostDoc, res, i)
			}}
		lfc = ws
	}
	// two slices (or a slice and another projection) in ONE expression over lists of the same length, differing only in whether a
	// bound is written as 0 or left out, or in its sign: each node answers for its own parameters
	{
		sls := [][3]string{{"", "", ""}, {"0", "", ""}, {"", "0", ""}, {"", "", "-1"}, {"0", "", "-1"}, {"", "0", "-1"}, {"", "", "1"}, {"0", "0", ""}, {"1", "", ""}, {"", "1", ""}, {"-1", "", ""}, {"", "-1", ""}, {"0", "", "2"}, {"", "", "2"}, {"1", "", "-1"}, {"", "1", "-1"}, {"-0", "", ""}, {"", "-0", ""}, {"0", "4", "1"}, {"", "4", ""}}
		xsDoc := docs.J(`{"xs":[{"n":1},{"n":2},{"n":3},{"n":4}],"ys":[{"n":5},{"n":6},{"n":7},{"n":8}]}`)
		NS := len(sls)
		twoSl = mon.Workload{Name: "two-slices-in-one-expression", N: NS * NS * 3, Batch: 500,
			Do: func(i int, t *mon.Tally) {
				a, b, form := sls[i/3/NS], sls[i/3%NS], i%3
				sa, sb := gen.StSliceS(a[0], a[1], a[2]), gen.StSliceS(b[0], b[1], b[2])
				var tree *gen.Expr
				switch form {
				case 0:
					tree = gen.MultiList(gen.Chain(gen.Field("xs"), sa, gen.StField("n")), gen.Chain(gen.Field("xs"), sb, gen.StField("n")))
				case 1:
					tree = gen.MultiList(gen.Chain(gen.Field("xs"), sa, gen.StField("n")), gen.Chain(gen.Field("ys"), sb, gen.StField("n")), gen.Chain(gen.Field("xs"), sa, gen.StField("n")))
				default:
					tree = gen.Pipe(gen.Chain(gen.Field("xs"), sa), gen.Chain(nil, sb, gen.StField("n")))
				}
				cx := &caseCtx{r, t, "two-slices-in-one-expression", i}
				res, _, _ := cx.runBoth(tree, gen.SpellTight(tree), xsDoc)
				c02Account(t, tree, gen.SpellTight(tree), xsDoc, res, i)
			}}
	}
	r.Exec(exh, rnd, typed, lng, fcw, fnw, kindPairsWorkload(r, "C02"), hw, lfc, twoSl)
}

func c02Account(t *mon.Tally, tree *gen.Expr, expr string, doc interface{}, res ref.Result, i int) {
	if !gen.HasProjection(tree) {
		return
	}
	nonEmpty := false
	for _, o := range res.Outcomes {
		if arr, ok := o.V.([]interface{}); ok && len(arr) > 0 {
			nonEmpty = true
		}
	}
	if nonEmpty {
		t.Nontrivial(expr + "\x00" + ref.Canon(doc))
		t.Count("expected a non-empty array")
		if i%30011 == 0 {
			t.Sample(map[string]interface{}{"expression": expr, "document": doc, "expected": expectedString(res)})
		}
	} else if res.Stats.Misses > 0 && !nonNull(res) && !isErr(res) {
		t.Count("expected null (left side of the wrong type / miss)")
	}
	if len(res.Outcomes) > 1 {
		t.Count("cases with more than one allowed member order")
	}
	if res.Stats.ObjIterations > 0 {
		t.Count("cases iterating object members")
	}
	gen.Walk(tree, func(x *gen.Expr) {
		for _, s := range x.Steps {
			if s.IsProjection() {
				t.Set("projection kinds", s.K.String())
			}
		}
	})
}
