package main

import (
	"fmt"
	"strings"
	"verifharness/docs"
	"verifharness/gen"
	"verifharness/mon"
	"verifharness/ref"
)

// C16 — a successful Search over JSON data returns JSON data.

func init() { register("C16", c16) }

func hasNumberOrEmpty(v interface{}) bool {
	switch t := v.(type) {
	case float64:
		return true
	case []interface{}:
		if len(t) == 0 {
			return true
		}
		for _, e := range t {
			if hasNumberOrEmpty(e) {
				return true
			}
		}
	case map[string]interface{}:
		if len(t) == 0 {
			return true
		}
		for _, e := range t {
			if hasNumberOrEmpty(e) {
				return true
			}
		}
	}
	return false
}

func c16Check(r *mon.Run, t *mon.Tally, wl string, idx int, expr string, doc interface{}) {
	for k := 0; k < 2; k++ {
		t.Eval()
		var o mon.Observed
		api := "Search"
		if k == 0 {
			o = apiSearch(expr, mon.DeepCopy(doc))
		} else {
			api = "Compile+Search"
			o = apiCompiledSearch(expr, mon.DeepCopy(doc))
		}
		if o.Panicked {
			r.Violate(&mon.Violation{Workload: wl, Index: idx, API: api, Expr: expr, Doc: doc, Expected: "no panic", Observed: o.String(), Detail: o.Stack, Class: "panic"})
			return
		}
		if o.Err != nil {
			t.Count("search returned an error (outside the property's precondition)")
			return
		}
		t.Count("successful searches checked")
		if why := mon.JSONClosed(o.V); why != "" {
			r.Violate(&mon.Violation{Workload: wl, Index: idx, API: api, Expr: expr, Doc: doc, Expected: "JSON data (null, booleans, finite numbers, strings, non-nil arrays and string-keyed objects, recursively) that survives Marshal/Unmarshal",
				Observed: o.String(), Detail: why, Class: wl + ": " + firstWords(why)})
			return
		}
		if hasNumberOrEmpty(o.V) {
			t.Nontrivial(ref.Canon(o.V))
		}
	}
}

func firstWords(s string) string {
	// class by the kind of offence, without the path
	for _, k := range []string{"nil slice", "nil map", "non-finite", "Go type", "Marshal failed", "round trip"} {
		if contains(s, k) {
			return k
		}
	}
	return "other"
}

func contains(s, sub string) bool {
	for i := 0; i+len(sub) <= len(s); i++ {
		if s[i:i+len(sub)] == sub {
			return true
		}
	}
	return false
}

func c16(r *mon.Run) {
	r.Rule = "the JSON-closure monitor (type walk: nil, bool, finite float64, string, non-nil []interface{}, non-nil map[string]interface{}; then json.Marshal -> Unmarshal -> deep equality) is applied to every successful result of: (1) the well-typed function matrix of C09 (every function on empty / single / ordinary inputs, the to_number boundary strings, avg/sum/max/min of empty arrays); " +
		"(2) every construct applied to empty arrays, empty objects, null and missing keys (64 expression templates x 12 documents); (2b) every function x 16 call shapes x 25 element patterns x 36 array lengths on and around internal thresholds (64, 128, … : block-wise arithmetic); (3) seeded random trees of all fragments (expression references only where a function declares one) on random typed documents with moderate numbers. Non-trivial = distinct results that contain a number or an empty container."
	r.Floor = 500
	r.Assumptions = []string{"documents are JSON data (the seeded random ones hold numbers of moderate magnitude; every finite magnitude up to the largest float64 is driven by the workload numbers-from-text-at-the-edges-of-the-formats); expression references are generated only in declared expression-parameter positions (the property's precondition)"}
	u := c09Build()
	cs := c09Cases(u, r.Tier == "thorough")
	fm := mon.Workload{Name: "function-matrix", N: len(cs) * 2, Batch: 2000,
		Describe: func(i int) string { tr, d := c09Tree(cs[i/2], i%2 == 1); return gen.Spell(tr) + " on " + ref.Canon(d) },
		Do: func(i int, t *mon.Tally) {
			tree, doc := c09Tree(cs[i/2], i%2 == 1)
			c16Check(r, t, "function-matrix", i, gen.Spell(tree), doc)
		}}
	templates := []string{
		"@", "a", "a.b", "a[0]", "a[*]", "a[]", "a[?@]", "a[?b]", "a.*", "a[:]", "a[::-1]", "a[1:]", "*", "[*]", "[]", "[?@]", "*.*", "a[*].b", "a[].b", "a.*.b",
		"[a]", "[a, b]", "{x: a}", "{x: a, y: b}", "a.[b]", "a.{x: b}", "a[*].[b]", "a[*].{x: b}", "a || b", "a && b", "!a", "a == b", "a < b", "a | b", "a | [0]",
		"keys(a)", "values(a)", "keys(@)", "values(@)", "sort(a)", "sort_by(a, &b)", "sort_by(a, &@)", "reverse(a)", "map(&b, a)", "map(&@, a)", "to_array(a)", "to_array(@)", "merge(a)", "merge(a, a)", "merge(@, @)",
		"not_null(a, b)", "max(a)", "min(a)", "sum(a)", "avg(a)", "max_by(a, &b)", "min_by(a, &@)", "join(',', a)", "length(a)", "to_string(a)", "to_number(a)", "type(a)", "contains(a, b)", "[a[*], a[], a.*]",
		"`9007199254740993`", "a || `9007199254740993`", "[`9007199254740993`, `-9007199254740993`, `12345678901234567890`]", "not_null(missing, `18446744073709551615`)", "`{\"id\": 9007199254740993, \"ids\": [9223372036854775807]}`", "{big: `1e21`, id: `9007199254740995`}",
		"merge(@, {self: @})", "merge(a, {k: a})", "a | merge(@, {d: @})", "[merge(a, {h: [a]})]", "merge({x: a}, {y: a}).x", "merge(a, {b: a.b})",
		"a[?b == `1`]", "a[?b == 'x']", "a[?b != `null`]", "a[?@ == `1`]", "a[?b == `1`] | [0]", "[a[?b == `1`], a[?b != `1`]]", "{r: a[?b == 'x']}", "a[?b == `1`].b", "a[?b == b]", "a[?`1` == b]", "a[?b < `1`]", "a[?!b]", "a[?b && b]", "a[?b || b]",
		"['\u00e9\\'', '\\'']", "{first: '\u00e9\\'', second: '\\''}", "['a\\'b', '\u00e9\u00e9\u00e9\\'\u00e9', 'c\\'', '\\'\U0001F600\\'']", "['\U0001F600\\'x', 'y\\'']", "join('', ['\u00e9\\'', '\\'\u00e9'])", "['\u00e9\\'', `\"\u00e9\"`, '\\'\u00e9', \"\u00e9\" || 'z\\'']", "[to_string('\u00e9\\''), '\\'']", "{a: '\u4e16\u754c\\'s', b: 's\\'', c: '\\'\u4e16'}",
		"{\"caf\\u00e9\": a}", "{\"\\u0080\": a, \"\\u00ff\": b}", "keys({\"\\u00e9\": a, \"\\u00c9\": b})", "{\"\\u00e9\": a}.\"\\u00e9\"", "[{\"\\u00e9x\": `1`}, {\"x\\u00e9\": `2`}]", "to_string({\"\\u00fc\\u00df\": a})", "merge({\"\\u00e9\": a}, {\"\u00e9\": b})", "{\"\\ud83d\\ude00\": a, \"\\u2028\": b}", "a[*].{\"\\u00e9\": b}", "{\"\\u007f\\u0080\": @}",
		"max(a[*].b)", "min(a[*].b)", "max(a[?b].b)", "min(a[?b > `5`].b)", "max(a[].b)", "min(a[1:].b)", "max(a[:0])", "sum(a[*].b)", "avg(a[?b].b)", "avg(a[*].b)", "max(*)", "min(a.*)", "max_by(a[?b], &b)", "sort(a[*].b)", "join('', a[*].b)",
	}
	tdocs := []interface{}{
		docs.J(`{}`), docs.J(`[]`), docs.J(`null`), docs.J(`{"a":[]}`), docs.J(`{"a":{}}`), docs.J(`{"a":null,"b":null}`), docs.J(`{"a":[[]],"b":[]}`), docs.J(`{"a":[{}],"b":{}}`),
		docs.J(`{"a":[1,2],"b":1}`), docs.J(`{"a":["x"],"b":"x"}`), docs.J(`{"a":[{"b":1},{"b":2}],"b":{"b":1}}`), docs.J(`{"a":{"b":[]},"b":[[],[]]}`),
		docs.J(`{"a":["<","\u2028x","\u2029","é","\ud83d\ude00","\\u003c","\u0000","\u001f\u007f"],"b":"\u2028"}`), docs.J(`{"a":{"\u2028":"\u2029","<k>":["&"]},"b":{"b":"\u2028"}}`), docs.J(`{"a":[{"b":"\u2028","\u2029":1},{"b":"x\u2028y\u2029z"}],"b":["\u2028"]}`),
	}
	tdocs = append(tdocs, docs.J(`{"a":["12.5","NaN","7"],"b":"NaN"}`), docs.J(`{"a":["250","Infinity","90"],"b":"Infinity"}`), docs.J(`{"a":["inf","-inf"],"b":"-inf"}`), docs.J(`{"a":["1e400","-1e400","1"],"b":"1e400"}`), docs.J(`{"a":["NaN"],"b":["NaN"]}`),
		docs.J(`{"a":[{"b":"Infinity"},{"b":"NaN"},{"b":"1"}],"b":{"b":"inf"}}`), docs.J(`{"a":["0x7ff0000000000000","+Inf","1e309"],"b":"+Inf"}`))
	nt := len(templates) * len(tdocs)
	emp := mon.Workload{Name: "empty-containers", N: nt,
		Describe: func(i int) string { return templates[i/len(tdocs)] + " on " + ref.Canon(tdocs[i%len(tdocs)]) },
		Do: func(i int, t *mon.Tally) {
			c16Check(r, t, "empty-containers", i, templates[i/len(tdocs)], tdocs[i%len(tdocs)])
		}}
	nr := tierPick(r, 60000, 1500000)
	rnd := mon.Workload{Name: "random-trees", N: nr,
		Do: func(i int, t *mon.Tally) {
			rng := gen.DeriveN(r.Seed, "c16rand", i)
			g := gen.NewTreeGen(rng)
			g.MaxDepth = 2 + rng.Intn(4)
			g.IllTyped = 30
			tree := g.Expr(0, gen.WAny)
			dg := docs.NewRand(rng)
			var doc interface{} = dg.TypedDoc(0)
			if rng.Chance(1, 6) {
				doc = dg.Doc()
			}
			expr := gen.Spell(tree)
			c16Check(r, t, "random-trees", i, expr, doc)
			if i%10007 == 0 {
				t.Sample(map[string]interface{}{"expression": expr, "document": doc})
			}
		}}
	th := r.Tier == "thorough"
	sized := mon.Workload{Name: "sized-arrays", N: sizedCount(th), Batch: 500,
		Describe: func(i int) string { _, _, d := sizedCase(i, th); return d },
		Do: func(i int, t *mon.Tally) {
			tree, doc, _ := sizedCase(i, th)
			c16Check(r, t, "sized-arrays", i, gen.SpellTight(tree), doc)
		}}
	// numbers read from text on and around the edges of the machine formats: what comes back is a finite float64 or null
	edgeTmpl := []string{"to_number(a)", "to_number('%s')", "[to_number(a)]", "{n: to_number(a)}", "x[*].to_number(@)", "map(&to_number(@), x)", "sum(x[*].to_number(@))", "avg([to_number(a), to_number(a)])", "max([to_number(a), `0`])", "abs(to_number(a))", "ceil(to_number(a))", "floor(to_number(a))",
		"to_number(a) || `0`", "not_null(to_number(a), `0`)", "sort(x[*].to_number(@))", "to_number(to_string(to_number(a)))", "to_string(to_number(a))", "sum([to_number(a), to_number(a)])", "`%s`", "[`%s`, `-%s`]", "sum([`%s`, `%s`])", "avg([`%s`, `-%s`])", "abs(`-%s`)",
		"sum([x[1], x[1], x[2], x[2]][*].to_number(@))", "avg([x[1], x[2], x[1], x[2], x[1]][*].to_number(@))", "sum([`%s`, `-%s`, `%s`, `-%s`, `%s`, `%s`, `-%s`])", "sum([`%s`, `%s`, `-%s`, `-%s`])", "avg([`-%s`, `-%s`, `%s`, `%s`])", "sum([`%s`, `%s`, `%s`, `-%s`, `-%s`, `-%s`, `1`])", "[sum([`%s`, `%s`, `-%s`, `-%s`]), avg([`%s`, `%s`, `-%s`, `-%s`])]", "sum(map(&to_number(@), [x[2], x[2], x[1], x[1]]))"}
	edge := mon.Workload{Name: "numbers-from-text-at-the-edges-of-the-formats", N: len(edgeNumberStrings) * len(edgeTmpl), Batch: 500,
		Describe: func(i int) string { return edgeNumberStrings[i/len(edgeTmpl)] + " in " + edgeTmpl[i%len(edgeTmpl)] },
		Do: func(i int, t *mon.Tally) {
			sv := edgeNumberStrings[i/len(edgeTmpl)]
			tm := edgeTmpl[i%len(edgeTmpl)]
			if strings.Contains(tm, "-%s") && strings.HasPrefix(sv, "-") {
				return
			}
			c16Check(r, t, "numbers-from-text-at-the-edges-of-the-formats", i, strings.ReplaceAll(tm, "%s", sv), map[string]interface{}{"a": sv, "x": []interface{}{"1", sv, "-" + strings.TrimPrefix(sv, "-")}})
		}}
	// a compiled expression fed its own earlier result (a caller may keep a result and query it): every result is JSON data - finite,
	// acyclic, serialisable
	ownExprs := []string{"merge(`{\"d\":1}`, @)", "merge({k: `1`}, @)", "merge(`{}`, {self: @})", "merge({a: a}, {r: @})", "[@, @]", "{k: @}", "to_array(@)", "merge(@, {self: @})", "not_null(@)", "values(merge(`{\"x\":1}`, {s: @}))", "merge(`{\"d\":{}}`, {d: @})", "[`[]`, @][]", "{a: a, all: @}", "merge({self: @}, `{\"z\":0}`)", "map(&merge(`{\"m\":1}`, @), [@, @])", "a[*].merge(`{\"lit\":true}`, @)", "merge(`{\"lit\":1}`, a[0], {o: @})"}
	ownDocs := []string{`{"a":[{"b":1},{"b":2}],"b":"x"}`, `{"a":1}`, `[1,2]`, `{}`}
	ownw := mon.Workload{Name: "a-compiled-expression-fed-its-own-earlier-result", N: len(ownExprs) * len(ownDocs), Batch: 20,
		Describe: func(i int) string {
			return ownExprs[i/len(ownDocs)] + " on " + ownDocs[i%len(ownDocs)] + " and then on its own results"
		},
		Do: func(i int, t *mon.Tally) {
			expr := ownExprs[i/len(ownDocs)]
			jp, co := apiCompile(expr)
			if co.Panicked || co.Err != nil {
				r.Inconclusive("C16 workload expression does not compile: " + expr)
				return
			}
			var doc interface{} = docs.J(ownDocs[i%len(ownDocs)])
			for round := 0; round < 4; round++ {
				t.Eval()
				o := apiJP(jp, doc)
				if o.Panicked {
					r.Violate(&mon.Violation{Workload: "a-compiled-expression-fed-its-own-earlier-result", Index: i, API: "Compile+Search", Expr: expr, DocDesc: fmt.Sprintf("round %d, starting from %s", round+1, ownDocs[i%len(ownDocs)]), Expected: "no panic", Observed: o.String(), Detail: o.Stack, Class: "panic"})
					return
				}
				if o.Err != nil {
					return
				}
				if why := mon.JSONClosed(o.V); why != "" {
					r.Violate(&mon.Violation{Workload: "a-compiled-expression-fed-its-own-earlier-result", Index: i, API: "Compile+Search", Expr: expr, DocDesc: fmt.Sprintf("round %d (the document is the result of round %d), starting from %s", round+1, round, ownDocs[i%len(ownDocs)]),
						Expected: "JSON data that survives Marshal/Unmarshal", Observed: clipStr(why, 300), Detail: why, Class: "a-compiled-expression-fed-its-own-earlier-result: " + firstWords(why)})
					return
				}
				doc = o.V
			}
			t.Nontrivial("own:" + expr)
		}}
	r.Exec(fm, emp, rnd, sized, edge, ownw)
}
