package main

import (
	"encoding/json"
	"math"
	"math/big"
	"strconv"
	"strings"

	jmespath "github.com/jmespath/go-jmespath"

	"verifharness/docs"
	"verifharness/gen"
	"verifharness/mon"
	"verifharness/ref"
)

// C14 — identifiers, raw strings and JSON literals denote exactly the
// written name/value.

func init() { register("C14", c14) }

var c14Alphabet = []string{
	"\\", "'", "\"", "`", "u", "n", "0", " ", "\t", "\n", "\r", "\x00", "\x01", "\x1f", "\x7f", "\u0080", "\u00e9", "\u2028", "\ufffd", "\uffff",
	"\U0001f600", "\U00010000", "\U0010ffff", "\ud7ff", "\ue000", "{", "}", "[", "]", "(", ")", ",", ":", "a", "b", "/", "r", "t", "f", "x", "D", "8",
	"&", "|", "*", ".", "@", "-",
}

var c14Danger = []string{"\\", "'", "\"", "`", "u", "n", "\x00", "\n", "\u00e9", "\U0001f600", "0", " "}

// c14Words: names and values that read like syntax, keywords, numbers or function names.
var c14Words = []string{"null", "true", "false", "0", "-1", "007", "1e5", "1.0", "-0", "*", "@", "&", "&&", "||", "|", "!", "==", "<=", "a.b", "a.b.c", "[0]", "[]", "[*]", "[?a]", "a[0]", "{a:b}", "a,b", "a:b", "(a)",
	" a", "a ", " ", "  ", "\t", "a b", "sort_by", "length", "length(@)", "not_null", "and", "or", "not", "Name", "name", "NAME", "_", "__proto__", "constructor", "a-b", "a/b", "a\\b", "'a'", "\"a\"", "`a`", "`1`",
	"0x10", "NaN", "Infinity", "-", "--", ".", "..", "a.", ".a", "$", "$ref", "#", "%s", "%d",
	"keys", "values", "type", "toString", "hasOwnProperty", "prototype", "undefined", "nil", "None", "NULL", "True", "id", "class", "self", "this", "in", "cont", "k", "v", "e", "E", "1e", "_0", "0_"}

func c14Strings(seed uint64, nrand int) (int, func(i int) string) {
	A, D := len(c14Alphabet), len(c14Danger)
	n1 := 1 + A + A*A
	n2 := D*D*D + len(awkwardKeys)
	return n1 + n2 + nrand, func(i int) string {
		if k := i - n1 - D*D*D; k >= 0 && k < len(awkwardKeys) {
			return awkwardKeys[k]
		}
		switch {
		case i == 0:
			return ""
		case i < 1+A:
			return c14Alphabet[i-1]
		case i < n1:
			k := i - 1 - A
			return c14Alphabet[k/A] + c14Alphabet[k%A]
		case i < n1+n2:
			k := i - n1
			return c14Danger[k/(D*D)] + c14Danger[(k/D)%D] + c14Danger[k%D]
		}
		r := gen.DeriveN(seed, "c14str", i)
		ln := 1 + r.Intn(40)
		var sb strings.Builder
		for j := 0; j < ln; j++ {
			switch r.Intn(4) {
			case 0:
				sb.WriteString(gen.Pick(r, c14Danger))
			case 1, 2:
				sb.WriteString(gen.Pick(r, c14Alphabet))
			default:
				// any plane
				var c rune
				switch r.Intn(4) {
				case 0:
					c = rune(r.Intn(0x80))
				case 1:
					c = rune(0x80 + r.Intn(0x800-0x80))
				case 2:
					c = rune(0x800 + r.Intn(0x10000-0x800))
					if c >= 0xd800 && c <= 0xdfff {
						c = 0xe000
					}
				default:
					c = rune(0x10000 + r.Intn(0x100000))
				}
				sb.WriteRune(c)
			}
		}
		return sb.String()
	}
}

func interesting(s string) bool {
	for _, c := range s {
		if c == '\\' || c == '\'' || c == '"' || c == '`' || c < 0x20 || c >= 0x7f {
			return true
		}
	}
	return false
}

const c14Marker = "⟨M⟩"

func c14(r *mon.Run) {
	r.Rule = "round-trip identities over strings: every string of length <= 2 over a 48-symbol trouble alphabet (backslash, the three delimiters, u n 0, whitespace, NUL and controls, DEL, U+0080, U+2028, U+FFFD, U+FFFF, astral and plane-boundary code points, structural characters), every length-3 string over the 12 most dangerous, 95 words that read like keywords, numbers, operators, paths, function names or other syntax, seeded random strings of length <= 40 over all planes: " +
		"(a) the quoted identifier spelled by three independent JSON string encoders (minimal / all-\\uXXXX with surrogate pairs / random mix incl. \\/ \\b \\f) must select exactly key s among decoy keys; (b) the raw string (with ' as \\') must denote s; (c) literals: JSON values built from those strings as keys and leaves, in compact / spaced / escaped text with ` as \\`, must denote v; " +
		"(d) every ASCII string of length <= 2 and every length-3 string over [A-Za-z0-9_] plus 12 other bytes parses as the field of that name iff it matches [A-Za-z_][A-Za-z0-9_]*; (e) whitespace around tokens; (f) two or three names/constants in one expression (lists, hashes, pipes, comparisons): every lexeme must still denote its own value; (g) each kind of failing lexeme followed by the round trips again (nothing may survive a failed expression). Non-trivial = distinct (layer, string) with a backslash, delimiter, control or non-ASCII code point."
	r.Floor = 2000
	r.Exhaustive = true
	r.Assumptions = []string{"the three JSON string encoders in gen/encode.go follow RFC 8259 (they share no code with encoding/json)", "raw strings are restricted as C14 says: no backslash directly before a quote or at the end"}
	nrand := tierPick(r, 30000, 1500000)
	ns0, strAt0 := c14Strings(r.Seed, nrand)
	// a few long strings (scanner buffers, chunked copies): built by repeating short trouble strings
	longLens := []int{255, 256, 257, 1023, 1025, 4097, 70001}
	ns := ns0 + len(longLens)*6
	strAt := func(i int) string {
		if i < ns0 {
			return strAt0(i)
		}
		k := i - ns0
		unit := []string{"a", "\\", "'", "\"", "`", "é😀"}[k%6]
		n := longLens[k/6]
		return strings.Repeat(unit, n/len(unit)+1)[:n/len(unit)*len(unit)] + "z"
	}
	quoted := mon.Workload{Name: "quoted-identifiers", N: ns,
		Describe: func(i int) string { return gen.EncodeString(strAt(i), gen.EncMinimal, nil) },
		Do: func(i int, t *mon.Tally) {
			s := strAt(i)
			rng := gen.DeriveN(r.Seed, "c14q", i)
			doc := map[string]interface{}{s: c14Marker}
			for _, dk := range []string{s + "x", "x" + s, s + s + "y", strings.ToUpper(s) + "z", "\\" + s} {
				if dk != s {
					doc[dk] = "decoy"
				}
			}
			for k, mode := range []gen.EncMode{gen.EncMinimal, gen.EncAllU, gen.EncMixed} {
				lex := gen.EncodeString(s, mode, rng)
				exprs := []string{lex}
				if k == 0 {
					exprs = append(exprs, "@."+lex, " "+lex+"\t")
				}
				for _, expr := range exprs {
					t.Eval()
					o := apiSearch(expr, doc)
					if o.Panicked || o.Err != nil || !ref.Match(c14Marker, o.V) {
						r.Violate(&mon.Violation{Workload: "quoted-identifiers", Index: i, API: "Search", Expr: expr, DocDesc: "{" + strconv.QuoteToASCII(s) + ": marker, …decoys}",
							Expected: "the value stored under key " + strconv.QuoteToASCII(s), Observed: o.String(), Class: "quoted identifier"})
						return
					}
				}
			}
			// the name selects EXACTLY the member s: where s itself is absent and only look-alikes are present (another letter case of the
			// first character or of all of them, the name trimmed, with a blank added) the answer is null
			{
				alikes := map[string]interface{}{}
				rs := []rune(s)
				if len(rs) > 0 {
					for _, alt := range []string{strings.ToUpper(string(rs[:1])) + string(rs[1:]), strings.ToLower(string(rs[:1])) + string(rs[1:]), strings.ToUpper(s), strings.ToLower(s), strings.TrimSpace(s), s + " ", " " + s, strings.Title(s)} {
						if alt != s {
							alikes[alt] = "look-alike"
						}
					}
				}
				if len(alikes) > 0 {
					lex := gen.EncodeString(s, gen.EncMinimal, nil)
					for _, expr := range []string{lex, "@." + lex, "[" + lex + "][0]"} {
						t.Eval()
						if o := apiSearch(expr, alikes); o.Panicked || o.Err != nil || o.V != nil {
							r.Violate(&mon.Violation{Workload: "quoted-identifiers", Index: i, API: "Search", Expr: expr, Doc: alikes, Expected: "null: there is no member " + strconv.QuoteToASCII(s) + ", only look-alikes", Observed: o.String(), Class: "quoted identifier selects a look-alike"})
							return
						}
					}
				}
			}
			// inside a chain of fields (after a dot, before a dot, on both sides): the name is one member name wherever
			// it stands. Decoys: the nested path that a name with dots in it would spell if it were split at the dots.
			{
				lex := gen.EncodeString(s, gen.EncMinimal, nil)
				inner := map[string]interface{}{s: c14Marker, s + "x": "decoy", "x" + s: "decoy"}
				top := map[string]interface{}{"cont": inner, s: map[string]interface{}{"in": c14Marker, s: c14Marker, "cont": "decoy"}}
				if parts := strings.Split(s, "."); len(parts) > 1 && parts[0] != "cont" {
					nest := func(leaf interface{}) interface{} {
						v := leaf
						for q := len(parts) - 1; q >= 1; q-- {
							v = map[string]interface{}{parts[q]: v}
						}
						return v
					}
					inner[parts[0]] = nest("decoy-nested")
					top[parts[0]] = nest(map[string]interface{}{"in": "decoy-nested", s: "decoy-nested"})
				}
				for _, expr := range []string{"cont." + lex, lex + ".in", lex + "." + lex, "cont." + lex + " | @", "[cont." + lex + "][0]", "cont.{v: " + lex + "}.v", "@.cont." + lex, "(cont)." + lex} {
					t.Eval()
					o := apiSearch(expr, top)
					if s == "cont" {
						break // (the container's own name: the chains mean something else)
					}
					if o.Panicked || o.Err != nil || !ref.Match(c14Marker, o.V) {
						r.Violate(&mon.Violation{Workload: "quoted-identifiers", Index: i, API: "Search", Expr: expr, DocDesc: "{cont: {" + strconv.QuoteToASCII(s) + ": marker, …decoys}, " + strconv.QuoteToASCII(s) + ": {in: marker, " + strconv.QuoteToASCII(s) + ": marker}, …the nested path the name would spell if split at its dots}",
							Expected: "the value stored under key " + strconv.QuoteToASCII(s) + " (a quoted identifier in a chain of fields is one member name)", Observed: o.String(), Class: "quoted identifier in a chain"})
						return
					}
				}
			}
			// as a multi-select-hash key: the result must carry exactly key s
			lex := gen.EncodeString(s, gen.EncMinimal, nil)
			expr := "{" + lex + ": `1`}"
			t.Eval()
			o := apiSearch(expr, map[string]interface{}{})
			if m, ok := o.V.(map[string]interface{}); o.Panicked || o.Err != nil || !ok || len(m) != 1 || m[s] != float64(1) {
				r.Violate(&mon.Violation{Workload: "quoted-identifiers", Index: i, API: "Search", Expr: expr, Doc: map[string]interface{}{},
					Expected: "{" + strconv.QuoteToASCII(s) + ": 1}", Observed: o.String(), Class: "quoted hash key"})
				return
			}
			if interesting(s) {
				t.Nontrivial("q:" + s)
			}
			if i%4001 == 0 {
				t.Sample(map[string]interface{}{"layer": "quoted identifier", "string": s, "spelling": lex})
			}
		}}
	raw := mon.Workload{Name: "raw-strings", N: ns,
		Describe: func(i int) string { return gen.RawLexeme(strAt(i)) },
		Do: func(i int, t *mon.Tally) {
			s := strAt(i)
			if !gen.RawSpellable(s) {
				t.Count("raw: not spellable (backslash before quote or at the end), skipped as C14 says")
				return
			}
			lex := gen.RawLexeme(s)
			for _, expr := range []string{lex, "[" + lex + "][0]", lex + " | @"} {
				t.Eval()
				var doc interface{} // the plain form on null, the wrapped forms on a non-null document (multi-select of null is null)
				if expr != lex {
					doc = map[string]interface{}{}
				}
				o := apiSearch(expr, doc)
				if o.Panicked || o.Err != nil || !ref.Match(s, o.V) {
					r.Violate(&mon.Violation{Workload: "raw-strings", Index: i, API: "Search", Expr: expr, Expected: strconv.QuoteToASCII(s), Observed: o.String(), Class: "raw string"})
					return
				}
			}
			if interesting(s) {
				t.Nontrivial("r:" + s)
			}
			if i%4001 == 1 {
				t.Sample(map[string]interface{}{"layer": "raw string", "string": s, "spelling": lex})
			}
		}}
	us := docs.U()
	nlit := ns + tierPick(r, 20000, 600000)
	lit := mon.Workload{Name: "literals", N: nlit,
		Do: func(i int, t *mon.Tally) {
			rng := gen.DeriveN(r.Seed, "c14lit", i)
			var v interface{}
			if i < ns {
				s := strAt(i)
				switch i % 4 {
				case 0:
					v = s
				case 1:
					v = []interface{}{s, nil, s}
				case 2:
					v = map[string]interface{}{s: s}
				default:
					v = map[string]interface{}{"k": []interface{}{map[string]interface{}{s: float64(i % 7)}}, s + "2": true}
				}
			} else if i%5 == 0 {
				v = us[i%len(us)]
			} else {
				dg := docs.NewRand(rng)
				_, sa := c14Strings(r.Seed, nrand)
				dg.Strings = []string{sa(rng.Intn(ns)), sa(rng.Intn(ns)), "", "a"}
				dg.Keys = []string{sa(rng.Intn(ns)), sa(rng.Intn(ns)), "a", ""}
				dg.Numbers = []float64{0, -0.5, 1e21, 1e-7, 123456789012, -1, 3.14159, 1e300, 5e-324}
				v = dg.Value(0)
			}
			var text string
			switch i % 3 {
			case 0:
				text = gen.EncodeJSON(v, gen.EncMinimal, rng)
			case 1:
				text = gen.EncodeJSONSpaced(v, gen.EncMixed, rng)
			default:
				text = gen.EncodeJSON(v, gen.EncAllU, rng)
			}
			expr := gen.LiteralLexeme(text)
			t.Eval()
			o := apiSearch(expr, nil)
			if o.Panicked || o.Err != nil || !ref.Match(v, o.V) || (o.V != nil && mon.JSONClosed(o.V) != "") {
				r.Violate(&mon.Violation{Workload: "literals", Index: i, API: "Search", Expr: expr, Expected: ref.Canon(v), Observed: o.String(), Class: "literal"})
				return
			}
			// the compiled expression hands out the same value (an empty list is an empty list there too, not nil), twice
			if jp, co := apiCompile(expr); co.Panicked || co.Err != nil {
				r.Violate(&mon.Violation{Workload: "literals", Index: i, API: "Compile", Expr: expr, Expected: "compiles", Observed: co.String(), Class: "literal"})
				return
			} else {
				for k := 0; k < 2; k++ {
					oc := apiJP(jp, nil)
					if oc.Panicked || oc.Err != nil || !ref.Match(v, oc.V) || (oc.V != nil && mon.JSONClosed(oc.V) != "") {
						r.Violate(&mon.Violation{Workload: "literals", Index: i, API: "Compile+Search", Expr: expr, Expected: ref.Canon(v), Observed: oc.String(), Detail: mon.JSONClosed(oc.V), Class: "literal (compiled)"})
						return
					}
				}
			}
			if interesting(text) {
				t.Nontrivial("l:" + text)
			}
			if i%6007 == 2 {
				t.Sample(map[string]interface{}{"layer": "literal", "value": v, "spelling": expr})
			}
		}}
	// number literals: every spelling denotes the float64 nearest to the written decimal (what encoding/json and
	// strconv.ParseFloat give), whatever its length, wherever it stands; integers around the int32/int64/uint64 and
	// 2^53 limits, powers of ten and digit runs of 1..30 digits, each plain, negated, with .0, with exponents
	var numTexts []string
	{
		seen := map[string]bool{}
		add := func(s string) {
			for _, v := range []string{s, "-" + s, s + ".0", s + "e0", s + "E+0", s + ".5", s + "e-1", "-" + s + "e1"} {
				if !seen[v] {
					seen[v] = true
					numTexts = append(numTexts, v)
				}
			}
		}
		// decimals of 14-18 significant digits with the point anywhere (where a mantissa-times-power-of-ten short cut rounds twice)
		add("9.789293555766875")
		dr := gen.DeriveN(1, "c14decimals", 0) // (a fixed list: it does not depend on the run's seed)
		for k := 0; k < 400; k++ {
			nd := 14 + dr.Intn(5)
			b := make([]byte, 0, nd+1)
			pt := 1 + dr.Intn(nd-1)
			for q := 0; q < nd; q++ {
				if q == pt {
					b = append(b, '.')
				}
				c := byte('0' + dr.Intn(10))
				if q == 0 && c == '0' {
					c = '9'
				}
				b = append(b, c)
			}
			if !seen[string(b)] {
				seen[string(b)] = true
				numTexts = append(numTexts, string(b), "-"+string(b))
			}
		}
		for _, k := range []uint{7, 8, 15, 16, 24, 31, 32, 52, 53, 62, 63, 64} {
			b := new(big.Int).Lsh(big.NewInt(1), k)
			for d := int64(-2); d <= 2; d++ {
				add(new(big.Int).Add(b, big.NewInt(d)).String())
			}
		}
		for d := 1; d <= 30; d++ {
			p := new(big.Int).Exp(big.NewInt(10), big.NewInt(int64(d)), nil)
			add(p.String())
			add(new(big.Int).Sub(p, big.NewInt(1)).String())
			add(new(big.Int).Add(p, big.NewInt(1)).String())
			add(strings.Repeat("5", d))
			add("1" + strings.Repeat("0", d-1) + "7")
		}
		for _, s := range []string{"0", "1", "9223372036854775807", "9223372036854775808", "9999999999999999999", "18446744073709551615", "18446744073709551616", "123456789012345678901234567890",
			"0.1", "0.000001", "0.0000001", "1.7976931348623157e308", "4.9e-324", "2.2250738585072014e-308", "1e308", "1e-320", "1e21", "1e22", "1e23", "123456789.123456789", "0.30000000000000004", "5e-324", "1e400", "1e-400"} {
			add(s)
		}
	}
	nctx := 6
	numw := mon.Workload{Name: "number-literals", N: len(numTexts) * nctx,
		Describe: func(i int) string { return numTexts[i/nctx] },
		Do: func(i int, t *mon.Tally) {
			text := numTexts[i/nctx]
			f, perr := strconv.ParseFloat(text, 64)
			var expr string
			var want interface{} = f
			switch i % nctx {
			case 0:
				expr = "`" + text + "`"
			case 1:
				expr, want = "`["+text+"]`", []interface{}{f}
			case 2:
				expr, want = "`{\"a\": "+text+"}`", map[string]interface{}{"a": f}
			case 3:
				expr = "` " + text + "\n`"
			case 4:
				expr, want = "[`"+text+"`, `1`]", []interface{}{f, float64(1)}
			default:
				expr, want = "`"+text+"` == `"+text+"`", true
			}
			t.Eval()
			empty := map[string]interface{}{} // (a multi-select on a null document is null)
			for k, o := range []mon.Observed{apiSearch(expr, empty), apiCompiledSearch(expr, empty)} {
				api := []string{"Search", "Compile+Search"}[k]
				if perr != nil { // out of the float64 range: not a number a JSON decoder accepts
					if o.Panicked || o.Err == nil {
						r.Violate(&mon.Violation{Workload: "number-literals", Index: i, API: api, Expr: expr, Expected: "an error: " + text + " is outside the float64 range", Observed: o.String(), Class: "number-literals: out-of-range literal accepted"})
						return
					}
					continue
				}
				if o.Panicked || o.Err != nil || !ref.Match(want, o.V) || !exactNumbers(want, o.V) {
					r.Violate(&mon.Violation{Workload: "number-literals", Index: i, API: api, Expr: expr, Expected: ref.Canon(want) + " (the float64 nearest to the written decimal)", Observed: o.String(), Class: "number-literals: wrong value"})
					return
				}
			}
			if perr == nil {
				t.Nontrivial("num:" + expr)
				t.Count("number literal spellings denoting the nearest float64")
			} else {
				t.Count("out-of-range number literals rejected")
			}
		}}
	// identifiers
	other := []byte("-.@ [\x7f`{$/\x00\xc3")
	var id3 []byte
	for c := byte('0'); c <= '9'; c++ {
		id3 = append(id3, c)
	}
	for c := byte('A'); c <= 'Z'; c++ {
		id3 = append(id3, c, c+32)
	}
	id3 = append(id3, '_')
	id3 = append(id3, other...)
	longIDs := []string{"null", "true", "false", "and", "or", "not", "length", "sort_by", "max_by", "to_string", "to_array", "max", "Name", "name", "NULL", "True", "nul", "nulls", "null_", "_null", "true1", "abs2", "foo_bar_baz", "A1_b2_C3",
		"aVeryLongIdentifierWithManyCharactersInIt_0123456789_abcdefghijklmnopqrstuvwxyz", "__", "_0", "e1", "E5", "x0x", "inf", "nan", "NaN", "Infinity", "length_", "keys", "values", "type", "contains", "reverse", "merge", "join", "map",
		"null-", "true.", "a-b", "1null", "nullé", "é", "null null", "length(", "a$", "$a", "a.b", "sort-by"}
	n12 := 128 + 128*128
	nbmp := (0x10000 - 0x80) * 2 // every code point U+0080…U+FFFF alone and right after a letter (plus a sample beyond the BMP)
	nastral := 2048 * 2
	nid := n12 + len(id3)*len(id3)*len(id3) + len(longIDs) + nbmp + nastral
	idAt := func(i int) string {
		if k := i - n12 - len(id3)*len(id3)*len(id3) - len(longIDs); k >= 0 {
			var cp rune
			if k < nbmp {
				cp = rune(0x80 + k/2)
				if cp >= 0xd800 && cp <= 0xdfff {
					cp = 0xfffd
				}
			} else {
				cp = rune(0x10000 + ((k-nbmp)/2)*509%0x100000)
			}
			if k%2 == 0 {
				return string(cp)
			}
			return "k" + string(cp)
		}
		if k := i - n12 - len(id3)*len(id3)*len(id3); k >= 0 {
			return longIDs[k]
		}
		switch {
		case i < 128:
			return string([]byte{byte(i)})
		case i < n12:
			k := i - 128
			return string([]byte{byte(k / 128), byte(k % 128)})
		}
		k := i - n12
		L := len(id3)
		return string([]byte{id3[k/(L*L)], id3[(k/L)%L], id3[k%L]})
	}
	ident := mon.Workload{Name: "unquoted-identifiers", N: nid, Batch: 5000,
		Describe: idAt,
		Do: func(i int, t *mon.Tally) {
			s := idAt(i)
			t.Eval()
			isID := gen.IsUnquotedIdent(s)
			sx, o := parseSexpr(s)
			if o.Panicked {
				r.Violate(&mon.Violation{Workload: "unquoted-identifiers", Index: i, API: "Parse", Expr: s, Expected: "no panic", Observed: o.String(), Class: "identifier panic"})
				return
			}
			asField := o.Err == nil && sx == "(ASTField "+strconv.Quote(s)+")"
			if isID != asField {
				exp := "parses as the field named " + strconv.QuoteToASCII(s)
				if !isID {
					exp = "does not parse as a field named " + strconv.QuoteToASCII(s) + " (not an unquoted identifier)"
				}
				obs := sx
				if o.Err != nil {
					obs = o.String()
				}
				r.Violate(&mon.Violation{Workload: "unquoted-identifiers", Index: i, API: "Parse", Expr: s, Expected: exp, Observed: obs, Class: "identifier set"})
				return
			}
			if isID {
				t.NontrivialDistinct(1)
				doc := map[string]interface{}{s: c14Marker, s + "0": "decoy", "_" + s: "decoy"}
				for _, expr := range []string{s, "\t" + s + "\r\n", "@ . " + s, s + "||" + s} {
					t.Eval()
					so := apiSearch(expr, doc)
					if so.Panicked || so.Err != nil || !ref.Match(c14Marker, so.V) {
						r.Violate(&mon.Violation{Workload: "unquoted-identifiers", Index: i, API: "Search", Expr: expr, DocDesc: "{" + strconv.QuoteToASCII(s) + ": marker, …decoys}",
							Expected: "the value stored under key " + s, Observed: so.String(), Class: "identifier lookup"})
						return
					}
				}
			} else {
				t.Count("strings that are not unquoted identifiers")
			}
		}}
	// whitespace: every one- and two-character whitespace string between and around the tokens of a fixed expression
	wsChars := []string{" ", "\t", "\n", "\r", "\v", "\f", "\u00a0", "\u2028", "\x00", "\u0085"}
	bases := [][]string{
		{"a", ".", "b", "[", "0", "]", "||", "'x'", "|", "[", "a", ",", "`1`", "]", "|", "abs", "(", "@", ")", ".", "f", "(", "&", "a", ",", "\"q\"", ")"},
		// every bracket form directly behind every other one, behind a dot, a star, a pipe, a flatten and a filter
		{"a", "[", "*", "]", "[", "*", "]", ".", "b", "[", "1", ":", "2", "]", "[", "*", "]", "[?", "c", "]", "[", "*", "]", "|", "*", ".", "d", "[", "*", "]", "[", "0", "]", "[", "*", "]"},
		{"a", "[]", "[", "*", "]", ".", "*", "[", "*", "]", "[", ":", ":", "-1", "]", "[]", "[?", "!", "b", "]", "[", "-1", "]", ".", "{", "k", ":", "v", ",", "j", ":", "w", "}", ".", "k", "[", "*", "]"},
		{"[", "*", "]", "[", "*", "]", "&&", "*", "[", "*", "]", "==", "[?", "a", "<", "`2`", "]", "[", "*", "]", ".", "[", "x", ",", "y", "]", "[", "*", "]", "||", "!", "(", "[", "*", "]", ")", "[", "*", "]"},
	}
	var baseSxs []string
	baseOff := []int{0}
	for _, b := range bases {
		sx, _ := parseSexpr(strings.Join(b, " "))
		baseSxs = append(baseSxs, sx)
		baseOff = append(baseOff, baseOff[len(baseOff)-1]+len(b)+1)
	}
	nws := len(wsChars) * baseOff[len(bases)]
	wsw := mon.Workload{Name: "whitespace-set", N: nws,
		Do: func(i int, t *mon.Tally) {
			w := wsChars[i%len(wsChars)]
			pos := i / len(wsChars)
			bi := 0
			for pos >= baseOff[bi+1] {
				bi++
			}
			pos -= baseOff[bi]
			base, baseSx := bases[bi], baseSxs[bi]
			var sb strings.Builder
			for k, tk := range base {
				if k == pos {
					sb.WriteString(w)
				} else if k > 0 {
					sb.WriteByte(' ')
				}
				sb.WriteString(tk)
			}
			if pos == len(base) {
				sb.WriteString(w)
			}
			expr := sb.String()
			isWS := w == " " || w == "\t" || w == "\n" || w == "\r"
			t.Eval()
			sx, o := parseSexpr(expr)
			if o.Panicked {
				r.Violate(&mon.Violation{Workload: "whitespace-set", Index: i, API: "Parse", Expr: expr, Expected: "no panic", Observed: o.String(), Class: "whitespace panic"})
				return
			}
			if isWS && (o.Err != nil || sx != baseSx) {
				r.Violate(&mon.Violation{Workload: "whitespace-set", Index: i, API: "Parse", Expr: expr, Expected: "same AST as with single spaces: " + baseSx, Observed: sx + " " + o.String(), Class: "whitespace significant"})
				return
			}
			if !isWS && o.Err == nil && sx == baseSx {
				r.Violate(&mon.Violation{Workload: "whitespace-set", Index: i, API: "Parse", Expr: expr, Expected: strconv.QuoteToASCII(w) + " is not JMESPath whitespace: a syntax error (or at least a different parse)", Observed: sx, Class: "whitespace set too large"})
				return
			}
			t.Nontrivial("ws:" + expr)
		}}
	// several lexemes in ONE expression: state kept by the lexer between lexemes (scratch buffers,
	// positions) must not leak from one name/constant into the next
	pairs := mon.Workload{Name: "lexeme-pairs", N: ns,
		Do: func(i int, t *mon.Tally) {
			s1, s2 := strAt(i), strAt((i*7919+13)%ns)
			type cs struct {
				expr string
				doc  interface{}
				want interface{}
			}
			var cases []cs
			q1, q2 := gen.EncodeString(s1, gen.EncMinimal, nil), gen.EncodeString(s2, gen.EncMinimal, nil)
			l1, l2 := gen.LiteralLexeme(q1), gen.LiteralLexeme(q2)
			cases = append(cases,
				cs{"[" + l1 + ", " + l2 + ", " + l1 + "]", map[string]interface{}{}, []interface{}{s1, s2, s1}},
				cs{"{" + q1 + ": " + l2 + "}", map[string]interface{}{}, map[string]interface{}{s1: s2}})
			if s1 != s2 {
				d := map[string]interface{}{s1: nil, s2: c14Marker}
				if dk := s1 + s2; dk != s1 && dk != s2 {
					d[dk] = "decoy"
				}
				cases = append(cases, cs{q1 + " || " + q2, d, c14Marker})
			}
			if gen.RawSpellable(s1) && gen.RawSpellable(s2) {
				r1, r2 := gen.RawLexeme(s1), gen.RawLexeme(s2)
				cases = append(cases,
					cs{"[" + r1 + ", " + r2 + ", " + r1 + "]", map[string]interface{}{}, []interface{}{s1, s2, s1}},
					cs{r1 + " | [@, " + r2 + "]", nil, []interface{}{s1, s2}},
					cs{"{" + q2 + ": " + r1 + ", k: " + r2 + "}", map[string]interface{}{}, func() interface{} {
						m := map[string]interface{}{s2: s1}
						m["k"] = s2 // a key s2 == "k" is overwritten by the later member, as in the expression
						return m
					}()},
					cs{r1 + " == " + l1 + " && " + r2 + " == " + l2, nil, true})
			}
			// a raw string and a JSON literal with the same text between their delimiters denote different things
			// (the text itself / the value it encodes), in either order, in one expression
			if gen.RawSpellable(q1) && !strings.Contains(q1, "`") {
				cases = append(cases, cs{"[" + gen.RawLexeme(q1) + ", " + l1 + "]", map[string]interface{}{}, []interface{}{q1, s1}},
					cs{"[" + l1 + ", " + gen.RawLexeme(q1) + ", " + l1 + "]", map[string]interface{}{}, []interface{}{s1, q1, s1}})
			}
			if json.Valid([]byte(s1)) && gen.RawSpellable(s1) && !strings.Contains(s1, "`") && strings.TrimSpace(s1) != "" {
				var v interface{}
				if json.Unmarshal([]byte(s1), &v) == nil {
					cases = append(cases, cs{"[" + gen.RawLexeme(s1) + ", `" + s1 + "`]", map[string]interface{}{}, []interface{}{s1, v}},
						cs{"[`" + s1 + "`, " + gen.RawLexeme(s1) + "] | [@[0], @[1]]", map[string]interface{}{}, []interface{}{v, s1}})
				}
			}
			for _, c := range cases {
				t.Eval()
				o := apiSearch(c.expr, c.doc)
				if o.Panicked || o.Err != nil || !ref.Match(c.want, o.V) {
					r.Violate(&mon.Violation{Workload: "lexeme-pairs", Index: i, API: "Search", Expr: c.expr, Doc: c.doc, Expected: ref.Canon(c.want), Observed: o.String(), Class: "several lexemes in one expression"})
					return
				}
			}
			if interesting(s1) && interesting(s2) {
				t.Nontrivial("pair:" + s1 + "\x00" + s2)
			}
		}}
	// a failed lexing / parsing attempt must leave nothing behind for the next expression (pooled or
	// reused lexers): every failing lexeme kind, then the round trips again
	failing := []string{"'it\\'s", "'a\\'b\\'c", "'unterminated", "\"unterminated", "\"a\\\"b", "`unterminated", "`{\\`", "\"\\x\"", "`nul`", "a.'r\\'", "[?a == 'x\\'y", "'\\'", "#", "a ==", ")", "f(", "'a' 'b\\'"}
	after := mon.Workload{Name: "failure-then-success", N: len(failing) * 40,
		Do: func(i int, t *mon.Tally) {
			f := failing[i%len(failing)]
			s1, s2 := strAt((i*131+7)%ns), strAt((i*977+3)%ns)
			t.Eval()
			if o := apiSearch(f, nil); o.Panicked {
				r.Violate(&mon.Violation{Workload: "failure-then-success", Index: i, API: "Search", Expr: f, Expected: "an error", Observed: o.String(), Class: "panic"})
				return
			}
			type cs struct {
				expr string
				doc  interface{}
				want interface{}
			}
			cases := []cs{{"'abc'", nil, "abc"}, {"'it\\'s'", nil, "it's"}}
			if gen.RawSpellable(s1) {
				cases = append(cases, cs{gen.RawLexeme(s1), nil, s1})
			}
			cases = append(cases, cs{gen.EncodeString(s2, gen.EncMinimal, nil), map[string]interface{}{s2: c14Marker}, c14Marker},
				cs{gen.LiteralLexeme(gen.EncodeString(s1, gen.EncMinimal, nil)), nil, s1})
			for k, c := range cases {
				if k == 2 {
					apiSearch(f, nil) // fail again in between
				}
				t.Eval()
				var o mon.Observed
				if k%2 == 0 {
					o = apiSearch(c.expr, c.doc)
				} else {
					o = apiCompiledSearch(c.expr, c.doc)
				}
				if o.Panicked || o.Err != nil || !ref.Match(c.want, o.V) {
					r.Violate(&mon.Violation{Workload: "failure-then-success", Index: i, API: "Search", Expr: c.expr, Doc: c.doc, Expected: ref.Canon(c.want) + "  (evaluated right after the failing expression " + strconv.QuoteToASCII(f) + ")",
						Observed: o.String(), Class: "state left behind by a failed expression"})
					return
				}
			}
			t.Nontrivial("after:" + f + s1)
		}}
	_ = jmespath.Search
	// long names and constants (whatever assembles a string in pieces - an inline buffer with an overflow, chunks between escapes -
	// keeps the pieces in order): runs of plain characters of every length around 64 / 128 / 256 / 4096 before, between and after
	// escaped delimiters and multi-byte characters, through all three layers
	pieceLens := []int{1, 7, 31, 63, 64, 65, 100, 126, 127, 128, 129, 130, 150, 200, 255, 256, 257, 300, 511, 512, 513, 1000, 4095, 4096, 4097, 10000}
	pieceSeps := []string{"'", "\\", "\"", "`", "\u00e9", "\U0001F600", "''", "'\\", "\n", "\\'x"}
	longw := mon.Workload{Name: "long-names-and-constants-assembled-in-pieces", N: len(pieceLens) * len(pieceSeps) * 6, Batch: 50,
		Do: func(i int, t *mon.Tally) {
			L, sep, shape := pieceLens[i/6/len(pieceSeps)], pieceSeps[i/6%len(pieceSeps)], i%6
			run := func(n int, c byte) string { return strings.Repeat(string(c), n) }
			var sv string
			switch shape {
			case 0:
				sv = run(L, 'x') + sep + "tail"
			case 1:
				sv = "a" + sep + run(L, 'y')
			case 2:
				sv = run(L, 'p') + sep + run(L/2+1, 'q') + sep + "r"
			case 3:
				sv = sep + run(L, 'm') + sep
			case 4:
				sv = run(L-1, 'x') + sep + run(3, 'z') + sep + run(L, 'w') + sep + "end"
			default:
				sv = strings.Repeat("ab"+sep, L/4+1)
			}
			type cs struct {
				layer, expr string
				doc, want   interface{}
			}
			var cases []cs
			q := gen.EncodeString(sv, gen.EncMinimal, nil)
			cases = append(cases, cs{"quoted identifier", q, map[string]interface{}{sv: c14Marker, "decoy": 1}, c14Marker}, cs{"literal", gen.LiteralLexeme(q), nil, sv},
				cs{"literal in a list", "[" + gen.LiteralLexeme(q) + ", `1`]", map[string]interface{}{}, []interface{}{sv, float64(1)}})
			if gen.RawSpellable(sv) {
				rl := gen.RawLexeme(sv)
				cases = append(cases, cs{"raw string", rl, nil, sv}, cs{"two raw strings", "[" + rl + ", 'short\\'one', " + rl + "]", map[string]interface{}{}, []interface{}{sv, "short'one", sv}})
			}
			for _, c := range cases {
				for k, o := range []mon.Observed{apiSearch(c.expr, c.doc), apiCompiledSearch(c.expr, c.doc)} {
					t.Eval()
					if o.Panicked || o.Err != nil || !ref.Match(c.want, o.V) {
						r.Violate(&mon.Violation{Workload: "long-names-and-constants-assembled-in-pieces", Index: i, API: []string{"Search", "Compile+Search"}[k], Expr: brief(c.expr), Expected: "the " + c.layer + " denotes exactly what is written: " + brief(strconv.QuoteToASCII(sv)), Observed: brief(o.String()), Class: "long " + c.layer})
						return
					}
				}
			}
			t.Nontrivial("long:" + strconv.Itoa(i))
		}}
	// literals that are deep, and literals that only look deep (brackets and braces inside strings and member names): a literal is
	// the JSON value its text spells, at any depth the text has
	deepD := []int{1, 2, 16, 63, 64, 65, 100, 126, 127, 128, 129, 130, 200, 255, 256, 257, 500, 1000, 2000}
	deepw := mon.Workload{Name: "deep-literals-and-literals-that-only-look-deep", N: len(deepD) * 8, Batch: 20,
		Do: func(i int, t *mon.Tally) {
			d, shape := deepD[i/8], i%8
			var text string
			var want interface{}
			switch shape {
			case 0:
				text, want = strings.Repeat("[", d)+"1"+strings.Repeat("]", d), float64(1)
				for k := 0; k < d; k++ {
					want = []interface{}{want}
				}
			case 1:
				text, want = strings.Repeat(`{"a":`, d)+`"x"`+strings.Repeat("}", d), "x"
				for k := 0; k < d; k++ {
					want = map[string]interface{}{"a": want}
				}
			case 2:
				text, want = strings.Repeat(`[{"k":`, d/2+1)+"null"+strings.Repeat("}]", d/2+1), nil
				for k := 0; k < d/2+1; k++ {
					want = []interface{}{map[string]interface{}{"k": want}}
				}
			case 3:
				sv := strings.Repeat("[", d)
				text, want = `"`+sv+`"`, sv
			case 4:
				sv := strings.Repeat("{[", d) + "]"
				text, want = `["`+sv+`", "`+strings.Repeat("}", d)+`"]`, []interface{}{sv, strings.Repeat("}", d)}
			case 5:
				key := strings.Repeat("[{(", d)
				text, want = `{"`+key+`": [1]}`, map[string]interface{}{key: []interface{}{float64(1)}}
			case 6:
				sv := strings.Repeat("]", d) + strings.Repeat("[", d)
				text, want = `[["`+sv+`"]]`, []interface{}{[]interface{}{sv}}
			default:
				sv := strings.Repeat(`\"[`, d)
				text, want = `"`+sv+`"`, strings.Repeat(`"[`, d)
			}
			lex := gen.LiteralLexeme(text)
			for k, o := range []mon.Observed{apiSearch(lex, nil), apiCompiledSearch("["+lex+"][0]", map[string]interface{}{})} {
				t.Eval()
				if o.Panicked || o.Err != nil || !ref.Match(want, o.V) {
					r.Violate(&mon.Violation{Workload: "deep-literals-and-literals-that-only-look-deep", Index: i, API: []string{"Search", "Compile+Search"}[k], Expr: brief(lex), Expected: "the JSON value the text spells (shape " + strconv.Itoa(shape) + ", depth or length " + strconv.Itoa(d) + ")", Observed: brief(o.String()), Class: "deep literal"})
					return
				}
			}
			t.Nontrivial("deep:" + strconv.Itoa(i))
		}}
	r.Exec(quoted, raw, lit, numw, ident, wsw, pairs, after, longw, deepw)
}

// exactNumbers: every number in got is exactly (not merely nearly) the number at the same place in want.
func exactNumbers(want, got interface{}) bool {
	switch w := want.(type) {
	case float64:
		g, ok := got.(float64)
		return ok && w == g && math.Signbit(w) == math.Signbit(g)
	case []interface{}:
		g, ok := got.([]interface{})
		if !ok || len(g) != len(w) {
			return false
		}
		for i := range w {
			if !exactNumbers(w[i], g[i]) {
				return false
			}
		}
	case map[string]interface{}:
		g, ok := got.(map[string]interface{})
		if !ok {
			return false
		}
		for k, v := range w {
			if !exactNumbers(v, g[k]) {
				return false
			}
		}
	}
	return true
}
