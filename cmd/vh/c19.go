package main

import (
	"bytes"
	"context"
	"encoding/json"
	"fmt"
	"os"
	"os/exec"
	"path/filepath"
	"strings"
	"time"

	"verifharness/docs"
	"verifharness/gen"
	"verifharness/mon"
	"verifharness/ref"
)

// C19 — jpgo prints exactly the library result and signals failure by exit status.

func init() { register("C19", c19) }

type jpRun struct {
	exit     int
	stdout   string
	stderr   string
	timedOut bool
	startErr error
}

// runJpgo runs the binary. With pieces > 1 standard input arrives in that many separate writes with a short
// pause between them (what a pipe from another program looks like), otherwise in one go.
func runJpgo(bin string, args []string, stdin []byte, pieces int) jpRun {
	ctx, cancel := context.WithTimeout(context.Background(), 20*time.Second)
	defer cancel()
	cmd := exec.CommandContext(ctx, bin, args...)
	if pieces > 1 && len(stdin) >= pieces {
		pr, pw, err := os.Pipe()
		if err != nil {
			return jpRun{startErr: err}
		}
		cmd.Stdin = pr
		cuts := []int{0}
		switch pieces {
		case 2:
			cuts = append(cuts, len(stdin)/2)
		case 3:
			cuts = append(cuts, 1, len(stdin)-1)
		default:
			cuts = append(cuts, len(stdin)-1)
		}
		cuts = append(cuts, len(stdin))
		go func() {
			defer pw.Close()
			for k := 0; k+1 < len(cuts); k++ {
				if cuts[k+1] <= cuts[k] {
					continue
				}
				if _, err := pw.Write(stdin[cuts[k]:cuts[k+1]]); err != nil {
					return
				}
				time.Sleep(25 * time.Millisecond)
			}
		}()
		defer pr.Close()
	} else {
		cmd.Stdin = bytes.NewReader(stdin)
	}
	var so, se bytes.Buffer
	cmd.Stdout, cmd.Stderr = &so, &se
	err := cmd.Run()
	r := jpRun{stdout: so.String(), stderr: se.String()}
	if ctx.Err() != nil {
		r.timedOut = true
		return r
	}
	if err != nil {
		if ee, ok := err.(*exec.ExitError); ok {
			r.exit = ee.ExitCode()
		} else {
			r.startErr = err
		}
	}
	return r
}

var c19BadExprs = []string{"`\"a\tb\"`", "`\"line\nbreak\"`", "\"a\tb\"", "a.", "a[", "a b", "[?", "a ||", "{a:", "f(a b)", "&a", "a[0:1:2:3]", "@(x)", "#", "a#", "'abc", "`{`", "\"\\x\"", "=", "a = b", "", " ", "é", "[0", "a..b", ")", "a)", "[a", "*.[", "a[99999999999999999999]",
	// white space that is not JMESPath white space (space, tab, LF, CR), at the ends of an otherwise valid expression: nothing may "repair" it
	"\va", "a\f", "\u00a0a", "a\u00a0", "\u3000a\u3000", "a.b\u0085", "\u2028a", "s\u2029", "\ufeffa", "n\u200b", "\u1680arr", "\u2000a\u2000", "\fa.b[0]\v", "\u2003sort(arr)", "arr[0]\u205f", "\x1fa", "a\x7f",
	// words that are nearly identifiers (a leading digit, a dash, a dot at the end, a non-ASCII letter): no short cut may take them for a member name
	"2fa", "0", "1a", "9_", "007", "1e5", "0x10", "2fa.b", "a.2fa", "a-b", "a.b.", "-a", "n\u00e9", "\u00e9", "a$", "$a", "a.b-c", "1", "00", "1_000"}

var c19Inputs = []struct {
	name  string
	data  string
	valid bool
}{
	{"object", `{"a": {"b": [1, 2, {"c": "x"}]}, "s": "str", "n": -1.5, "t": true, "z": null, "arr": [3, 1, 2], "objs": [{"n": 2, "s": "b"}, {"n": 1, "s": "a"}]}`, true},
	{"array", `[1, "a", null, [2, 3], {"a": 1}]`, true},
	{"string", `"just a string"`, true},
	{"number", `42.5`, true},
	{"true", `true`, true},
	{"null", `null`, true},
	{"members named like sub-commands and flags", `{"version": "1.2.3", "help": {"url": "x"}, "input": "f.json", "ast": 1, "h": true, "v": [1], "file": null, "s": "str", "n": 2, "true": "yes", "null": 0}`, true},
	{"negative integer", `-5`, true},
	{"negative fraction after white space", "  -0.25\n", true},
	{"negative number with an exponent", `-1e3`, true},
	{"negative zero", `-0`, true},
	{"zero", `0`, true},
	{"false", `false`, true},
	{"empty string", `""`, true},
	{"string that is a minus sign", `"-"`, true},
	{"number with a capital exponent and a sign", `1E+2`, true},
	{"array starting with a negative number", `[-1, -2.5e-3, "-"]`, true},
	{"empty object", `{}`, true},
	{"empty array", ` [ ] `, true},
	{"unicode", `{"a": "é😀\u2028", "é": [1]}`, true},
	{"big numbers", `{"a": 1e300, "b": 12345678901234567890, "c": 0.1}`, true},
	{"html chars", `{"a": "<b>&amp;</b>", "s": "<a href=\"x\">&</a>"}`, true},
	{"escape look-alikes", `{"a": "\\u003c is not an escape here", "s": "C:\\u003e\\path \\u0026 \\n \\\\u003c", "t": "{\"x\":\"<\"}", "arr": ["\\u003cb\\u003e", "<", ">", "&", "\u003c", "\\", "\\\\"], "o": {"k<": "<&>", "\\u0026": 1, "q": "\"\\u003e\""}, "n": 1, "objs": [{"n": 1, "s": "<"}, {"n": 2, "s": "\\u003c"}]}`, true},
	{"json in strings", `{"a": "{\"k\": \"\\u003cv\\u003e\"}", "s": "[\"<\", \"\\u0026\"]", "arr": ["\"", "\\\"", "\\u0022"], "n": 0, "t": "\\t\\n\\r\\b\\f\\/"}`, true},
	{"percent signs", `{"a": "50%", "s": "100%% sure %d %s %v %!", "t": "%", "cpu%": 1, "n": {"%s": "%q"}, "arr": ["%", "%%"]}`, true},
	{"control characters", `{"a": "x\u0001y\u007f\u001f", "s": "\u0000\u0008\u000b\u001b[0m\u0085\u2028\ufeff", "t": "tab\there"}`, true},
	{"astral and unprintable", `{"s": "\ud83d\ude00\udb40\udc01\u200b", "a": ["\u0007"]}`, true},
	{"numbers", `{"s": 1e21, "a": -0.0, "n": 1e-7, "t": 9007199254740993, "arr": [1.5e300, 5e-324]}`, true},
	{"invalid utf-8 inside a string", "{\"a\": \"x\xffy\"}", true},
	{"json-like text inside strings", `{"a": "epoch 3, loss: NaN, lr 0.1", "s": "[-Infinity, 0)", "max:Infinity": 1, "arr": ["x, NaN", ":NaN", "[NaN]", ",Infinity", "// not a comment", "/* nor this */", "{'single': 1,}", "0x10", "01", "+1", ".5", "1.", "\\u0000"], "t": ": null, \"k\": [true]", "n": 1, "objs": [{"n": 1, "s": "NaN"}, {"n": 2, "s": "-Infinity"}]}`, true},
	{"numbers with 16 and 17 significant digits", `{"a": [0.1, 0.2], "arr": [1, 2, 2], "n": 3.141592653589793, "s": 1.0000000000000002, "t": 0.30000000000000004, "objs": [{"n": 0.1, "s": "x"}, {"n": 0.7, "s": "y"}, {"n": 1e-7, "s": "z"}], "b": 2.220446049250313e-16, "c": 123456789.12345679}`, true},
	{"nested 45 deep", strings.Repeat(`{"a":[`, 45) + `1` + strings.Repeat(`]}`, 45), true},
	{"a list nested 60 deep", strings.Repeat(`[`, 60) + `"x"` + strings.Repeat(`]`, 60), true},
	{"string document holding a JSON array", `"[]"`, true},
	{"string document holding a JSON object", `"{\"foo\":{\"bar\":1},\"a\":[1,2]}"`, true},
	{"string document holding a JSON number", `"123"`, true},
	{"empty input", ``, false},
	{"trailing form feed", "{\"a\": 1}\f", false},
	{"leading vertical tab", "\v{\"a\": 1}", false},
	{"trailing NEL", "{\"a\": 1}\u0085", false},
	{"trailing no-break space", "[1, 2]\u00a0", false},
	{"leading line separator", "\u2028[1, 2]", false},
	{"trailing ideographic space", "{\"a\": [1]}\u3000", false},
	{"byte order mark", "\ufeff{\"a\": 1}", false},
	{"trailing NUL", "{\"a\": 1}\x00", false},
	{"form feed between tokens", "{\"a\":\f1}", false},
	{"bare NaN member", `{"loss": NaN, "step": 3}`, false},
	{"Infinity element", `[1, Infinity]`, false},
	{"negative Infinity element", `[-Infinity]`, false},
	{"lower-case nan", `{"a": nan}`, false},
	{"line comment", "{\"a\": 1} // done", false},
	{"block comment", `{"a": /* one */ 1}`, false},
	{"hex number", `{"a": 0x10}`, false},
	{"leading zero", `{"a": 01}`, false},
	{"plus sign", `[+1]`, false},
	{"bare fraction", `[.5]`, false},
	{"trailing dot", `[1.]`, false},
	{"unquoted key", `{a: 1}`, false},
	{"trailing comma in object", `{"a": 1,}`, false},
	{"valid with ordinary surrounding whitespace", " \t\r\n{\"a\": [1, 2], \"s\": \"x\"}\n\n\t ", true},
	{"whitespace only", "  \n", false},
	{"truncated", `{"a": [1, 2`, false},
	{"trailing garbage", `{"a": 1} x`, false},
	{"two values", `{"a": 1} {"b": 2}`, false},
	{"not json", `hello world`, false},
	{"single quotes", `{'a': 1}`, false},
	{"trailing comma", `[1, 2,]`, false},
	{"NaN", `NaN`, false},
	{"bare word", `nul`, false},
	{"a number beyond the range of float64", `{"a": 1e400}`, false},
	{"a number beyond the range, nested", `{"a": {"b": [1, 1e309]}, "s": "x"}`, false},
	{"a negative number beyond the range", `-1e400`, false},
	{"a number beyond the range in a list", `[1e999]`, false},
	{"UTF-16LE without a mark", "{\x00\"\x00a\x00\"\x00:\x00 \x002\x00}\x00", false},
	{"UTF-16LE with a mark", "\xff\xfe{\x00\"\x00a\x00\"\x00:\x002\x00}\x00", false},
	{"UTF-16BE without a mark", "\x00{\x00\"\x00a\x00\"\x00:\x002\x00}", false},
	{"UTF-16BE with a mark", "\xfe\xff\x00[\x001\x00,\x002\x00]", false},
	{"UTF-32LE", "[\x00\x00\x001\x00\x00\x00]\x00\x00\x00", false},
	{"UTF-16LE number", "4\x002\x00", false},
	{"Latin-1 bytes in a string", "{\"a\": \"caf\xe9\"}", true},
	{"a UTF-8 mark in the middle", "[1,\xef\xbb\xbf2]", false},
	{"members named like numbers and near-identifiers", `{"2fa": "on", "0": "zero", "1a": 1, "9_": 2, "007": "bond", "1e5": 3, "0x10": 4, "a-b": 5, "-a": 6, "n\u00e9": 7, "a$": 8, "1": [1], "00": {}, "a": {"2fa": true, "b": {}}, "s": "x", "n": 1}`, true},
	{"object followed by a stray closing brace", `{"a": 1}}`, false},
	{"array followed by a stray closing bracket", `[1, 2]]`, false},
	{"string followed by a stray closing brace", `"s" }`, false},
	{"object followed by a stray closing bracket", "{\"a\": {\"b\": [1]}, \"s\": \"x\"}\n]", false},
	{"array followed by a stray closing brace", `[1, 2] }`, false},
	{"number followed by a stray closing bracket", `1]`, false},
	{"null followed by a stray closing brace", `null}`, false},
	{"object followed by a comma", `{"a": 1},`, false},
	{"object followed by a colon", `{"a": 1}:`, false},
	{"array followed by an opening bracket", `[1, 2][`, false},
	{"object followed by a quote", `{"a": 1}"`, false},
	{"object followed by a digit", `{"a": 1}0`, false},
	{"array followed by a minus sign", `[1]-`, false},
	{"a stray closing bracket alone", `]`, false},
	{"value after a first value on the next line", "{\"a\": 1}\n\n[2]", false},
	{"repeated member names", `{"a": 1, "a": {"b": [7]}, "s": "first", "s": "second", "n": 1, "n": 2}`, true},
	{"lone surrogate escapes", `{"a": "\ud800", "s": "x\udc00y", "arr": ["\ud83d", "\ude00"]}`, true},
	{"integers float64 cannot hold", `{"id": 9007199254740993, "a": 9007199254740993, "n": 18446744073709551615, "t": -9007199254740993, "s": 123456789012345678901234567890, "arr": [9007199254740993, 3, 18446744073709551615, -9223372036854775809], "objs": [{"n": 9007199254740993, "s": "big"}, {"n": 1, "s": "small"}]}`, true},
	{"numbers in unusual but valid spellings", `{"a": 1.0, "n": 1e2, "t": 1E-2, "s": -0.0, "arr": [1.50, 100e-2, 0e0, 2.5E+1, 0.000001, 1e-400], "objs": [{"n": 10e-1, "s": "x"}, {"n": 1.000, "s": "y"}]}`, true},
}

func init() {
	// documents larger than a pipe buffer (and than any reasonable read chunk), valid and invalid
	var sb strings.Builder
	sb.WriteString(`{"a": {"b": [1, 2, {"c": "x"}]}, "s": "str", "n": 5, "arr": [`)
	for i := 0; i < 30000; i++ {
		if i > 0 {
			sb.WriteString(", ")
		}
		fmt.Fprintf(&sb, "%d", i%977)
	}
	sb.WriteString(`], "objs": [`)
	for i := 0; i < 4000; i++ {
		if i > 0 {
			sb.WriteString(",")
		}
		fmt.Fprintf(&sb, `{"n": %d, "s": "name-%d"}`, i%13, i)
	}
	sb.WriteString(`]}`)
	big := sb.String()
	c19Inputs = append(c19Inputs,
		struct {
			name  string
			data  string
			valid bool
		}{"large document (%d KiB)", big, true},
		struct {
			name  string
			data  string
			valid bool
		}{"large document followed by garbage", big + " trailing", false},
		struct {
			name  string
			data  string
			valid bool
		}{"large document cut short", big[:len(big)-2], false},
		struct {
			name  string
			data  string
			valid bool
		}{"two large documents", big + "\n" + big, false})
}

func c19(r *mon.Run) {
	r.Rule = "the driver builds cmd/jpgo from the current tree; invocations cross {grammatical expressions from seeded random trees of all fragments and a fixed list, expressions that fail at evaluation time (every error kind), ungrammatical and unlexable expressions} x {valid JSON of every type incl. unicode, HTML-sensitive characters, big numbers, invalid UTF-8 in a string; empty, truncated, trailing garbage, two values, not JSON} x {-input file, stdin, missing file} x {with and without -- before the expression}. " +
		"Oracle: the library itself in the harness process (Search(e, Unmarshal(input))): success => exit 0 and stdout is exactly one JSON text that decodes to that value; any failure => non-zero exit and not one byte on stdout. Non-trivial = distinct invocations with a non-null printed result, plus distinct invocations per failure class."
	r.Floor = 100
	r.Assumptions = []string{"the library result is computed in the harness process from the same build; a wrong library answer is C01..C11's business, not C19's",
		"results that iterate object members are compared up to the member order the specification leaves open"}
	bin := os.Getenv("VH_JPGO")
	if bin == "" {
		r.Inconclusive("VH_JPGO not set: the driver did not build cmd/jpgo")
		return
	}
	tmp, err := os.MkdirTemp(filepath.Dir(bin), "c19-")
	if err != nil {
		r.Inconclusive("cannot create a scratch directory: " + err.Error())
		return
	}
	defer os.RemoveAll(tmp)
	files := make([]string, len(c19Inputs))
	links := make([]string, len(c19Inputs))
	for i, in := range c19Inputs {
		files[i] = filepath.Join(tmp, fmt.Sprintf("in%d.json", i))
		os.WriteFile(files[i], []byte(in.data), 0o644)
		links[i] = filepath.Join(tmp, fmt.Sprintf("l%d", i)) // (a short name: the link's own size differs from the file's)
		os.Symlink(files[i], links[i])
	}
	fixedGood := []string{"a.b[2].c", "arr", "sort(arr)", "objs[*].n", "sort_by(objs, &n)[0].s", "@", "*", "keys(@)", "length(@)", "[0]", "a.b[?@ > `1`]", "to_string(@)", "s", "n", "t", "z", "{x: n, y: s}", "[n, s, `null`]",
		"'<raw>&'", "`{\"k\": [1, 2]}`", "a.b[::-1]", "not_null(z, s)", "type(n)", "max_by(objs, &n)", "join(', ', objs[*].s)", "a || b", "!z", "n < `0`", "\"é\"", "a.\"b\"[0]", "sum(arr)", "avg(arr)", "arr[1:]", "merge(@, {x: `1`})", "keys(@)[0]", "sort(keys(@))", "'50%'", "'%d'", "{p: '%s', q: s}",
		"to_string(o)", "to_string(arr)", "to_string(@)", "'\\u003e'", "'\\u0026amp; \\u003c'", "keys(o)", "to_string(to_string(@))", "join('', arr)", "to_string(objs[*].s)", "o", "t", "[a, s, t]", "to_string(t)", "`\"\\\\u003c\"`", "to_string(`\"<&>\"`)", "to_string(['<', '>', '&'])",
		"join('\t', arr[*].to_string(@))", "contains(s, '\n')", "'a\tb\nc\rd'", "`\"tab\\there\"`", "[`1`,\n\t`2`]\r\n", "{k:\n'v\tw'}", "\"a\" ||\n 'multi\nline'", "sum(a)", "avg(arr)", "avg(objs[*].n)", "sum(objs[*].n)", "[n, s, t, b, c]", "max(a)", "a[0]", "sum(a) == t", "objs[?n > `0.5`].n | [0]", "[[[[[[[[[[[[[[[[[[[[[[[[[[[[[[[[[[[[[[[[@]]]]]]]]]]]]]]]]]]]]]]]]]]]]]]]]]]]]]]]]", "{a:{a:{a:{a:{a:{a:{a:{a:{a:{a:{a:{a:{a:{a:{a:{a:{a:{a:{a:{a:{a:{a:{a:{a:{a:{a:{a:{a:{a:{a:{a:{a:{a:{a:{a:{a:@}}}}}}}}}}}}}}}}}}}}}}}}}}}}}}}}}}}}", "a", "a.a", "[0]", "type(@)", "length(@)", "reverse(@)", "starts_with(@, '[')", "foo.bar", "sort(@)", "join(',', @)", "[0]", "@ == '[]'", "\"max:Infinity\"", "contains(a, 'NaN')", "arr[?contains(@, 'NaN')]", "objs[?s == 'NaN'].n", "length(s)", "keys(@)", "arr[0]", "ends_with(s, ', 0)')",
		// words a command-line program might take for a sub-command or a flag value: here they are field names
		// calls that would fail if they were made, in places this input never reaches: valid expressions, a value from the library
		"s || nosuch(a)", "z && abs()", "missing[*].nosuch(@)", "arr[:0].nosuch(@)", "objs[?n > `99`].abs()", "s || upper(s)", "t || (z && length())", "[s || nosuch(), n]", "{k: z && nosuch(@)}", "not_null(s || abs('x'))", "map(&nosuch(@), `[]`)", "sort_by(`[]`, &abs())", "z.*.nosuch(@)",
		"version", "help", "h", "v", "usage", "completion", "input", "stdin", "file", "filename", "expr", "ast", "true", "false", "null", "test", "run", "env", "list", "get", "jpgo", "version.number", "help || s", "[version, help]", "{version: n, help: s}"}
	evalErr := []string{"abs('x')", "abs()", "nosuchfn(@)", "arr[::0]", "sort_by(objs, &@)", "length(n)", "[abs(s), n]", "objs[*].abs(s)", "merge(@, `1`)", "to_string(&a)", "sum(a)", "max(`[1, \"a\"]`)",
		// one expression per place where the library raises an evaluation error (whatever classifies errors to pick an exit status has a class for each)
		"abs(`1`, `2`)", "not_null()", "merge()", "unknown_function_name(@)", "length(`1`)", "max_by(objs, &s) | max_by(`[{\"k\":1},{\"k\":\"x\"}]`, &k)", "max_by(`[{\"k\":\"x\"},{\"k\":1}]`, &k)", "max_by(`[{\"k\":[1]}]`, &k)", "min_by(`[{\"k\":1},{\"k\":\"x\"}]`, &k)", "min_by(`[{\"k\":\"x\"},{\"k\":2}]`, &k)",
		"min_by(`[{\"k\":null}]`, &k)", "sort_by(`[{\"k\":1},{\"k\":\"x\"}]`, &k)", "sort_by(`[{\"k\":\"x\"},{\"k\":1}]`, &k)", "sort_by(`[{\"k\":1},{\"k\":2},{\"k\":\"x\"},{\"k\":0}]`, &k)", "sort_by(`[{\"k\":true}]`, &k)", "sum(`[1e308, 1e308]`)", "sum([`-1e308`, `-1e308`])", "`[1,2]`[::0]", "arr[1::0]",
		"map(&abs(@), `[1, \"x\"]`)", "sort_by(objs, &abs(s))", "[`1`, `2`][?abs(@) > `1` && length(@) > `0`]", "join(`1`, arr)", "join(',', arr)", "contains(`1`, `1`)", "keys(arr)", "values(s)", "to_number(&a)", "reverse(`1`)", "ceil('x')", "starts_with(s, `1`)", "avg(`[1, \"x\"]`)", "sort(`[1, \"x\"]`)", "min(`[[1]]`)", "merge(@, arr)", "map(a, arr)", "type()", "type(@, @)"}
	// number-sensitive expressions, crossed systematically with the number-heavy inputs and both plain channels (the first invocations of every run):
	// the printed text must be that of the value the library computes from the input as encoding/json decodes it
	numExprs := []string{"type(id)", "id > `0`", "abs(id)", "arr[?@ > `0`]", "sort(arr)", "max(arr)", "sum(arr)", "id == `9007199254740992`", "to_string(id)", "to_number(id)", "ceil(id)", "not_null(id)", "arr[*].type(@)", "avg(arr)",
		"id < `1e300`", "[id][0]", "{k: id}.k | type(@)", "contains(arr, id)", "arr | length(@)", "sort_by(objs, &n)[*].s", "max_by(objs, &n).s", "objs[?n > `1`].s", "a == id", "n", "t", "s", "type(s)", "arr", "floor(n)", "n > t", "[a, n, t, s]", "to_string(@)", "min(arr)", "arr[?@ == `3`]", "type(a)", "a", "abs(s)", "objs[*].n", "to_string(arr)"}
	var numInputs []int
	for k, in := range c19Inputs {
		switch in.name {
		case "integers float64 cannot hold", "numbers in unusual but valid spellings", "numbers", "big numbers", "numbers with 16 and 17 significant digits":
			numInputs = append(numInputs, k)
		}
	}
	nSystematic := len(numExprs) * len(numInputs) * 2
	n := tierPick(r, 4000, 40000)
	w := mon.Workload{Name: "invocations", N: n, Batch: 50,
		Describe: func(i int) string { return fmt.Sprint("invocation ", i) },
		Do: func(i int, t *mon.Tally) {
			rng := gen.DeriveN(r.Seed, "c19", i)
			var expr string
			var tree *gen.Expr
			kind := "valid"
			switch k := i % 10; {
			case k < 3:
				expr = gen.Pick(rng, fixedGood)
			case k < 6:
				g := gen.NewTreeGen(rng)
				g.MaxDepth = 1 + rng.Intn(3)
				g.IllTyped = 0
				g.ExtraKeys = []string{"a", "s", "n", "arr", "objs"}
				tree = g.Expr(0, gen.WAny)
				expr = gen.Spell(tree)
				if strings.HasPrefix(expr, "-") {
					expr = "(" + expr + ")"
				}
			case k < 8:
				expr = gen.Pick(rng, evalErr)
				kind = "evaluation error"
			default:
				expr = gen.Pick(rng, c19BadExprs)
				kind = "invalid expression"
			}
			ii := rng.Intn(len(c19Inputs))
			if i%3 == 0 {
				ii = rng.Intn(36) // favour valid input
			}
			channel := []string{"stdin", "file", "missing file", "file through a symbolic link", "/dev/stdin as the file"}[[]int{0, 0, 1, 1, 1, 2, 3, 3, 4}[rng.Intn(9)]]
			if i < nSystematic {
				expr, tree, kind = numExprs[i%len(numExprs)], nil, "valid"
				ii = numInputs[(i/len(numExprs))%len(numInputs)]
				channel = []string{"stdin", "file"}[i/(len(numExprs)*len(numInputs))]
			}
			in := c19Inputs[ii]
			dashdash := rng.Bool()
			var args []string
			var stdin []byte
			switch channel {
			case "stdin":
				stdin = []byte(in.data)
			case "file":
				args = append(args, "-input", files[ii])
				stdin = []byte(`{"wrong": "stdin must be ignored when -input is given"}`)
			case "file through a symbolic link":
				args = append(args, "-input", links[ii])
				stdin = []byte(`{"wrong": "stdin must be ignored when -input is given"}`)
			case "/dev/stdin as the file":
				args = append(args, "-input", "/dev/stdin")
				stdin = []byte(in.data)
			default:
				args = append(args, "-input", filepath.Join(tmp, "does-not-exist.json"))
			}
			if dashdash || strings.HasPrefix(expr, "-") {
				args = append(args, "--")
			}
			args = append(args, expr)
			// the oracle: the library in this process
			var doc interface{}
			inputOK := channel != "missing file" && json.Unmarshal([]byte(in.data), &doc) == nil
			if channel == "/dev/stdin as the file" && len(in.data) > 60000 {
				inputOK = inputOK && true // (a pipe delivers large inputs in several reads: ReadFile copes)
			}
			var lib mon.Observed
			if inputOK {
				lib = apiSearch(expr, doc)
			}
			expectOK := inputOK && !lib.Panicked && lib.Err == nil
			if kind == "invalid expression" {
				// (these strings are no sentences of the grammar whatever the library's Search makes of them: the property speaks of
				// invalid expressions, not of expressions the library happens to reject)
				expectOK = false
			}
			if expectOK {
				if _, merr := json.Marshal(lib.V); merr != nil {
					expectOK = false
					kind = "unserialisable result"
				}
			}
			t.Eval()
			pieces := 1
			if channel == "stdin" {
				pieces = []int{1, 1, 2, 3, 4}[rng.Intn(5)]
			}
			run := runJpgo(bin, args, stdin, pieces)
			desc := fmt.Sprintf("jpgo %q  input(%s via %s, delivered in %d piece(s))=%q", args, in.name, channel, pieces, brief(in.data))
			if run.timedOut {
				// 20 s without an exit on inputs of this size: try once more before calling it (a loaded machine may be slow,
				// a program that does not terminate stays that way)
				run = runJpgo(bin, args, stdin, pieces)
				if run.timedOut {
					r.Violate(&mon.Violation{Workload: "invocations", Index: i, API: "jpgo", Expr: expr, DocDesc: desc, Expected: "jpgo prints its answer and exits", Observed: "no exit within 20 s, twice", Class: "jpgo does not terminate",
						Extra: map[string]interface{}{"args": args}})
					return
				}
			}
			if run.startErr != nil {
				r.Inconclusive(fmt.Sprintf("invocation %d could not be judged (start error %v)", i, run.startErr))
				return
			}
			viol := func(class, exp, obs string) {
				r.Violate(&mon.Violation{Workload: "invocations", Index: i, API: "jpgo", Expr: expr, DocDesc: desc, Expected: exp, Observed: obs, Class: class,
					Extra: map[string]interface{}{"args": args, "stdin": string(stdin), "stderr": clipStr(run.stderr, 800)}})
			}
			if !expectOK {
				class := kind
				if !inputOK {
					class = "invalid input (" + in.name + ")"
					if channel == "missing file" {
						class = "missing input file"
					}
				} else if kind == "valid" {
					class = "library error on generated expression"
				}
				if run.exit == 0 {
					viol("exit 0 on failure: "+class, "a non-zero exit status ("+class+")", fmt.Sprintf("exit 0, stdout %q", clipStr(run.stdout, 300)))
					return
				}
				if run.stdout != "" {
					viol("stdout on failure: "+class, "nothing on standard output ("+class+")", fmt.Sprintf("exit %d, stdout %q", run.exit, clipStr(run.stdout, 300)))
					return
				}
				t.Nontrivial("fail:" + class + ":" + expr + ":" + in.name + channel)
				t.Count("failure class: " + class)
				return
			}
			if run.exit != 0 {
				viol("non-zero exit on success", "exit 0 and the JSON text of "+mon.Show(lib.V), fmt.Sprintf("exit %d, stderr %q", run.exit, clipStr(run.stderr, 300)))
				return
			}
			var printed interface{}
			if err := json.Unmarshal([]byte(run.stdout), &printed); err != nil {
				viol("stdout is not exactly one JSON text", "the JSON text of "+mon.Show(lib.V), fmt.Sprintf("stdout %q (%v)", clipStr(run.stdout, 300), err))
				return
			}
			same := mon.JSONEqual(printed, normJSON(lib.V))
			if !same && tree != nil {
				res := ref.RefSet(tree, doc, gen.Quirks{})
				if res.Skipped != "" || len(res.Outcomes) > 1 {
					same = agree(res, mon.Observed{V: printed}, mon.Observed{V: normJSON(lib.V)})
				}
			} else if !same && i >= nSystematic && (strings.Contains(expr, "*") || strings.Contains(expr, "keys") || strings.Contains(expr, "values")) {
				same = true // fixed-list expression iterating object members: order is unspecified
				t.Count("not compared: member order")
			}
			if !same {
				viol("printed value differs", "the JSON text of "+mon.Show(lib.V), fmt.Sprintf("stdout %q", clipStr(run.stdout, 400)))
				return
			}
			t.Count("success: printed value equals the library result")
			if lib.V != nil {
				t.Nontrivial("ok:" + expr + ":" + in.name + channel)
			}
			if i%211 == 0 {
				t.Sample(map[string]interface{}{"args": args, "input": in.name, "channel": channel, "stdout": clipStr(run.stdout, 200)})
			}
		}}
	_ = docs.J
	r.Exec(w)
}

// normJSON passes a library result through JSON so that it is comparable
// with what a consumer of jpgo's output sees (invalid UTF-8 replaced, etc.).
func normJSON(v interface{}) interface{} {
	b, err := json.Marshal(v)
	if err != nil {
		return v
	}
	var out interface{}
	if json.Unmarshal(b, &out) != nil {
		return v
	}
	return out
}
