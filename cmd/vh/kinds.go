package main

import (
	"strconv"
	"strings"

	"verifharness/docs"
	"verifharness/gen"
	"verifharness/mon"
	"verifharness/ref"
)

// Kind pairs: one or more representatives of every node kind placed in every single-hole context of the
// grammar (the 38 contexts of C11), and in every context of every context. A defect in how two node kinds
// interact - a literal inside an expression reference inside a filter, a slice of a slice of a projection,
// a call as the head of a sub-expression, the current node handled differently on the right of a
// projection than at the top - needs exactly such a pair or triple. Each tree belongs to one property:
// it contains a function call -> C09; else a logical operator or comparator -> C07; else a projection ->
// C02; else -> C01.

func kindInners() []*gen.Expr {
	a, b, n, s := func() *gen.Expr { return gen.Field("a") }, func() *gen.Expr { return gen.Field("b") }, func() *gen.Expr { return gen.Field("n") }, func() *gen.Expr { return gen.Field("s") }
	return []*gen.Expr{
		a(), s(), gen.Current(), gen.LitJSON("[1,2]"), gen.LitJSON(`{"a":[7]}`), gen.Raw("r"), gen.LitJSON("null"),
		gen.Chain(a(), gen.StField("b")), gen.Chain(a(), gen.StIndex(0)), gen.Chain(a(), gen.StIndex(-1)), gen.Chain(a(), gen.StSliceS("1", "", "")), gen.Chain(a(), gen.StSliceS("", "", "-1")),
		gen.Chain(a(), gen.StListStar()), gen.Chain(a(), gen.StFlatten()), gen.Chain(a(), gen.StFilter(gen.Current())), gen.Chain(a(), gen.StListStar(), gen.StIndex(0)), gen.Chain(nil, gen.StStar()),
		gen.Chain(a(), gen.StSliceS("", "2", ""), gen.StSliceS("1", "", "")), gen.Chain(a(), gen.StFilter(gen.Cmp(">", gen.Current(), gen.LitJSON("1")))), gen.Chain(nil, gen.StStar(), gen.StIndex(0)),
		gen.Not(a()), gen.Or(a(), b()), gen.And(a(), b()), gen.Cmp("==", a(), b()), gen.Cmp("<", n(), gen.LitJSON("2")), gen.Cmp("==", gen.Raw("x"), s()),
		gen.MultiList(a(), b()), gen.MultiHash([]gen.Key{{Name: "k"}, {Name: "j"}}, []*gen.Expr{a(), b()}), gen.Pipe(a(), gen.Chain(nil, gen.StIndex(0))), gen.Paren(a()),
		gen.Chain(gen.MultiList(a()), gen.StIndex(0)), gen.Chain(gen.MultiHash(keyA("k"), []*gen.Expr{a()}), gen.StField("k")), gen.Chain(a(), gen.StMultiList(gen.Current(), gen.Current())),
		gen.Func("length", a()), gen.Func("not_null", a(), b()), gen.Func("type", gen.Current()), gen.Func("to_string", n()), gen.Func("abs", n()), gen.Func("keys", gen.Current()), gen.Func("contains", a(), n()),
		gen.Func("map", gen.ExpRef(gen.Chain(nil, gen.StIndex(0))), a()), gen.Func("max_by", a(), gen.ExpRef(gen.Current())), gen.Func("sort_by", a(), gen.ExpRef(gen.LitJSON("1"))), gen.Func("join", gen.Raw(","), gen.MultiList(s(), b())),
		gen.Chain(a(), gen.StFunc("length", gen.Current())), gen.Chain(gen.Func("to_array", a()), gen.StIndex(0)), gen.Chain(gen.Func("merge", gen.Current(), gen.LitJSON(`{"z":1}`)), gen.StField("z")),
		gen.Chain(a(), gen.StFilter(gen.Func("contains", gen.LitJSON("[3,5]"), gen.Current()))),
		gen.Chain(a(), gen.StFilter(gen.Not(gen.Current()))), gen.Chain(a(), gen.StFilter(gen.Cmp("==", gen.Current(), gen.LitJSON("null")))), gen.Chain(gen.Field("x"), gen.StFilter(a()), gen.StField("missing")),
		gen.Chain(gen.LitJSON("[null, 1, null]"), gen.StFilter(gen.Not(gen.Current()))), gen.Func("length", gen.Chain(gen.LitJSON("[null, 1, null, 0]"), gen.StFilter(gen.Not(gen.Current())))),
		gen.Cmp("<=", s(), s()), gen.Cmp("==", a(), a()), gen.Cmp(">=", gen.Current(), gen.Current()),
		// built from literals only (what a constant folder would take for document-independent)
		gen.MultiList(gen.LitJSON("3"), gen.Raw("r")), gen.MultiHash([]gen.Key{{Name: "k"}, {Name: "j"}}, []*gen.Expr{gen.LitJSON("1"), gen.Raw("x")}), gen.Chain(gen.MultiList(gen.LitJSON("[4]")), gen.StIndex(0)),
		gen.Func("length", gen.Raw("abc")), gen.Cmp("<", gen.LitJSON("1"), gen.LitJSON("2")), gen.Func("type", gen.MultiList(gen.LitJSON("1"))),
	}
}

var kindDocs = []interface{}{
	docs.J(`{"a":[1,2,[3]],"b":"s","s":"str","n":2,"o":{"p":{"a":[1],"b":"x","n":1,"s":"p"},"q":{"a":[],"b":"","n":2,"s":"q"}},"x":[{"a":[3,4],"b":"b1","n":1,"s":"s1"},{"a":[5],"b":"","n":2,"s":"s2"},{"a":null,"b":null,"n":null,"s":null}]}`),
	docs.J(`{"a":{"b":[1,2],"c":null},"b":[0],"s":"","n":-1,"o":{"p":{"a":{"b":1},"b":[],"n":0,"s":"x"}},"x":[{"a":{"b":"deep"},"b":{"b":1},"n":3,"s":"x"},{"a":[[1],[2]],"b":[[1],[2]],"n":1.5,"s":"r"}]}`),
	docs.J(`{"a":"text","b":null,"s":"a,b","n":0,"o":{},"x":[]}`),
}

func kindOwner(tree *gen.Expr) string {
	fn, logic := false, false
	gen.Walk(tree, func(x *gen.Expr) {
		switch x.K {
		case gen.KFunc, gen.KExpRef:
			fn = true
		case gen.KNot, gen.KOr, gen.KAnd, gen.KCmp:
			logic = true
		}
	})
	switch {
	case fn:
		return "C09"
	case logic:
		return "C07"
	case gen.HasProjection(tree):
		return "C02"
	}
	return "C01"
}

// kindPairsWorkload enumerates context x inner (depth 1) and context x context x inner (depth 2) on three
// documents and judges the trees owned by `owner` against the model.
func kindPairsWorkload(r *mon.Run, owner string) mon.Workload {
	ctx := c11Contexts()
	inn := kindInners()
	C, I, D := len(ctx), len(inn), len(kindDocs)
	n1 := C * I
	n2 := C * C * I
	build := func(i int) *gen.Expr {
		k := i / D
		if k < n1 {
			return ctx[k/I].f(inn[k%I])
		}
		k -= n1
		return ctx[k/(C*I)].f(ctx[k/I%C].f(inn[k%I]))
	}
	name := "node-kind-pairs"
	return mon.Workload{Name: name, N: (n1 + n2) * D, Batch: 5000,
		Describe: func(i int) string { return gen.Spell(build(i)) + " on " + ref.Canon(kindDocs[i%D]) },
		Do: func(i int, t *mon.Tally) {
			tree := build(i)
			if kindOwner(tree) != owner {
				return
			}
			doc := kindDocs[i%D]
			expr := gen.Spell(tree)
			cx := &caseCtx{r, t, name, i}
			res, _, _ := cx.runOne(tree, expr, doc)
			if res.Skipped == "" && !res.DontCare {
				t.Count("node-kind pairs and triples judged")
				if nonNull(res) {
					t.Nontrivial("kp:" + strconv.Itoa(i))
				}
			}
		}}
}

// awkwardKeys: member names that read like syntax, contain the delimiters and escapes of the expression language,
// or a dot (with a decoy: the nested path the dotted name would spell if it were split).
var awkwardKeys = append([]string{"", "a.b", "a.b.c", "file.size", "app.kubernetes.io/name", "v1.2", ".", "a.", ".a", "\\", "\\\\", "\"", "\\\"", "a\\\"b", "C:\\\"Program Files\\\"", "\\\\\"", "'", "\\'", "`", "\\`", "a`b\\\"c",
	"\n", "a\tb", "\u00e9", "e\u0301", "\U0001F600", "\\u00e9", "\\n", "\u0080", "\u00ff", "caf\u00e9", "\u00a0", "\u00ff\u0100", "\u007f", "0", "1", "-1", "00", "1.0", "1e0", "\\ud83d", "\\udc00x", "a\\uD800", "\\\\ud83d", "\\u", "\\u12", "x\\ude00\\ud83d", "\\U0001F600", "\\x41", "C:\\temp", "\\t", "\\\\", "\\u0041", "name", "Name", "id", "élan", "Élan", "x-y", "foo-bar", "a-1"}, c14Words...)

// awkwardDoc holds key k with value "own", plus decoys: the nested path a dotted name would mean when split,
// the name trimmed, lower-cased and upper-cased.
func awkwardDoc(k string) map[string]interface{} {
	d := map[string]interface{}{}
	if parts := strings.Split(k, "."); len(parts) > 1 && parts[0] != "" {
		var v interface{} = "decoy-nested"
		for q := len(parts) - 1; q >= 1; q-- {
			v = map[string]interface{}{parts[q]: v}
		}
		d[parts[0]] = v
	}
	title := k
	if rs := []rune(k); len(rs) > 0 {
		if up := strings.ToUpper(string(rs[:1])); up != string(rs[:1]) {
			title = up + string(rs[1:])
		} else {
			title = strings.ToLower(string(rs[:1])) + string(rs[1:])
		}
	}
	for _, alt := range []string{strings.TrimSpace(k), strings.ToLower(k), strings.ToUpper(k), strings.Trim(k, "'\"`"), title} {
		if alt != k {
			d[alt] = "decoy-variant"
		}
	}
	d[k] = "own"
	return d
}
