package main

import (
	"fmt"
	"math"
	"strconv"
	"strings"
	"verifharness/docs"
	"verifharness/gen"
	"verifharness/mon"
	"verifharness/ref"
)

// C09 — each built-in function returns the value its specification defines.

func init() { register("C09", c09) }

func jl(texts ...string) []interface{} {
	out := make([]interface{}, len(texts))
	for i, t := range texts {
		out[i] = docs.J(t)
	}
	return out
}

// arraysOver returns every array of length 0..maxLen over elems.
func arraysOver(elems []interface{}, maxLen int) []interface{} {
	out := []interface{}{[]interface{}{}}
	prev := [][]interface{}{{}}
	for l := 1; l <= maxLen; l++ {
		var cur [][]interface{}
		for _, p := range prev {
			for _, e := range elems {
				a := append(append([]interface{}{}, p...), e)
				cur = append(cur, a)
				out = append(out, a)
			}
		}
		prev = cur
	}
	return out
}

type c09Universe struct {
	nums, strs, numStrs, arrNum, arrStr, objs, anyv, byArrs, mixedArr []interface{}
}

func c09Build() c09Universe {
	var u c09Universe
	u.nums = jl(`-1.5`, `-1`, `-0.0`, `0`, `0.5`, `1`, `2`, `1e3`, `2.5`, `-2.5`, `1e-7`, `123456789012`, `16777217`, `9007199254740993`, `9223372036854775808`, `1e19`, `-1e19`, `18446744073709551616`, `1e20`, `1e21`, `1e300`, `5e-324`)
	u.strs = jl(`""`, `"a"`, `"b"`, `"ab"`, `"ba"`, `"B"`, `"é"`, `"e\u0301"`, `"😀a"`, `"a😀"`, `"abcab"`, `"zé😀"`)
	u.numStrs = jl(`"10"`, `"1e2"`, `"-0"`, `" 1"`, `"1 "`, `"+1"`, `".5"`, `"1."`, `"0x10"`, `"0x1p-2"`, `"1_0"`, `"inf"`, `"-inf"`, `"nan"`, `"NaN"`, `"Infinity"`, `"1e999"`, `"-1e999"`,
		`"-1.5E-2"`, `"01"`, `"1e"`, `"--1"`, `"1.5"`, `"0"`, `"-"`, `""`, `"1e+2"`, `"0.0"`, `"1E5"`, `"\u0663"`, `"1,5"`, `"true"`, `"null"`)
	u.arrNum = arraysOver(jl(`-1`, `1`, `2`), 4)
	u.arrNum = append(u.arrNum, jl(`[0.5,-0.0,0]`, `[1e3,2.5,-2.5,1e3]`, `[3,1,2,1,3,2]`)...)
	u.arrStr = arraysOver(jl(`"a"`, `"b"`, `"é"`, `"B"`), 3)
	u.arrStr = append(u.arrStr, jl(`["😀","z","é","e"]`, `["ab","a","","abc"]`, `["10","9","1e2"]`)...)
	u.mixedArr = jl(`[1,"a",null]`, `[[1],[2]]`, `[{"a":1},{"a":1}]`, `[null]`, `[true,false]`, `[[],{}]`, `[1,[1],"1"]`, `[{"a":[1,{"b":2}]}]`)
	for _, ks := range [][]string{{}, {"a"}, {"b"}, {"a", "b"}, {"a", "c"}, {"a", "b", "c"}} {
		vals := jl(`1`, `"x"`, `null`)
		n := 1
		for range ks {
			n *= len(vals)
		}
		for i := 0; i < n; i++ {
			o := map[string]interface{}{}
			k := i
			for _, key := range ks {
				o[key] = vals[k%len(vals)]
				k /= len(vals)
			}
			u.objs = append(u.objs, o)
		}
	}
	u.anyv = docs.U()
	// arrays of objects {k: key, i: index}: keys tied, distinct, missing
	keysets := [][]string{{`1`, `2`, `-1`}, {`"a"`, `"b"`, `"é"`}}
	for _, ks := range keysets {
		for _, arr := range arraysOver(jl(ks...), 4) {
			a := arr.([]interface{})
			objs := make([]interface{}, len(a))
			for i, k := range a {
				objs[i] = map[string]interface{}{"k": k, "i": float64(i), "n": map[string]interface{}{"k": k}}
			}
			u.byArrs = append(u.byArrs, objs)
		}
	}
	return u
}

type c09Case struct {
	fn   string
	args []interface{} // JSON values, or *gen.Expr for expression references
}

// c09Cases enumerates the well-typed calls.
func c09Cases(u c09Universe, thorough bool) []c09Case {
	var cs []c09Case
	add := func(fn string, args ...interface{}) { cs = append(cs, c09Case{fn, args}) }
	for _, n := range u.nums {
		add("abs", n)
		add("ceil", n)
		add("floor", n)
		add("to_string", n)
		add("to_number", n)
	}
	for _, a := range u.arrNum {
		for _, fn := range []string{"avg", "sum", "max", "min", "sort", "length", "reverse", "to_array", "to_string"} {
			add(fn, a)
		}
		for _, n := range jl(`1`, `-1`, `3`, `"1"`) {
			add("contains", a, n)
		}
	}
	for _, a := range u.arrStr {
		for _, fn := range []string{"max", "min", "sort", "length", "reverse"} {
			add(fn, a)
		}
		for _, g := range jl(`""`, `","`, `"é"`) {
			add("join", g, a)
		}
		for _, n := range jl(`"a"`, `"é"`, `"A"`, `""`) {
			add("contains", a, n)
		}
	}
	for _, a := range u.mixedArr {
		for _, fn := range []string{"length", "reverse", "to_array", "to_string", "type"} {
			add(fn, a)
		}
		for _, n := range jl(`1`, `[1]`, `{"a":1}`, `null`, `[]`, `{}`, `"1"`, `{"a":[1,{"b":2}]}`, `true`) {
			add("contains", a, n)
		}
	}
	strs := append(append([]interface{}{}, u.strs...), u.numStrs[:6]...)
	for _, s := range strs {
		for _, fn := range []string{"length", "reverse", "to_string", "to_array", "type"} {
			add(fn, s)
		}
		for _, s2 := range u.strs {
			add("contains", s, s2)
			add("starts_with", s, s2)
			add("ends_with", s, s2)
		}
	}
	for _, s := range u.numStrs {
		add("to_number", s)
	}
	for _, s := range u.strs {
		add("to_number", s)
	}
	for _, o := range u.objs {
		for _, fn := range []string{"keys", "values", "length", "to_string", "to_array", "type"} {
			add(fn, o)
		}
		add("merge", o)
	}
	for i, o1 := range u.objs {
		for j, o2 := range u.objs {
			if thorough || (i*7+j)%5 == 0 {
				add("merge", o1, o2)
			}
			if (i+j)%11 == 0 {
				add("merge", o1, o2, u.objs[(i*j)%len(u.objs)])
			}
		}
	}
	for _, v := range u.anyv {
		for _, fn := range []string{"type", "to_array", "to_string", "to_number"} {
			add(fn, v)
		}
		add("not_null", v)
		for _, w := range jl(`null`, `0`, `"a"`, `[]`) {
			add("not_null", v, w)
			add("not_null", docs.J(`null`), v, w)
		}
	}
	erefs := []*gen.Expr{gen.Field("k"), gen.Chain(gen.Field("n"), gen.StField("k")), gen.Field("i")}
	for _, a := range u.byArrs {
		for _, e := range erefs {
			add("sort_by", a, gen.ExpRef(e))
			add("max_by", a, gen.ExpRef(e))
			add("min_by", a, gen.ExpRef(e))
		}
		add("map", gen.ExpRef(gen.Field("k")), a)
		add("map", gen.ExpRef(gen.Field("missing")), a)
		add("map", gen.ExpRef(gen.MultiList(gen.Field("i"), gen.Field("k"))), a)
	}
	for _, a := range u.arrNum {
		add("sort_by", a, gen.ExpRef(gen.Current()))
		add("max_by", a, gen.ExpRef(gen.Current()))
		add("min_by", a, gen.ExpRef(gen.Func("abs", gen.Current())))
		add("sort_by", a, gen.ExpRef(gen.Func("abs", gen.Current())))
		add("map", gen.ExpRef(gen.Func("abs", gen.Current())), a)
		add("map", gen.ExpRef(gen.Cmp(">", gen.Current(), gen.LitJSON("0"))), a)
	}
	for _, a := range u.arrStr {
		add("sort_by", a, gen.ExpRef(gen.Current()))
		add("max_by", a, gen.ExpRef(gen.Current()))
		add("min_by", a, gen.ExpRef(gen.Func("length", gen.Current())))
		add("sort_by", a, gen.ExpRef(gen.Func("length", gen.Current())))
	}
	return cs
}

func c09Tree(c c09Case, fromDoc bool) (*gen.Expr, interface{}) {
	doc := map[string]interface{}{"k": "decoy"}
	args := make([]*gen.Expr, len(c.args))
	for j, a := range c.args {
		if e, ok := a.(*gen.Expr); ok {
			args[j] = e
			continue
		}
		if fromDoc {
			key := "p" + string(rune('0'+j))
			doc[key] = a
			args[j] = gen.Field(key)
		} else {
			args[j] = gen.LitVal(a)
		}
	}
	return gen.Func(c.fn, args...), doc
}

func c09(r *mon.Run) {
	r.Rule = "per function, exhaustive over a typed universe sized to its signature: 24 numbers (incl. -0, fractions, integers around 2^24, 2^53, 2^63, 2^64, 1e21, the float range ends), 12 strings (empty, ASCII, precomposed and decomposed é, astral), 33 number-like strings for to_number (JSON numbers and near misses: +1 .5 1. 0x10 0x1p-2 1_0 inf nan Infinity 1e999 …), every array over {-1,1,2} up to length 4 and over {a,b,é,B} up to length 3 (ties, duplicates), mixed/nested arrays, every object over keys a,b,c with values 1,\"x\",null (merge with 1-3 arguments, colliding keys), " +
		"every array of up to 4 objects with tied / distinct number or string keys for sort_by, max_by, min_by, map (elements tagged with their index so stability and first-extremum are observable); arguments written as literals, read from the document, and read from a document whose arrays are Go-typed slices (docs.Typify); every call template in each of the 38 single-hole contexts of the grammar; contains / starts_with / ends_with / join / reverse / length / sort / max / min over every ordered pair of 40 strings chosen by relation (prefix, suffix, infix, equal, longer needle, overlapping repeats, separator inside an element, combining marks, astral, 300-byte runs); each call also nested in seeded random contexts; every function x 16 call shapes x 25 element patterns x 36 array lengths on and around internal thresholds (sized.go). " +
		"node-kind pairs: 49 representatives of every node kind in each of the 38 single-hole grammar contexts and in every context of every context, on 3 documents (the trees this property owns: a function call). Oracle: ref function semantics (relational for to_string: any JSON text that decodes back; keys/values: any permutation). Non-trivial = distinct (expression, document) with a non-error expected result; per-function counts in the evidence."
	r.Exhaustive = true
	r.Floor = 3000
	r.Assumptions = []string{"function semantics as in DESIGN Appendix A (written from the JMESPath function specification; calibrated on the 126 value cases of functions.json)",
		"contains(string, non-string) is left open by the specification: only 'no panic' is required there"}
	u := c09Build()
	cs := c09Cases(u, r.Tier == "thorough")
	exh := mon.Workload{Name: "typed-universe", N: len(cs) * 2, Batch: 2000,
		Describe: func(i int) string { tr, d := c09Tree(cs[i/2], i%2 == 1); return gen.Spell(tr) + " on " + ref.Canon(d) },
		Do: func(i int, t *mon.Tally) {
			c := cs[i/2]
			tree, doc := c09Tree(c, i%2 == 1)
			expr := gen.Spell(tree)
			cx := &caseCtx{r, t, "typed-universe", i}
			res, _, _ := cx.runBoth(tree, expr, doc)
			if !isErr(res) && !res.DontCare && res.Skipped == "" {
				t.NontrivialDistinct(1)
				t.Count("well-typed calls of " + c.fn)
				t.Set("functions exercised with a value result", c.fn)
			} else if isErr(res) {
				t.Count("calls the model rejects (by-expression key errors etc.)")
			}
			if i%3001 == 0 {
				t.Sample(map[string]interface{}{"expression": expr, "document": doc, "expected": expectedString(res)})
			}
		}}
	// the same matrix with the arguments read from a document whose arrays are Go-typed slices ([]float64,
	// []string, []map[string]interface{}, [][]float64 …): an array is an array whatever its Go type
	typed := mon.Workload{Name: "typed-slice-arguments", N: len(cs), Batch: 2000,
		Describe: func(i int) string {
			tr, d := c09Tree(cs[i], true)
			return gen.Spell(tr) + " on the typed-slice form of " + ref.Canon(d)
		},
		Do: func(i int, t *mon.Tally) {
			tree, doc := c09Tree(cs[i], true)
			expr := gen.Spell(tree)
			res := ref.RefSet(tree, doc, gen.Quirks{})
			t.Eval()
			if res.Skipped != "" || res.DontCare {
				return
			}
			if cs[i].fn == "contains" && len(cs[i].args) == 2 {
				switch cs[i].args[1].(type) {
				case []interface{}, map[string]interface{}:
					// equality between an element kept as a typed slice and a converted needle is a matter of
					// Go representation, which no property fixes (C18 claims navigation and 'no panic' only)
					t.Count("skipped: contains() with an array or object needle on typed slices")
					return
				}
			}
			td := docs.Typify(mon.DeepCopy(doc))
			if mon.Snapshot(td) == mon.Snapshot(doc) {
				t.Count("typed-slice form identical to the generic form (no homogeneous array)")
				return
			}
			o := apiSearch(expr, td)
			if !o.Panicked && o.Err == nil {
				o.V = docs.ToGeneric(o.V, false)
			}
			if !matches(res, o) {
				r.Violate(&mon.Violation{Workload: "typed-slice-arguments", Index: i, API: "Search", Expr: expr, Doc: doc,
					DocDesc:  "typed-slice form (docs.Typify) of " + ref.Canon(doc) + " = " + clipStr(mon.Snapshot(td), 300),
					Expected: expectedString(res), Observed: o.String(), Class: "typed-slice-arguments: " + cs[i].fn + " differs on a typed slice"})
				return
			}
			t.Count("typed-slice calls agreeing")
			t.Nontrivial("ts:" + expr + ref.Canon(doc))
		}}
	// every call template in every single-hole context of the grammar (the 38 contexts of C11): a function
	// meeting a particular projection kind, operator side or expression-reference body
	cbase := c06BaseDoc()
	cbase["a"], cbase["x"] = cbase["an"], cbase["ao"]
	var ccalls []*gen.Expr
	ccalls = append(ccalls, c06Calls(false, cbase)...)
	ccalls = append(ccalls, c06Calls(true, cbase)...)
	cctx := c11Contexts()
	every := mon.Workload{Name: "calls-in-every-context", N: len(ccalls) * len(cctx), Batch: 500,
		Describe: func(i int) string { return gen.Spell(cctx[i%len(cctx)].f(ccalls[i/len(cctx)])) },
		Do: func(i int, t *mon.Tally) {
			tree := cctx[i%len(cctx)].f(ccalls[i/len(cctx)])
			expr := gen.Spell(tree)
			cx := &caseCtx{r, t, "calls-in-every-context", i}
			res, _, _ := cx.runBoth(tree, expr, cbase)
			if !isErr(res) && !res.DontCare && res.Skipped == "" {
				t.Nontrivial("every:" + expr)
				t.Count("calls in a grammar context with a value expected")
			}
		}}
	// every argument of every call template handed over by another construct (a parenthesis, `@.`, an index into a multi-select, a
	// member of a multi-select hash, a pipe, not_null, ||, &&, a projection, a slice, a flatten, map, a double reverse, to_array, a
	// filter that keeps everything, values() of a one-member hash, max_by over a one-element list): the function sees the value the
	// construct yields (for an array that may be a copy without its nulls), never something the construct left half-built
	producers := argProducers()
	pcalls := c06Calls(false, cbase)
	type pcase struct{ call, arg, prod int }
	var pcs []pcase
	for ci, c := range pcalls {
		for ai, a := range c.Items {
			if a.K == gen.KExpRef {
				continue
			}
			for pi := range producers {
				pcs = append(pcs, pcase{ci, ai, pi})
			}
		}
	}
	prodw := mon.Workload{Name: "arguments-produced-by-other-constructs", N: len(pcs), Batch: 500,
		Do: func(i int, t *mon.Tally) {
			c := pcs[i]
			tree := gen.Clone(pcalls[c.call])
			tree.Items[c.arg] = producers[c.prod](tree.Items[c.arg])
			cx := &caseCtx{r, t, "arguments-produced-by-other-constructs", i}
			res, _, _ := cx.runBoth(tree, gen.Spell(tree), cbase)
			if !isErr(res) && !res.DontCare && res.Skipped == "" {
				t.Nontrivial("prod:" + strconv.Itoa(i))
				t.Count("calls with a produced argument and a value expected")
			}
		}}
	// string relations: every ordered pair of strings chosen for how they relate (prefix, suffix, infix, equal, longer
	// needle than haystack, overlapping repeats, the separator inside an element, multi-byte boundaries, 300-byte runs)
	long := strings.Repeat("ab", 150)
	srel := []string{"", "a", "ab", "abc", "abcd", "b", "bc", "c", "abab", "aba", "ba", "aab", "aa", "é", "e", "e\u0301", "éa", "aé", "😀", "😀a", "a😀", "A", "aB", " ", "a ", " a", ",", "a,b", ",a", "a,", "a\x00b", "\n", "ab\n",
		long, long[:298], long + "a", "b" + long, "\u00e9\u0301", "ß", "ss", "\uffff", "\ue000", "\ufb01", "\U00010000", "\U0010FFFF", "\U00100000a", "\U000FFFFF\U00100000", "\U0010FFFD\U0001F600", "\uffffa", "\U0001F600z", "Z", "z", "a\u0300", "\u00e0"}
	NS := len(srel)
	strw := mon.Workload{Name: "string-relations", N: NS * NS * 5, Batch: 2000,
		Do: func(i int, t *mon.Tally) {
			x, y := srel[i/5%NS], srel[i/5/NS]
			doc := map[string]interface{}{"x": x, "y": y, "arr": []interface{}{x, y, x}, "one": []interface{}{x}}
			X, Y := gen.Field("x"), gen.Field("y")
			var tree *gen.Expr
			switch i % 5 {
			case 0:
				tree = gen.Func("contains", X, Y)
			case 1:
				tree = gen.Func("starts_with", X, Y)
			case 2:
				tree = gen.Func("ends_with", X, Y)
			case 3:
				tree = gen.MultiList(gen.Func("join", Y, gen.Field("arr")), gen.Func("join", Y, gen.Field("one")), gen.Func("contains", gen.Field("arr"), Y))
			default:
				tree = gen.MultiList(gen.Func("reverse", X), gen.Func("length", X), gen.Func("sort", gen.Field("arr")), gen.Func("max", gen.Field("arr")), gen.Func("min", gen.Field("arr")), gen.Cmp("==", X, Y))
			}
			expr := gen.SpellTight(tree)
			cx := &caseCtx{r, t, "string-relations", i}
			cx.runBoth(tree, expr, doc)
			t.Nontrivial("srel:" + strconv.Itoa(i))
		}}
	// to_string of values holding strings that look like escapes or markup: the JSON text must decode back to the
	// argument whatever an encoder (or a post-processing step) makes of \u003c, &, backslashes, quotes, control
	// characters, line separators
	tricky := []string{"<", ">", "&", "<b>&amp;</b>", "\\u003c", "\\u003e \\u0026", "\\\\u003c", "\\", "\\\\", "\"", "\\\"", "\\n", "\n", "\t", "\r\n", "\x00", "\x1f", "\x7f", "\u2028", "\u2029", "\ufeff", "\ufffd", "/", "\\/", "</script>",
		"é", "\\u00e9", "😀", "\\ud83d\\ude00", "%s %d %%", "{\"k\": \"\\u003cv\\u003e\"}", "[\"<\"]", "null", "true", "1e5", "", " ", "'", "`", "\\'", "\\`"}
	trw := mon.Workload{Name: "to_string-of-tricky-strings", N: len(tricky) * 8,
		Do: func(i int, t *mon.Tally) {
			sv := tricky[i/8]
			var v interface{}
			switch i % 8 {
			case 0:
				v = sv
			case 1:
				v = []interface{}{sv}
			case 2:
				v = map[string]interface{}{"k": sv}
			case 3:
				v = map[string]interface{}{sv: float64(1)}
			case 4:
				v = map[string]interface{}{sv: []interface{}{sv, map[string]interface{}{sv: sv}}}
			case 5:
				v = []interface{}{sv, "<" + sv + ">", sv + sv}
			case 6:
				v = []interface{}{[]interface{}{[]interface{}{sv}}}
			default:
				v = map[string]interface{}{"a": sv, "b": "&" + sv, "c": nil}
			}
			doc := map[string]interface{}{"v": v}
			for k, tree := range []*gen.Expr{gen.Func("to_string", gen.Field("v")), gen.Func("to_string", gen.Func("to_string", gen.Field("v"))), gen.Func("to_string", gen.LitVal(v)),
				gen.Func("length", gen.Func("to_string", gen.Field("v"))), gen.Func("join", gen.Raw(""), gen.MultiList(gen.Func("to_string", gen.Field("v"))))} {
				cx := &caseCtx{r, t, "to_string-of-tricky-strings", i*8 + k}
				cx.idx = i
				cx.runBoth(tree, gen.Spell(tree), doc)
			}
			t.Nontrivial("tricky:" + strconv.Itoa(i))
		}}
	// awkward member names as the key expression of map / sort_by / max_by / min_by (and as plain arguments):
	// &"a.b" reads the member called a.b, not b inside a
	akw := mon.Workload{Name: "awkward-keys-in-expression-references", N: len(awkwardKeys) * 8,
		Do: func(i int, t *mon.Tally) {
			k := awkwardKeys[i/8]
			mk := func(v interface{}, q int) map[string]interface{} {
				d := awkwardDoc(k)
				d[k] = v
				d["i"] = float64(q)
				return d
			}
			rows := []interface{}{mk(float64(2), 0), mk(float64(1), 1), mk(float64(3), 2)}
			doc := map[string]interface{}{"rows": rows, "o": map[string]interface{}{"inner": mk("str", 9)}}
			K := gen.QField(k)
			R := gen.Field("rows")
			var tree *gen.Expr
			switch i % 8 {
			case 0:
				tree = gen.Func("map", gen.ExpRef(K), R)
			case 1:
				tree = gen.Chain(gen.Func("sort_by", R, gen.ExpRef(K)), gen.StListStar(), gen.StField("i"))
			case 2:
				tree = gen.Chain(gen.Func("max_by", R, gen.ExpRef(K)), gen.StField("i"))
			case 3:
				tree = gen.Chain(gen.Func("min_by", R, gen.ExpRef(K)), gen.StField("i"))
			case 4:
				tree = gen.Func("map", gen.ExpRef(gen.Chain(gen.Current(), gen.StQField(k))), R)
			case 5:
				tree = gen.Func("length", gen.Chain(gen.Field("o"), gen.StField("inner"), gen.StQField(k)))
			case 6:
				tree = gen.Func("sort", gen.Chain(R, gen.StListStar(), gen.StQField(k)))
			default:
				tree = gen.Func("map", gen.ExpRef(gen.MultiList(K, gen.Field("i"))), R)
			}
			cx := &caseCtx{r, t, "awkward-keys-in-expression-references", i}
			cx.runBoth(tree, gen.SpellTight(tree), doc)
			t.Nontrivial("ak:" + strconv.Itoa(i))
		}}
	// to_number on and around the edges of the machine number formats, alone and where its value decides something else
	edgeForms := 17
	edgew := mon.Workload{Name: "to_number-at-the-edges-of-the-number-formats", N: len(edgeNumberStrings) * edgeForms, Batch: 200,
		Describe: func(i int) string { return edgeNumberStrings[i/edgeForms] },
		Do: func(i int, t *mon.Tally) {
			sv := edgeNumberStrings[i/edgeForms]
			doc := map[string]interface{}{"a": sv, "x": []interface{}{map[string]interface{}{"id": "1", "i": float64(0)}, map[string]interface{}{"id": sv, "i": float64(1)}, map[string]interface{}{"id": "-1", "i": float64(2)}}}
			a, id := gen.Field("a"), gen.Func("to_number", gen.Field("id"))
			nz := func() *gen.Expr { return gen.Func("not_null", gen.Func("to_number", gen.Field("a")), gen.LitJSON("0")) }
			neg := func() *gen.Expr { return gen.Func("not_null", gen.Func("to_number", gen.Field("m")), gen.LitJSON("0")) }
			doc["m"] = "-" + strings.TrimPrefix(sv, "-")
			if strings.HasPrefix(sv, "-") {
				doc["m"] = strings.TrimPrefix(sv, "-")
			}
			var tree *gen.Expr
			switch i % edgeForms {
			case 0:
				tree = gen.Func("to_number", gen.Raw(sv))
			case 1:
				tree = gen.Func("to_number", a)
			case 2:
				tree = gen.MultiList(gen.Func("to_number", a), gen.Func("type", gen.Func("to_number", a)))
			case 3:
				tree = gen.Chain(gen.Func("sort_by", gen.Field("x"), gen.ExpRef(gen.Func("not_null", id, gen.LitJSON("0")))), gen.StListStar(), gen.StField("i"))
			case 4:
				tree = gen.Chain(gen.Func("max_by", gen.Field("x"), gen.ExpRef(gen.Func("not_null", id, gen.LitJSON("0")))), gen.StField("i"))
			case 5:
				tree = gen.Cmp("==", gen.Func("to_number", a), gen.Func("to_number", gen.Raw(sv)))
			case 6:
				tree = gen.Cmp(">", gen.Func("to_number", a), gen.LitJSON("0"))
			case 7:
				tree = gen.Func("abs", gen.Func("not_null", gen.Func("to_number", a), gen.LitJSON("0")))
			case 8:
				tree = gen.Func("to_number", gen.Func("to_string", gen.Func("to_number", a)))
			case 9:
				tree = gen.Func("map", gen.ExpRef(id), gen.Field("x"))
			case 10:
				tree = gen.Func("to_string", gen.Func("to_number", a))
			case 11:
				tree = gen.Chain(gen.Field("x"), gen.StFilter(gen.Cmp(">=", id, gen.Func("to_number", gen.Raw(sv)))), gen.StField("i"))
			case 12:
				tree = gen.Func("sum", gen.MultiList(nz(), nz()))
			case 13:
				tree = gen.Func("avg", gen.MultiList(nz(), nz()))
			case 14:
				tree = gen.Func("sum", gen.MultiList(nz(), nz(), gen.LitJSON("1"), neg(), neg()))
			case 15:
				tree = gen.Func("avg", gen.MultiList(nz(), nz(), nz(), gen.LitJSON("-1")))
			default:
				tree = gen.MultiList(gen.Func("sum", gen.MultiList(nz(), nz(), neg())), gen.Func("avg", gen.MultiList(neg(), neg())), gen.Func("sum", gen.MultiList(neg(), neg())))
			}
			cx := &caseCtx{r, t, "to_number-at-the-edges-of-the-number-formats", i}
			res, _, _ := cx.runBoth(tree, gen.SpellTight(tree), doc)
			if nonNull(res) {
				t.Nontrivial("edge:" + strconv.Itoa(i))
			}
		}}
	// contains() over every ordered pair of the deep-equality universe: the element and the probe from the document, as literals,
	// the element first / last / among others
	EU := len(eqUniverseTexts)
	euVals := make([]interface{}, EU)
	for k, tx := range eqUniverseTexts {
		euVals[k] = docs.J(tx)
	}
	cuw := mon.Workload{Name: "contains-over-the-deep-equality-universe", N: EU * EU * 5, Batch: 2000,
		Do: func(i int, t *mon.Tally) {
			form, k := i%5, i/5
			x, y := k/EU, k%EU
			doc := map[string]interface{}{"a": euVals[x], "b": euVals[y], "rows": []interface{}{map[string]interface{}{"v": "first"}, map[string]interface{}{"v": euVals[y]}, map[string]interface{}{"v": float64(7)}}, "arr": []interface{}{euVals[y]}, "last": []interface{}{"s", float64(1), nil, euVals[y]}}
			var tree *gen.Expr
			switch form {
			case 0:
				tree = gen.Func("contains", gen.Field("arr"), gen.Field("a"))
			case 1:
				tree = gen.Func("contains", gen.LitJSON("["+eqUniverseTexts[y]+"]"), gen.LitJSON(eqUniverseTexts[x]))
			case 2:
				tree = gen.Func("contains", gen.Chain(gen.Field("rows"), gen.StListStar(), gen.StField("v")), gen.Field("a"))
			case 3:
				tree = gen.Func("contains", gen.Field("last"), gen.LitJSON(eqUniverseTexts[x]))
			default:
				tree = gen.Chain(gen.Field("rows"), gen.StFilter(gen.Func("contains", gen.MultiList(gen.Field("v")), gen.LitJSON(eqUniverseTexts[x]))), gen.StField("v"))
			}
			cx := &caseCtx{r, t, "contains-over-the-deep-equality-universe", i}
			cx.runOne(tree, gen.Spell(tree), doc)
			t.NontrivialDistinct(1)
		}}
	// sort keeps numbers that compare equal in their input order (0 and -0 are the only such pair that can be told apart), for
	// every length around the usual thresholds of sorting routines; the same for sort_by over plain numbers and for the element
	// max_by / min_by pick among equal keys
	zl := []int{2, 3, 4, 5, 7, 8, 11, 12, 13, 14, 16, 17, 20, 24, 31, 32, 33, 50, 64, 65, 100, 128, 129, 257, 600}
	zsw := mon.Workload{Name: "sort-keeps-zeros-of-either-sign-in-input-order", N: len(zl) * 12 * 3, Batch: 50,
		Do: func(i int, t *mon.Tally) {
			L, pat, form := zl[i/36], (i/3)%12, i%3
			rng := gen.DeriveN(r.Seed, "c09zeros", i/3)
			arr := make([]interface{}, L)
			var want []bool // sign bits of the zeros in input order
			for k := range arr {
				v := float64(0)
				switch {
				case pat < 4 && rng.Intn(2+pat) != 0, pat >= 4 && pat < 8 && k%(pat-2) != 0, pat >= 8 && rng.Intn(3) == 0:
					v = float64(rng.Intn(9) - 3)
				}
				if v == 0 && rng.Bool() {
					v = math.Copysign(0, -1)
				}
				if v == 0 {
					want = append(want, math.Signbit(v))
				}
				arr[k] = v
			}
			expr := []string{"sort(@)", "sort_by(@, &@)", "sort(a)"}[form]
			var doc interface{} = arr
			if form == 2 {
				doc = map[string]interface{}{"a": arr}
			}
			for q, o := range []mon.Observed{apiSearch(expr, mon.DeepCopy(doc)), apiCompiledSearch(expr, mon.DeepCopy(doc))} {
				t.Eval()
				api := []string{"Search", "Compile+Search"}[q]
				out, ok := o.V.([]interface{})
				bad := ""
				if o.Panicked || o.Err != nil || !ok || len(out) != L {
					bad = "not a list of the same length"
				} else {
					var got []bool
					for k, e := range out {
						f, isf := e.(float64)
						if !isf || (k > 0 && f < out[k-1].(float64)) {
							bad = "not ascending numbers"
							break
						}
						if f == 0 {
							got = append(got, math.Signbit(f))
						}
					}
					if bad == "" && fmt.Sprint(got) != fmt.Sprint(want) {
						bad = fmt.Sprintf("the zeros come out with signs %v (true = -0), they went in as %v", got, want)
					}
				}
				if bad != "" {
					r.Violate(&mon.Violation{Workload: "sort-keeps-zeros-of-either-sign-in-input-order", Index: i, API: api, Expr: expr, Doc: doc,
						Expected: "the numbers in ascending order, numbers that compare equal (0 and -0) in their input order: the sort is stable", Observed: o.String(), Detail: bad, Class: "sort is not stable for 0 and -0"})
					return
				}
			}
			t.Count("sorts of lists holding zeros of both signs")
			t.Nontrivial("zs:" + strconv.Itoa(i))
		}}
	// by-functions over elements that print alike and are not alike ("1" and 1, "null" and null, "[1,2,3]" and [1,2,3] ...), with key
	// expressions that tell them apart: each element gets the key of what it is, in every order and at every position
	lk := []interface{}{"1", float64(1), "true", true, "null", nil, "[1,2,3]", []interface{}{float64(1), float64(2), float64(3)}, `{"a":1}`, map[string]interface{}{"a": float64(1)}, "[]", []interface{}{}, "0", float64(0), "-1", float64(-1), "1.5", 1.5, "\"x\"", "x"}
	lkKeys := []func() *gen.Expr{
		func() *gen.Expr { return gen.Func("type", gen.Current()) }, func() *gen.Expr { return gen.Func("length", gen.Func("type", gen.Current())) },
		func() *gen.Expr { return gen.Func("to_string", gen.Func("type", gen.Current())) }, func() *gen.Expr {
			return gen.Func("length", gen.Func("to_string", gen.Func("to_array", gen.Current())))
		},
	}
	lkFns := []string{"sort_by", "max_by", "min_by", "map"}
	lkw := mon.Workload{Name: "by-functions-over-look-alike-elements", N: len(lk) / 2 * len(lkKeys) * len(lkFns) * 12, Batch: 200,
		Do: func(i int, t *mon.Tally) {
			shape := i % 12
			k := i / 12
			fnm := lkFns[k%len(lkFns)]
			k /= len(lkFns)
			key := lkKeys[k%len(lkKeys)]()
			p := k / len(lkKeys) // the pair
			s0, v0 := lk[2*p], lk[2*p+1]
			q := (p + 1 + shape/4) % (len(lk) / 2)
			s1, v1 := lk[2*q], lk[2*q+1]
			var arr []interface{}
			switch shape % 4 {
			case 0:
				arr = []interface{}{s0, v0}
			case 1:
				arr = []interface{}{v0, s0}
			case 2:
				arr = []interface{}{s0, v1, v0, s1, s0, v0}
			default:
				arr = []interface{}{v1, v0, s1, s0, v0, v1, s0}
			}
			var tree *gen.Expr
			if fnm == "map" {
				tree = gen.Func("map", gen.ExpRef(key), gen.Field("a"))
			} else {
				tree = gen.Func(fnm, gen.Field("a"), gen.ExpRef(key))
			}
			cx := &caseCtx{r, t, "by-functions-over-look-alike-elements", i}
			cx.runBoth(tree, gen.SpellTight(tree), map[string]interface{}{"a": arr})
			t.NontrivialDistinct(1)
		}}
	// calls on what another call hands back (an element chosen by max_by, the list itself through to_array / not_null / ||), written
	// TWICE in one expression and under the contexts that evaluate their hole more than once: the second evaluation sees what the first saw
	hbTrees := c06HandBacks(false)
	hbw := mon.Workload{Name: "calls-on-hand-backs-evaluated-twice", N: len(hbTrees) * 3, Batch: 200,
		Do: func(i int, t *mon.Tally) {
			hb := hbTrees[i/3]
			var tree *gen.Expr
			switch i % 3 {
			case 0:
				tree = gen.MultiList(gen.Clone(hb), gen.Clone(hb))
			case 1:
				tree = gen.Func("map", gen.ExpRef(gen.Clone(hb)), gen.LitJSON("[1,2,3]"))
			default:
				tree = gen.MultiHash([]gen.Key{{Name: "p"}, {Name: "q"}, {Name: "r"}}, []*gen.Expr{gen.Clone(hb), gen.Field("an"), gen.Clone(hb)})
			}
			cx := &caseCtx{r, t, "calls-on-hand-backs-evaluated-twice", i}
			res, _, _ := cx.runBoth(tree, gen.Spell(tree), cbase)
			if nonNull(res) {
				t.Nontrivial("hb2:" + strconv.Itoa(i))
			}
		}}
	// nested in random contexts
	nr := tierPick(r, 40000, 1000000)
	ctx := mon.Workload{Name: "calls-in-context", N: nr,
		Do: func(i int, t *mon.Tally) {
			rng := gen.DeriveN(r.Seed, "c09ctx", i)
			c := cs[rng.Intn(len(cs))]
			call, doc := c09Tree(c, rng.Bool())
			var tree *gen.Expr
			switch rng.Intn(8) {
			case 0:
				tree = gen.MultiList(call, gen.Field("k"))
			case 1:
				tree = gen.Pipe(call, gen.Func("type", gen.Current()))
			case 2:
				tree = gen.Or(gen.LitJSON("null"), call)
			case 3:
				tree = gen.Chain(gen.LitJSON(`[1,2]`), gen.StListStar(), gen.Step{K: gen.SMultiList, X: gen.MultiList(gen.Current(), gen.Paren(gen.Pipe(gen.LitVal(doc), call)))})
			case 4:
				tree = gen.Cmp("==", call, call)
			case 5:
				tree = gen.MultiHash([]gen.Key{{Name: "r"}}, []*gen.Expr{call})
			case 6:
				tree = gen.Func("to_array", call)
			default:
				tree = gen.Func("not_null", gen.LitJSON("null"), call)
			}
			expr := gen.Spell(tree)
			cx := &caseCtx{r, t, "calls-in-context", i}
			res, _, _ := cx.runBoth(tree, expr, doc)
			if !isErr(res) && !res.DontCare && res.Skipped == "" {
				t.Nontrivial("ctx:" + expr + ref.Canon(doc))
			}
		}}
	// random larger inputs
	nl := tierPick(r, 20000, 500000)
	large := mon.Workload{Name: "random-larger-arguments", N: nl,
		Do: func(i int, t *mon.Tally) {
			rng := gen.DeriveN(r.Seed, "c09large", i)
			n := rng.Intn(40)
			if i%4 == 0 {
				n = []int{12, 13, 16, 17, 32, 33, 64, 65, 100}[(i/4)%9] // around the usual small-input thresholds
			}
			nums := make([]interface{}, n)
			strs := make([]interface{}, n)
			objs := make([]interface{}, n)
			pool := []string{"a", "b", "é", "e\u0301", "😀", "B", "ab", "", "z", "10", "9"}
			for k := 0; k < n; k++ {
				nums[k] = float64(rng.Intn(9)-4) / 2
				s := ""
				for q := rng.Intn(4); q > 0; q-- {
					s += gen.Pick(rng, pool)
				}
				strs[k] = s
				objs[k] = map[string]interface{}{"k": nums[k], "s": s, "i": float64(k)}
			}
			doc := map[string]interface{}{"n": nums, "s": strs, "o": objs}
			var tree *gen.Expr
			switch rng.Intn(14) {
			case 0:
				tree = gen.Func("sort", gen.Field("n"))
			case 1:
				tree = gen.Func("sort", gen.Field("s"))
			case 2:
				tree = gen.Func("sort_by", gen.Field("o"), gen.ExpRef(gen.Field("k")))
			case 3:
				tree = gen.Func("sort_by", gen.Field("o"), gen.ExpRef(gen.Field("s")))
			case 4:
				tree = gen.Func("max_by", gen.Field("o"), gen.ExpRef(gen.Field("k")))
			case 5:
				tree = gen.Func("min_by", gen.Field("o"), gen.ExpRef(gen.Field("s")))
			case 6:
				tree = gen.MultiList(gen.Func("max", gen.Field("s")), gen.Func("min", gen.Field("s")), gen.Func("max", gen.Field("n")), gen.Func("min", gen.Field("n")))
			case 7:
				tree = gen.MultiList(gen.Func("sum", gen.Field("n")), gen.Func("avg", gen.Field("n")), gen.Func("length", gen.Field("n")))
			case 8:
				tree = gen.Func("join", gen.Raw("|"), gen.Field("s"))
			case 9:
				tree = gen.Func("reverse", gen.Func("join", gen.Raw(""), gen.Field("s")))
			case 10:
				tree = gen.Func("map", gen.ExpRef(gen.Func("length", gen.Field("s"))), gen.Field("o"))
			case 11:
				tree = gen.Func("reverse", gen.Field("o"))
			case 12:
				tree = gen.Func("length", gen.Func("join", gen.Raw(""), gen.Field("s")))
			default:
				tree = gen.Func("merge", gen.Chain(gen.Field("o"), gen.StIndex(0)), gen.Chain(gen.Field("o"), gen.StIndex(-1)), gen.LitJSON(`{"i":"last"}`))
			}
			expr := gen.Spell(tree)
			cx := &caseCtx{r, t, "random-larger-arguments", i}
			res, _, _ := cx.runBoth(tree, expr, doc)
			if !isErr(res) {
				t.Nontrivial("large:" + expr + ref.Canon(doc))
			}
		}}
	// one compiled expression searched on several hundred documents in a row, most of which make an inner
	// call fail: a well-typed call nested in another call returns its value whatever the earlier searches on
	// the same compiled expression did (counters, depth guards and scratch state left behind by a failing
	// argument must not accumulate)
	reuseTrees := c09ReuseTrees()
	const reuseDocs = 330
	reuse := mon.Workload{Name: "one-compiled-expression-over-many-documents", N: len(reuseTrees), Batch: 4,
		Describe: func(i int) string { return gen.Spell(reuseTrees[i]) + " on 330 documents in a row" },
		Do: func(i int, t *mon.Tally) {
			tree := reuseTrees[i]
			expr := gen.Spell(tree)
			jp, co := apiCompile(expr)
			if co.Panicked || co.Err != nil {
				r.Violate(&mon.Violation{Workload: "one-compiled-expression-over-many-documents", Index: i, API: "Compile", Expr: expr, Expected: "compiles", Observed: co.String(), Class: "reuse: does not compile"})
				return
			}
			cx := &caseCtx{r, t, "one-compiled-expression-over-many-documents", i}
			for j := 0; j < reuseDocs; j++ {
				doc := c09ReuseDoc(j)
				res := ref.RefSet(tree, doc, gen.Quirks{})
				o := apiJP(jp, mon.DeepCopy(doc))
				if !cx.judge(tree, expr, doc, fmt.Sprintf("Compile+Search (search %d on the same compiled expression; %d of the earlier documents were ill-typed)", j+1, j-j/8), o, res) {
					return
				}
				if !isErr(res) && res.Skipped == "" && !res.DontCare {
					t.Count("reuse: well-typed document after ill-typed ones")
					if j > 300 {
						t.Nontrivial("reuse:" + expr)
					}
				} else if isErr(res) {
					t.Count("reuse: ill-typed document (error expected)")
				}
			}
		}}
	// max_by / min_by / sort_by / map over lists that contain null (and other non-object) elements, with key
	// expressions that give such elements a key: the first extremal element is returned also when it is null
	nullU := []interface{}{nil, float64(1), float64(9), float64(5)}
	nullLists := arraysOver(nullU, 4)
	nullKeys := []func() *gen.Expr{
		func() *gen.Expr { return gen.Func("not_null", gen.Current(), gen.LitJSON("5")) },
		func() *gen.Expr { return gen.Func("not_null", gen.Current(), gen.LitJSON("0")) },
		func() *gen.Expr { return gen.Func("not_null", gen.Current(), gen.LitJSON("99")) },
		func() *gen.Expr { return gen.Func("type", gen.Current()) },
		func() *gen.Expr { return gen.Func("to_string", gen.Current()) },
		func() *gen.Expr { return gen.Func("length", gen.Func("to_string", gen.Current())) },
		func() *gen.Expr { return gen.Current() },
	}
	nullFns := []string{"max_by", "min_by", "sort_by", "map"}
	nullw := mon.Workload{Name: "by-functions-over-lists-with-nulls", N: len(nullLists) * len(nullKeys) * len(nullFns), Batch: 1000,
		Do: func(i int, t *mon.Tally) {
			fn := nullFns[i%len(nullFns)]
			key := nullKeys[i/len(nullFns)%len(nullKeys)]()
			list := nullLists[i/len(nullFns)/len(nullKeys)]
			doc := map[string]interface{}{"l": list}
			var tree *gen.Expr
			if fn == "map" {
				tree = gen.Func("map", gen.ExpRef(key), gen.Field("l"))
			} else {
				tree = gen.Func(fn, gen.Field("l"), gen.ExpRef(key))
			}
			if i%3 == 2 {
				tree = gen.MultiList(tree, gen.Func("type", tree))
			}
			cx := &caseCtx{r, t, "by-functions-over-lists-with-nulls", i}
			res, _, _ := cx.runBoth(tree, gen.Spell(tree), doc)
			if !isErr(res) && res.Skipped == "" && !res.DontCare {
				t.Nontrivial("nulls:" + strconv.Itoa(i))
				t.Count("by-functions over lists with nulls: value expected")
			}
		}}
	r.Exec(exh, typed, every, strw, trw, akw, kindPairsWorkload(r, "C09"), ctx, large, sizedWorkload(r, "sized-arrays", false), reuse, nullw, edgew, cuw, zsw, prodw, lkw, hbw)
}

// c09ReuseTrees: calls nested in the arguments of other calls (and in expression references, projections,
// filters, multi-selects) over the fields of c09ReuseDoc.
func c09ReuseTrees() []*gen.Expr {
	d, a, sf, rows, o := func() *gen.Expr { return gen.Field("d") }, func() *gen.Expr { return gen.Field("a") }, func() *gen.Expr { return gen.Field("s") }, func() *gen.Expr { return gen.Field("rows") }, func() *gen.Expr { return gen.Field("o") }
	abs := func(x *gen.Expr) *gen.Expr { return gen.Func("abs", x) }
	return []*gen.Expr{
		gen.Func("to_string", abs(d())), gen.Func("length", gen.Func("to_string", abs(d()))), abs(gen.Func("sum", a())), gen.Func("ceil", abs(gen.Func("avg", a()))),
		gen.Chain(gen.Func("sort_by", rows(), gen.ExpRef(abs(gen.Field("k")))), gen.StListStar(), gen.StField("i")), gen.Func("map", gen.ExpRef(abs(gen.Current())), a()),
		gen.Func("join", gen.Raw(","), gen.Func("map", gen.ExpRef(gen.Func("to_string", abs(gen.Current()))), a())), gen.Chain(gen.Func("max_by", rows(), gen.ExpRef(gen.Func("length", gen.Field("s")))), gen.StField("i")),
		gen.Func("not_null", abs(d()), gen.Raw("x")), gen.MultiList(abs(d()), gen.Func("length", sf())), gen.Chain(a(), gen.StListStar(), gen.StFunc("abs", gen.Current())),
		gen.Chain(a(), gen.StFilter(gen.Cmp(">", abs(gen.Current()), gen.LitJSON("1")))), gen.Or(abs(d()), gen.Raw("x")), gen.Func("starts_with", gen.Func("to_string", abs(d())), sf()),
		gen.Func("merge", o(), gen.MultiHash(keyA("x"), []*gen.Expr{abs(d())})), gen.Func("contains", gen.Func("keys", o()), sf()), gen.Func("reverse", gen.Func("sort", a())),
		gen.Func("max", gen.Func("map", gen.ExpRef(gen.Func("length", gen.Field("s"))), rows())), gen.Func("floor", gen.Func("to_number", gen.Func("to_string", abs(d())))), gen.Func("length", gen.Func("join", sf(), gen.Func("map", gen.ExpRef(gen.Field("s")), rows()))),
		gen.Func("abs", gen.Func("abs", gen.Func("abs", gen.Func("abs", d())))), gen.Func("sum", gen.Func("map", gen.ExpRef(gen.Func("abs", gen.Func("ceil", gen.Field("k")))), rows())),
		gen.Func("sort_by", gen.Func("sort_by", rows(), gen.ExpRef(gen.Field("s"))), gen.ExpRef(abs(gen.Field("k")))), gen.Func("min_by", rows(), gen.ExpRef(gen.Func("sum", gen.MultiList(gen.Field("k"), abs(gen.Field("k")))))),
		gen.Pipe(abs(d()), gen.Func("to_string", gen.Current())), gen.Func("type", gen.Func("values", o())), gen.Func("ends_with", gen.Func("join", gen.Raw("-"), gen.Func("sort", gen.Func("keys", o()))), sf()),
		gen.Func("avg", gen.Func("map", gen.ExpRef(gen.Func("length", gen.Func("to_string", gen.Current()))), a())),
		// an EMPTY literal or document member as the first operand of something that builds a result (nothing to copy - and nothing to
		// write into either): every search starts from the same empty container
		gen.Func("merge", gen.LitJSON("{}"), o()), gen.Func("merge", gen.LitJSON("{}"), o(), gen.MultiHash(keyA("x"), []*gen.Expr{d()})), gen.Func("merge", gen.LitJSON("{}"), gen.Current()),
		gen.MultiList(gen.Func("merge", gen.LitJSON("{}"), o()), gen.Func("merge", gen.LitJSON("{}"), gen.MultiHash(keyA("y"), []*gen.Expr{sf()}))),
		gen.MultiList(gen.Func("merge", gen.Field("e"), o()), gen.Func("merge", gen.Field("e"), gen.MultiHash(keyA("y"), []*gen.Expr{sf()})), gen.Field("e")),
		gen.Chain(gen.MultiList(gen.LitJSON("[]"), a()), gen.StFlatten()), gen.Chain(gen.MultiList(gen.Field("ea"), a(), gen.Field("ea")), gen.StFlatten()), gen.Func("merge", gen.Func("not_null", gen.Field("z"), gen.LitJSON("{}")), o()),
		gen.Func("merge", gen.Or(gen.Field("z"), gen.LitJSON("{}")), gen.MultiHash(keyA("k"), []*gen.Expr{d()})), gen.Pipe(gen.LitJSON("{}"), gen.Func("merge", gen.Current(), gen.MultiHash(keyA("k"), []*gen.Expr{sf()}))),
		gen.Func("map", gen.ExpRef(gen.Func("merge", gen.LitJSON("{}"), gen.MultiHash(keyA("v"), []*gen.Expr{gen.Current()}))), a()), gen.Func("merge", gen.LitJSON("{}"), gen.LitJSON("{}"), o(), gen.LitJSON("{}")),
	}
}

// c09ReuseDoc: document j of the sequence. Seven of every eight make one of the nested calls ill-typed (each in
// a different way); every eighth is well-typed (with values that depend on j).
func c09ReuseDoc(j int) map[string]interface{} {
	f := float64(j%13) - 6.5
	doc := map[string]interface{}{
		"d": f, "a": []interface{}{f, float64(2), float64(-3)}, "s": "s" + strconv.Itoa(j%3),
		"rows": []interface{}{map[string]interface{}{"k": float64(-2), "s": "bb", "i": float64(0)}, map[string]interface{}{"k": f, "s": "a", "i": float64(1)}, map[string]interface{}{"k": float64(1), "s": "ccc", "i": float64(2)}},
		"o":    map[string]interface{}{"s0": float64(1), "k" + strconv.Itoa(j%2): "v"},
		"e":    map[string]interface{}{}, "ea": []interface{}{}, "z": nil,
	}
	switch j % 8 {
	case 0:
		doc["d"], doc["a"] = "str", []interface{}{f, "x", float64(1)}
	case 1:
		doc["d"], doc["a"] = nil, "not an array"
	case 2:
		doc["d"], doc["s"] = []interface{}{f}, float64(3)
		doc["rows"].([]interface{})[1].(map[string]interface{})["k"] = "k"
	case 3:
		doc["d"], doc["o"] = true, []interface{}{}
		doc["rows"].([]interface{})[2].(map[string]interface{})["s"] = float64(0)
	case 4:
		doc["d"], doc["a"] = map[string]interface{}{}, []interface{}{nil}
		doc["rows"] = "none"
	case 5:
		doc["d"], doc["a"], doc["s"], doc["o"] = "1", []interface{}{"1", "2"}, nil, nil
	case 6:
		doc["d"] = "-"
		doc["a"] = []interface{}{float64(1), []interface{}{float64(2)}}
		doc["rows"].([]interface{})[0].(map[string]interface{})["k"] = nil
		doc["s"] = []interface{}{"s"}
	}
	return doc
}

// argProducers: constructs that hand a value on to a function argument (see the C09 workload arguments-produced-by-other-constructs).
func argProducers() []func(x *gen.Expr) *gen.Expr {
	return []func(x *gen.Expr) *gen.Expr{
		func(x *gen.Expr) *gen.Expr { return gen.Paren(x) },
		func(x *gen.Expr) *gen.Expr { return gen.Pipe(gen.Current(), x) },
		func(x *gen.Expr) *gen.Expr { return gen.Chain(gen.MultiList(x), gen.StIndex(0)) },
		func(x *gen.Expr) *gen.Expr {
			return gen.Chain(gen.MultiHash(keyA("k"), []*gen.Expr{x}), gen.StField("k"))
		},
		func(x *gen.Expr) *gen.Expr { return gen.Pipe(x, gen.Current()) },
		func(x *gen.Expr) *gen.Expr { return gen.Func("not_null", x) },
		func(x *gen.Expr) *gen.Expr { return gen.Func("not_null", gen.Field("z"), x) },
		func(x *gen.Expr) *gen.Expr { return gen.Or(gen.Field("z"), x) },
		func(x *gen.Expr) *gen.Expr { return gen.And(gen.LitJSON("true"), x) },
		func(x *gen.Expr) *gen.Expr { return gen.Chain(x, gen.StListStar()) },
		func(x *gen.Expr) *gen.Expr { return gen.Chain(x, gen.StSliceS("", "", "")) },
		func(x *gen.Expr) *gen.Expr {
			return gen.Chain(x, gen.StSliceS("", "", "-1"), gen.StSliceS("", "", "-1"))
		},
		func(x *gen.Expr) *gen.Expr { return gen.Chain(x, gen.StFlatten()) },
		func(x *gen.Expr) *gen.Expr { return gen.Func("map", gen.ExpRef(gen.Current()), x) },
		func(x *gen.Expr) *gen.Expr { return gen.Func("reverse", gen.Func("reverse", x)) },
		func(x *gen.Expr) *gen.Expr { return gen.Func("to_array", x) },
		func(x *gen.Expr) *gen.Expr { return gen.Chain(x, gen.StFilter(gen.LitJSON("true"))) },
		func(x *gen.Expr) *gen.Expr {
			return gen.Chain(gen.Func("values", gen.MultiHash(keyA("k"), []*gen.Expr{x})), gen.StIndex(0))
		},
		func(x *gen.Expr) *gen.Expr { return gen.Func("max_by", gen.MultiList(x), gen.ExpRef(gen.LitJSON("1"))) },
		func(x *gen.Expr) *gen.Expr {
			return gen.Chain(gen.Paren(gen.Chain(x, gen.StListStar())), gen.StSliceS("0", "", ""))
		},
		func(x *gen.Expr) *gen.Expr { return gen.Func("merge", x) },
		func(x *gen.Expr) *gen.Expr { return gen.Func("sort_by", x, gen.ExpRef(gen.LitJSON("0"))) },
		func(x *gen.Expr) *gen.Expr { return gen.Chain(gen.MultiList(gen.LitJSON("null"), x), gen.StIndex(-1)) },
		func(x *gen.Expr) *gen.Expr { return gen.Chain(gen.Field("ao"), gen.StIndex(9), gen.StMultiList(x)) }, // null: a multi-select on null
	}
}
