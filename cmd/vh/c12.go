package main

import (
	"encoding/json"
	"fmt"
	"reflect"
	"runtime"
	"strconv"
	"strings"
	"sync"
	"time"

	jmespath "github.com/jmespath/go-jmespath"

	"verifharness/docs"
	"verifharness/gen"
	"verifharness/mon"
	"verifharness/ref"
)

// C12 — a compiled expression is safe for concurrent use by multiple goroutines.

func init() { register("C12", c12) }

type c12Slot struct {
	o          mon.Observed
	start, end int64
	sexpr      string
	_          [64]byte // keep slots on separate cache lines; they are never shared between goroutines
}

var c12Modes = []string{"compiled x shared document", "compiled x per-goroutine documents", "one-shot Search x shared document", "concurrent Compile/MustCompile", "NewParser per goroutine",
	"compiled x shared Go-struct document", "one-shot Search x shared Go-struct document", "one-shot Search x many distinct expressions in rotation", "compiled x different documents, some failing, several calls per goroutine", "compiled x prefix views of one list (same first element, different lengths)", "compiled x shared Go-struct document next to parses of never-seen expressions", "one expression x shared documents of different kinds, hundreds of calls per goroutine"}

func gcd(a, b int) int {
	for b != 0 {
		a, b = b, a%b
	}
	return a
}

// c12Wild: expressions whose wildcard / projection right-hand side fails on some documents only, and the
// documents (index%4 == 1: failing) they are run on in mode (i).
func c12Wild() ([]*gen.Expr, []interface{}) {
	sv := func() *gen.Expr { return gen.Field("sv") }
	exprs := []*gen.Expr{
		gen.Chain(sv(), gen.StStar(), gen.StFunc("join", gen.Raw("/"), gen.Field("tags"))),
		gen.Chain(sv(), gen.StStar(), gen.StFunc("abs", gen.Field("n"))),
		gen.Chain(nil, gen.StStar(), gen.StStar(), gen.StFunc("length", gen.Field("tags"))),
		gen.Chain(sv(), gen.StStar(), gen.StField("tags"), gen.StListStar(), gen.StFunc("length", gen.Current())),
		gen.Chain(gen.Field("rows"), gen.StListStar(), gen.StStar(), gen.StFunc("abs", gen.Current())),
		gen.Pipe(gen.Chain(sv(), gen.StStar()), gen.Func("length", gen.Current())),
		gen.Func("sum", gen.Chain(sv(), gen.StStar(), gen.StField("n"))),
		gen.Chain(gen.Field("rows"), gen.StFilter(gen.Cmp(">", gen.Func("abs", gen.Field("a")), gen.LitJSON("0"))), gen.StField("a")),
		gen.Func("sort_by", gen.Chain(sv(), gen.StStar()), gen.ExpRef(gen.Field("n"))),
		gen.Chain(sv(), gen.StStar(), gen.StMultiList(gen.Field("n"), gen.Func("join", gen.Raw(","), gen.Field("tags")))),
		gen.Func("map", gen.ExpRef(gen.Func("abs", gen.Field("a"))), gen.Field("rows")),
		gen.Chain(gen.Field("rows"), gen.StFlatten(), gen.StFunc("abs", gen.Field("a"))),
	}
	var ds []interface{}
	for d := 0; d < 8; d++ {
		tag := func(q int) interface{} { return fmt.Sprintf("t%d-%d", d, q) }
		var odd interface{} = "odd"
		var n2 interface{} = float64(d + 2)
		var t2 interface{} = tag(2)
		if d%4 == 1 {
			n2, t2 = "not a number", float64(5)
		}
		_ = odd
		ds = append(ds, map[string]interface{}{
			"sv": map[string]interface{}{
				"a": map[string]interface{}{"n": float64(d), "tags": []interface{}{tag(0), tag(1)}},
				"b": map[string]interface{}{"n": n2, "tags": []interface{}{t2}},
			},
			"rows": []interface{}{map[string]interface{}{"a": float64(-d)}, map[string]interface{}{"a": n2}, map[string]interface{}{"a": float64(d) + 0.5}},
		})
	}
	return exprs, ds
}

func c12Exprs(seed uint64) []*gen.Expr {
	base := c06BaseDoc()
	var trees []*gen.Expr
	// deep and long expressions first (every mode meets them early): whatever a call keeps per expression
	// depth or length (counters, stacks, scratch buffers) must be per call, not per compiled expression
	{
		term := func(k int) *gen.Expr { return gen.Cmp("==", gen.Field("i"), gen.LitJSON(fmt.Sprint(k*3))) }
		or, and, pipe := term(0), gen.Cmp("!=", gen.Field("i"), gen.LitJSON("1")), gen.Field("o")
		var not *gen.Expr = gen.Field("z")
		var nest *gen.Expr = gen.Field("n")
		var steps []gen.Step
		for k := 1; k < 260; k++ {
			or = gen.Or(or, term(k))
			and = gen.And(and, gen.Cmp("!=", gen.Field("i"), gen.LitJSON(fmt.Sprint(1000+k))))
			pipe = gen.Pipe(pipe, gen.Current())
			not = gen.Not(not)
			nest = gen.MultiList(nest)
			steps = append(steps, gen.StIndex(0))
		}
		trees = append(trees,
			// a literal on the left of a comparison, a literal on both sides, literals under every operator: the
			// syntax tree is shared by all callers and only ever read
			gen.MultiList(gen.Cmp("==", gen.Raw("x"), gen.Field("s")), gen.Cmp("!=", gen.LitJSON("1"), gen.Field("n")), gen.Cmp("<", gen.LitJSON("0"), gen.Field("m")), gen.Cmp("==", gen.LitJSON("[2,1]"), gen.Chain(gen.Field("aa"), gen.StIndex(0)))),
			gen.Chain(gen.Field("ao"), gen.StFilter(gen.Or(gen.Cmp("==", gen.LitJSON("2"), gen.Field("n")), gen.Cmp(">=", gen.LitJSON("1"), gen.Field("n")))), gen.StField("s")),
			gen.Chain(gen.Field("big"), gen.StFilter(or), gen.StField("i")),
			gen.Chain(gen.Field("big"), gen.StFilter(and), gen.StField("i")),
			gen.Chain(gen.Field("big"), gen.StListStar(), gen.StMultiList(pipe)),
			gen.MultiList(not, gen.Chain(gen.Field("big"), gen.StFilter(gen.Not(not)), gen.StField("i"))),
			gen.Chain(gen.Paren(nest), steps...),
			gen.Func("map", gen.ExpRef(or), gen.Field("big")),
		)
	}
	trees = append(trees, c06HandBacks(true)...)
	for _, lit := range []bool{false, true} {
		for _, c := range c06Calls(lit, base) {
			ns := c06Nestings(c)
			trees = append(trees, ns[0], ns[5], ns[6], ns[7])
		}
	}
	trees = append(trees, c06Specials()...)
	// raw-string heavy expressions (lexer buffer) and every node kind
	trees = append(trees,
		gen.MultiList(gen.Raw("a'b"), gen.Raw("''"), gen.Raw("x\\y'z'"), gen.Raw(strings.Repeat("q'", 40))),
		gen.Func("join", gen.Raw("'"), gen.MultiList(gen.Raw("a'"), gen.Raw("'b"), gen.Field("s"))),
		gen.Or(gen.And(gen.Not(gen.Field("z")), gen.Cmp("<", gen.Field("n"), gen.Field("m"))), gen.Cmp("==", gen.Field("o"), gen.Field("o2"))),
		gen.Pipe(gen.Chain(gen.Field("ao"), gen.StFilter(gen.Cmp(">=", gen.Field("n"), gen.LitJSON("2"))), gen.StMultiHash([]gen.Key{{Name: "x"}, {Name: "y"}}, []*gen.Expr{gen.Field("s"), gen.Chain(gen.Field("an"), gen.StSliceS("", "", "-1"))})), gen.Chain(nil, gen.StIndex(-1))),
		gen.Chain(gen.Field("o"), gen.StStar(), gen.StField("n")),
		gen.Func("keys", gen.Field("o")),
		gen.LitJSON(`{"a":[3,1,2],"b":{"c":[{"n":2},{"n":1}]}}`),
		gen.Func("sort_by", gen.Chain(gen.LitJSON(`{"b":{"c":[{"n":2},{"n":1},{"n":3}]}}`), gen.StField("b"), gen.StField("c")), gen.ExpRef(gen.Field("n"))),
		gen.Func("reverse", gen.LitJSON(`[3,1,2]`)),
		gen.Func("sort", gen.LitJSON(`["b","a","c"]`)),
		gen.Func("merge", gen.LitJSON(`{"a":1}`), gen.LitJSON(`{"b":2}`), gen.Field("o")),
	)
	for i := 0; i < 300; i++ {
		rng := gen.DeriveN(seed, "c12tree", i)
		g := gen.NewTreeGen(rng)
		g.MaxDepth = 2 + rng.Intn(3)
		g.IllTyped = 10
		trees = append(trees, g.Expr(0, gen.WAny))
	}
	return trees
}

func c12(r *mon.Run) {
	r.Rule = "rounds of N in {2,4,16} goroutines released together (GOMAXPROCS 2 and 16), with no synchronisation between them until they are joined: (a) one compiled expression on one shared document, (b) one compiled expression on per-goroutine documents, (c) the one-shot Search on a shared document, (d) concurrent Compile / MustCompile of the same and of different expressions, (e) NewParser per goroutine, (f) a freshly compiled expression and (g) the one-shot Search on a shared Go-struct document (reflection paths; the first calls on a type are the concurrent ones), (h) the one-shot Search with 70 / 140 / 300 distinct expressions in rotation, every goroutine in its own order (package-level caches see hits, misses and evictions at once), (i) one compiled expression whose wildcard / projection right-hand side fails on a quarter of 8 documents, 12 calls per goroutine over those documents (error paths of one call meet the scratch state of another), (j) one compiled expression on documents that are prefixes of one list (same address, different lengths: whatever identifies the same call must look at all of the document), (k) searches of a shared Go-struct document next to goroutines that parse expressions with identifiers nobody has used before, (l) one expression (compiled in half of the rounds, one-shot in the other half) on 8 shared documents in which the argument of a function that accepts several kinds is an array of numbers in one document and of strings in the next (a string, an array, an object), 50-6000 calls per goroutine, and comparisons of 400-element containers of equal length that live in the shared documents and differ in their last element (whatever a call remembers about the last argument, or about a comparison in progress, is its own); " +
		"expressions: the function matrix of C06 with document-fed and literal-fed arguments (literals live in the shared AST), sorts of sorts, six expressions 260 operators deep or long (|| and && chains as filter conditions over 24 elements, pipes, nots, nested multi-selects), raw-string-heavy expressions, every node kind, seeded random trees. Monitors: the race detector (any report with a library frame), every goroutine's result against the reference model's allowed set, the compiled AST before/after, and the process surviving (fatal errors are seen by the driver). " +
		"Non-trivial = distinct (mode, N, expression) rounds whose calls really overlapped in time (measured from per-goroutine timestamps)."
	r.Floor = 200
	r.Assumptions = []string{"the race detector is happens-before based: one observed pair of conflicting accesses stands for all its interleavings; only code the workload executes is observed",
		"harness bookkeeping is per-goroutine (result slot, timestamps) and joined by one WaitGroup, so it neither races nor adds happens-before edges between the contenders"}
	rl := mon.OpenRaceLog()
	if rl == nil {
		r.Inconclusive("no race log: started without the driver (VH_RACELOG); only result comparison is active")
	}
	trees := c12Exprs(r.Seed)
	wildTrees, wildDocs := c12Wild()
	pvList := make([]interface{}, 600)
	for k := range pvList {
		pvList[k] = map[string]interface{}{"n": float64(k % 7), "i": float64(k)}
	}
	pvTrees := []*gen.Expr{gen.Func("length", gen.Current()), gen.Chain(nil, gen.StIndex(-1), gen.StField("i")), gen.Func("sum", gen.Chain(nil, gen.StListStar(), gen.StField("i"))),
		gen.Chain(nil, gen.StFilter(gen.Cmp(">", gen.Field("n"), gen.LitJSON("5"))), gen.StField("i")), gen.Func("max_by", gen.Current(), gen.ExpRef(gen.Field("i"))), gen.Chain(nil, gen.StSliceS("-3", "", ""), gen.StField("i")), gen.Chain(nil, gen.StSliceS("", "-2", ""), gen.StIndex(-1), gen.StField("i")), gen.Chain(nil, gen.StSliceS("", "", "-1"), gen.StIndex(0), gen.StField("i")), gen.Func("length", gen.Chain(nil, gen.StSliceS("1", "", "2"))), gen.Chain(nil, gen.StIndex(-2), gen.StField("i")),
		// whole-list functions over hundreds of elements (anything a function farms out must stay per call)
		gen.Func("map", gen.ExpRef(gen.Field("i")), gen.Current()), gen.Func("sum", gen.Func("map", gen.ExpRef(gen.Field("n")), gen.Current())), gen.Chain(gen.Func("sort_by", gen.Current(), gen.ExpRef(gen.Field("n"))), gen.StListStar(), gen.StField("i")),
		gen.Func("map", gen.ExpRef(gen.Func("map", gen.ExpRef(gen.Current()), gen.MultiList(gen.Field("i"), gen.Field("n")))), gen.Current()), gen.Func("length", gen.Func("map", gen.ExpRef(gen.Func("to_string", gen.Field("i"))), gen.Current())),
		gen.Func("reverse", gen.Func("map", gen.ExpRef(gen.Field("i")), gen.Current())), gen.Func("join", gen.Raw(","), gen.Func("map", gen.ExpRef(gen.Func("to_string", gen.Field("i"))), gen.Current()))}
	var baseDoc interface{} = c06BaseDoc()
	polyTrees, polyCalls, polyDocsL := c12Poly(r.Tier == "quick")
	polySnap := mon.Snapshot(polyDocsL)
	rounds := tierPick(r, 7000, 100000)
	prevProcs := runtime.GOMAXPROCS(0)
	defer runtime.GOMAXPROCS(prevProcs)
	w := mon.Workload{Name: "rounds", N: rounds, Serial: true, Batch: 100,
		Describe: func(i int) string {
			return fmt.Sprintf("mode=%s expr=%s", c12Modes[i%len(c12Modes)], gen.Spell(trees[(i/len(c12Modes))%len(trees)]))
		},
		Do: func(i int, t *mon.Tally) {
			mode := i % len(c12Modes)
			if mode == 7 && r.Tier == "quick" && (i/len(c12Modes))%3 != 0 {
				t.Count("rotation rounds left to the thorough tier")
				return
			}
			tree := trees[(i/len(c12Modes))%len(trees)]
			q := i/len(c12Modes) + mode // (the round number within the mode, shifted per mode so that the modes differ)
			N := []int{2, 4, 16}[(q/2)%3]
			if mode == 7 && N > 8 {
				N = 8 // (every goroutine makes up to 300 calls in this mode)
			}
			procs := []int{16, 2}[q%2]
			if mode == 11 && r.Tier == "quick" && (i/len(c12Modes))%2 != 0 {
				t.Count("many-call rounds left to the thorough tier")
				return
			}
			runtime.GOMAXPROCS(procs)
			rng := gen.DeriveN(r.Seed, "c12round", i)
			var doc interface{} = baseDoc
			if i%4 == 3 {
				doc = docs.NewRand(rng).TypedDoc(0)
			}
			var sdoc interface{} // Go-struct form for modes 5 and 6 (reflection paths, per-type state)
			lower := false
			if mode == 5 || mode == 6 || mode == 10 {
				lower = rng.Bool()
				sdoc = docs.StructDoc(rng, rng.Intn(4))
				g := &navGen{r: rng, lower: lower}
				tree = g.expr(reflect.TypeOf(sdoc), rng.Intn(3))
				doc = docs.ToGeneric(sdoc, lower)
			}
			expr := gen.Spell(tree)
			res := ref.RefSet(tree, doc, gen.Quirks{})
			shared := withSpare(doc)
			jp, co := apiCompile(expr)
			if co.Panicked || co.Err != nil {
				r.Inconclusive("C12 workload expression does not compile: " + expr)
				return
			}
			before := jmespath.VerifSexpr(jmespath.VerifAST(jp))
			slots := make([]c12Slot, N)
			pdocs := make([]interface{}, N)
			for k := range pdocs {
				pdocs[k] = withSpare(doc)
			}
			var wres []ref.Result // mode 8: expected outcome per document
			var wcalls [][]mon.Observed
			if mode == 8 {
				tree = wildTrees[(i/len(c12Modes))%len(wildTrees)]
				expr = gen.Spell(tree)
				j2, co2 := apiCompile(expr)
				if co2.Panicked || co2.Err != nil {
					r.Inconclusive("C12 workload expression does not compile: " + expr)
					return
				}
				jp = j2
				before = jmespath.VerifSexpr(jmespath.VerifAST(jp))
				for _, d := range wildDocs {
					wres = append(wres, ref.RefSet(tree, d, gen.Quirks{}))
				}
				wcalls = make([][]mon.Observed, N)
			}
			var pviews []interface{} // mode 9: documents that start at the same address and differ in length only
			var pres []ref.Result
			pvBad := make([]string, N)
			pvCalls := 48
			if N > 4 {
				pvCalls = 16
			}
			if r.Tier == "thorough" {
				pvCalls *= 4
			}
			if mode == 9 {
				tree = pvTrees[(i/len(c12Modes))%len(pvTrees)]
				expr = gen.Spell(tree)
				j2, co2 := apiCompile(expr)
				if co2.Panicked || co2.Err != nil {
					r.Inconclusive("C12 workload expression does not compile: " + expr)
					return
				}
				jp = j2
				before = jmespath.VerifSexpr(jmespath.VerifAST(jp))
				for k := 0; k < N; k++ {
					v := pvList[:1+(k*37+i)%len(pvList)]
					pviews = append(pviews, interface{}(v))
					pres = append(pres, ref.RefSet(tree, v, gen.Quirks{}))
				}
			}
			var pcalls int // mode 11
			var pbad []string
			if mode == 11 {
				pi := (i / len(c12Modes) / 2) % len(polyTrees)
				if r.Tier != "quick" {
					pi = (i / len(c12Modes)) % len(polyTrees)
				}
				tree = polyTrees[pi]
				expr = gen.Spell(tree)
				j2, co2 := apiCompile(expr)
				if co2.Panicked || co2.Err != nil {
					r.Inconclusive("C12 workload expression does not compile: " + expr)
					return
				}
				jp = j2
				before = jmespath.VerifSexpr(jmespath.VerifAST(jp))
				wres = wres[:0]
				for _, d := range polyDocsL {
					wres = append(wres, ref.RefSet(tree, d, gen.Quirks{}))
				}
				pcalls = polyCalls[pi]
				if procs < N {
					pcalls = pcalls * 2 * procs / N // (goroutines that take turns on two processors: fewer calls each, same wall time)
				}
				pbad = make([]string, N)
			}
			otherExpr := gen.Spell(trees[(i*31+7)%len(trees)])
			// mode 7: a window of W distinct expressions, each goroutine visits all of them in its own order
			var wexprs []string
			var wres7 []ref.Result
			var wout [][]mon.Observed
			if mode == 7 {
				W := []int{70, 140, 70, 300}[(i/len(c12Modes)/3)%4]
				start := (i / len(c12Modes)) * 37
				seen := map[string]bool{}
				for j := 0; len(wexprs) < W && j < len(trees); j++ {
					tr := trees[(start+j)%len(trees)]
					e := gen.Spell(tr)
					if seen[e] {
						continue
					}
					seen[e] = true
					wexprs = append(wexprs, e)
					wres7 = append(wres7, ref.RefSet(tr, doc, gen.Quirks{}))
				}
				wout = make([][]mon.Observed, N)
				for k := range wout {
					wout[k] = make([]mon.Observed, len(wexprs))
				}
			}
			var wg sync.WaitGroup
			gate := make(chan struct{})
			for k := 0; k < N; k++ {
				wg.Add(1)
				go func(k int) {
					defer wg.Done()
					<-gate
					s := &slots[k]
					s.start = time.Now().UnixNano()
					switch mode {
					case 0:
						s.o = apiJP(jp, shared)
					case 1:
						s.o = apiJP(jp, pdocs[k])
					case 2:
						s.o = apiSearch(expr, shared)
					case 3:
						e := expr
						if k%2 == 1 {
							e = otherExpr
						}
						s.o = mon.Guard(func() (interface{}, error) {
							var j *jmespath.JMESPath
							var err error
							if k%3 == 0 {
								j = jmespath.MustCompile(e)
							} else {
								j, err = jmespath.Compile(e)
							}
							if err != nil {
								return nil, err
							}
							s.sexpr = jmespath.VerifSexpr(jmespath.VerifAST(j))
							if k%2 == 0 {
								return j.Search(pdocs[k])
							}
							return nil, nil
						})
					case 10:
						if k%2 == 0 {
							for j := 0; j < 6; j++ {
								s.o = apiJP(jp, sdoc)
							}
						} else {
							// parses of expressions nobody has parsed before (new identifiers, new literals): whatever the
							// parser registers process-wide is read by the searches next door
							for j := 0; j < 6; j++ {
								fresh := fmt.Sprintf("fresh_%d_%d_%d.Name_%d[?x%d == 'v%d'] | f%d", i, k, j, j, i, k, j)
								s.o = mon.Guard(func() (interface{}, error) { _, err := jmespath.NewParser().Parse(fresh); return nil, err })
								apiCompile(fmt.Sprintf("other_%d_%d.%s", i, j, docs.KeyName("Name", j%2 == 0)))
							}
						}
					case 11:
						// every goroutine walks the same shared documents from its own starting point; even rounds use the
						// compiled expression, odd ones the one-shot Search. Each answer is compared here (the expected
						// outcomes are only read), so that only the first deviation has to be kept.
						oneShot := (i/len(c12Modes))%4 >= 2
						for j := 0; j < pcalls; j++ {
							d := (k*3 + j) % len(polyDocsL)
							var o mon.Observed
							if oneShot {
								o = apiSearch(expr, polyDocsL[d])
							} else {
								o = apiJP(jp, polyDocsL[d])
							}
							if o.Panicked || (wres[d].Skipped == "" && !wres[d].DontCare && !matches(wres[d], o)) {
								pbad[k] = fmt.Sprintf("goroutine %d of %d, call %d, document %d: %s (made alone: %s)", k, N, j, d, clipStr(o.String(), 300), clipStr(expectedString(wres[d]), 300))
								s.o = o
								break
							}
						}
					case 9:
						// every goroutine walks over all the views (lists of different lengths that share their first elements),
						// starting from its own, many times: whatever the compiled expression remembers per node about "the"
						// list is asked for by callers with lists of other lengths a few nanoseconds apart
						s.o = apiJP(jp, pviews[k])
						for j := 1; j < pvCalls && pvBad[k] == ""; j++ {
							v := (k + j) % N
							o := apiJP(jp, pviews[v])
							if o.Panicked || (pres[v].Skipped == "" && !pres[v].DontCare && !matches(pres[v], o)) {
								pvBad[k] = fmt.Sprintf("goroutine %d of %d, call %d, the first %d elements: %s (made alone: %s)", k, N, j, len(pviews[v].([]interface{})), clipStr(o.String(), 300), clipStr(expectedString(pres[v]), 300))
							}
						}
					case 8:
						const calls = 12
						wcalls[k] = make([]mon.Observed, calls)
						for j := 0; j < calls; j++ {
							wcalls[k][j] = apiJP(jp, wildDocs[(k*3+j)%len(wildDocs)])
						}
					case 7:
						W := len(wexprs)
						stride := []int{1, 3, 7, 11, 13, 17, 19, 23}[k%8]
						for gcd(W, stride) != 1 {
							stride++
						}
						for j := 0; j < W; j++ {
							idx := (j*stride + k*5) % W
							wout[k][idx] = apiSearch(wexprs[idx], shared)
						}
					case 5:
						s.o = apiJP(jp, sdoc)
					case 6:
						s.o = apiSearch(expr, sdoc)
					default:
						s.o = mon.Guard(func() (interface{}, error) {
							p := jmespath.NewParser()
							ast, err := p.Parse(expr)
							if err != nil {
								return nil, err
							}
							s.sexpr = jmespath.VerifSexpr(ast)
							return nil, nil
						})
					}
					s.end = time.Now().UnixNano()
				}(k)
			}
			close(gate)
			wg.Wait()
			t.Evals(N * (1 + len(wexprs) + pcalls))
			if mode == 11 {
				if now := mon.Snapshot(polyDocsL); now != polySnap {
					r.Violate(&mon.Violation{Workload: "rounds", Index: i, API: c12Modes[mode], Expr: expr, DocDesc: "the 8 shared documents of mode (l)", Expected: "shared documents unchanged", Observed: clipStr(now, 600), Class: "shared document modified"})
					return
				}
			}
			// monitors
			rep := rl.Grown()
			if rep != "" {
				n, frames := mon.RaceSummary(rep, "go-jmespath")
				if len(frames) > 0 {
					r.Violate(&mon.Violation{Workload: "rounds", Index: i, API: c12Modes[mode], Expr: expr, Doc: doc,
						Expected: "no data race on the compiled expression, shared library state or a document the callers only read",
						Observed: fmt.Sprintf("race detector: %d report(s) with library frames: %s", n, strings.Join(frames, ", ")), Detail: clipStr(rep, 8000),
						Class: "race: " + strings.Join(frames, ", ")})
					return
				}
				r.Inconclusive("race report without a library frame (harness-internal?): " + clipStr(rep, 400))
			}
			for k := range slots {
				s := &slots[k]
				if s.o.Panicked {
					r.Violate(&mon.Violation{Workload: "rounds", Index: i, API: c12Modes[mode], Expr: expr, Doc: doc, Expected: "no panic", Observed: s.o.String(), Detail: s.o.Stack, Class: "panic in a concurrent call"})
					return
				}
				switch mode {
				case 11:
					if pbad[k] != "" {
						r.Violate(&mon.Violation{Workload: "rounds", Index: i, API: c12Modes[mode], Expr: expr, DocDesc: "8 shared documents whose members differ in kind from one document to the next (arrays of numbers / of strings, strings / arrays / objects, large unequal containers of equal length)",
							Expected: "what the same call returns when made alone", Observed: pbad[k], Class: "concurrent calls over documents of different kinds: result differs"})
						return
					}
				case 9:
					if pvBad[k] != "" {
						r.Violate(&mon.Violation{Workload: "rounds", Index: i, API: c12Modes[mode], Expr: expr, DocDesc: fmt.Sprintf("prefix views of one list of %d elements, every goroutine over all of them", len(pvList)),
							Expected: "what the same call returns when made alone", Observed: pvBad[k], Class: "concurrent calls on prefix views of one list: result differs"})
						return
					}
					if pres[k].Skipped == "" && !pres[k].DontCare && !matches(pres[k], s.o) {
						r.Violate(&mon.Violation{Workload: "rounds", Index: i, API: c12Modes[mode], Expr: expr, DocDesc: fmt.Sprintf("the first %d of %d elements of one list", len(pviews[k].([]interface{})), len(pvList)),
							Expected: "what the same call returns when made alone: " + clipStr(expectedString(pres[k]), 400), Observed: fmt.Sprintf("goroutine %d of %d: %s", k, N, clipStr(s.o.String(), 400)), Class: "concurrent calls on prefix views of one list: result differs"})
						return
					}
				case 8:
					for j, o := range wcalls[k] {
						d := (k*3 + j) % len(wildDocs)
						if o.Panicked || (wres[d].Skipped == "" && !wres[d].DontCare && !matches(wres[d], o)) {
							r.Violate(&mon.Violation{Workload: "rounds", Index: i, API: c12Modes[mode], Expr: expr, Doc: wildDocs[d], Expected: "what the same call returns when made alone: " + expectedString(wres[d]),
								Observed: fmt.Sprintf("goroutine %d of %d, call %d: %s", k, N, j, o.String()), Class: "concurrent calls on different documents: result differs"})
							return
						}
					}
				case 7:
					for idx, o := range wout[k] {
						if o.Panicked || (wres7[idx].Skipped == "" && !wres7[idx].DontCare && !matches(wres7[idx], o)) {
							r.Violate(&mon.Violation{Workload: "rounds", Index: i, API: c12Modes[mode], Expr: wexprs[idx], Doc: doc, Expected: "what the same call returns when made alone: " + expectedString(wres7[idx]),
								Observed: fmt.Sprintf("goroutine %d of %d, one of %d expressions in rotation: %s", k, N, len(wexprs), o.String()), Class: "concurrent one-shot Search over many expressions: result differs"})
							return
						}
					}
				case 10:
					if k%2 == 1 {
						break
					}
					fallthrough
				case 5, 6:
					so := s.o
					if so.Err == nil {
						so.V = docs.ToGeneric(so.V, lower)
					}
					if res.Skipped == "" && !res.DontCare && !matches(res, so) {
						r.Violate(&mon.Violation{Workload: "rounds", Index: i, API: c12Modes[mode], Expr: expr, Doc: doc, Expected: "what the same call returns when made alone (JSON-normalised): " + expectedString(res),
							Observed: fmt.Sprintf("goroutine %d of %d: %s", k, N, so.String()), Class: "concurrent result on struct data differs"})
						return
					}
				case 0, 1, 2:
					if res.Skipped == "" && !res.DontCare && !matches(res, s.o) {
						r.Violate(&mon.Violation{Workload: "rounds", Index: i, API: c12Modes[mode], Expr: expr, Doc: doc, Expected: "what the same call returns when made alone: " + expectedString(res),
							Observed: fmt.Sprintf("goroutine %d of %d: %s", k, N, s.o.String()), Class: "concurrent result differs"})
						return
					}
				case 3:
					if k%2 == 0 {
						if s.sexpr != before {
							r.Violate(&mon.Violation{Workload: "rounds", Index: i, API: c12Modes[mode], Expr: expr, Doc: doc, Expected: "concurrent Compile gives the AST of a sequential Compile: " + before, Observed: s.sexpr + " " + s.o.String(), Class: "concurrent Compile differs"})
							return
						}
						if res.Skipped == "" && !res.DontCare && !matches(res, s.o) {
							r.Violate(&mon.Violation{Workload: "rounds", Index: i, API: c12Modes[mode], Expr: expr, Doc: doc, Expected: expectedString(res), Observed: s.o.String(), Class: "concurrent Compile+Search result differs"})
							return
						}
					}
				case 4:
					if s.sexpr != before {
						r.Violate(&mon.Violation{Workload: "rounds", Index: i, API: c12Modes[mode], Expr: expr, Doc: doc, Expected: before, Observed: s.sexpr + " " + s.o.String(), Class: "concurrent Parse differs"})
						return
					}
				}
			}
			if after := jmespath.VerifSexpr(jmespath.VerifAST(jp)); after != before {
				r.Violate(&mon.Violation{Workload: "rounds", Index: i, API: c12Modes[mode], Expr: expr, Doc: doc, Expected: "shared compiled expression unchanged: " + before, Observed: after, Class: "shared AST modified"})
				return
			}
			if mode == 0 || mode == 2 || mode == 7 {
				if mon.Snapshot(shared) != mon.Snapshot(withSpare(doc)) {
					r.Violate(&mon.Violation{Workload: "rounds", Index: i, API: c12Modes[mode], Expr: expr, Doc: doc, Expected: "shared document unchanged", Observed: mon.Show(shared), Class: "shared document modified"})
					return
				}
			}
			// overlap accounting from the per-goroutine timestamps
			pairs := 0
			maxInFlight := 0
			for a := range slots {
				in := 0
				for b := range slots {
					if slots[a].start < slots[b].end && slots[b].start < slots[a].end {
						in++
						if a < b {
							pairs++
						}
					}
				}
				if in > maxInFlight {
					maxInFlight = in
				}
			}
			t.CountN("overlapping call pairs", int64(pairs))
			t.Set("in-flight set sizes seen", fmt.Sprintf("%02d", maxInFlight))
			t.Set("modes", c12Modes[mode])
			t.Count("rounds with N=" + fmt.Sprint(N) + " GOMAXPROCS=" + fmt.Sprint(procs))
			if pairs > 0 {
				t.Nontrivial(fmt.Sprintf("%d/%d/%s", mode, N, expr))
			}
			if i%401 == 0 {
				t.Sample(map[string]interface{}{"mode": c12Modes[mode], "goroutines": N, "gomaxprocs": procs, "expression": expr, "overlapping_pairs": pairs})
			}
		}}
	r.Exec(w, c12Alone(r, rl))
	r.Extra["race_log_active"] = rl != nil
}

// c12Alone: rounds judged against the same call made alone (on an identical, separately built document, through a separately
// compiled expression), for documents the reference model does not describe: leaves that are json.Number / int / pointers,
// Go structs with typed slices of unusual element types, lists of thousands of elements. The shared document and the shared
// compiled expression are cold when the goroutines are released: whatever a first call converts, caches or farms out happens
// while the others are in flight.
type c12Leaf struct {
	N float64
	S string
}
type c12Named string
type c12Odd struct {
	Ints  []int
	Flags []bool
	Grid  [][]string
	Ptrs  []*c12Leaf
	U8    []uint8
	F32   []float32
	Names []c12Named
	Any   []interface{}
	Maps  []map[string]float64
	I64   []int64
	Objs  []c12Leaf
	Nums  []float64
	Strs  []string
	NumsL []float64
}

func c12Alone(r *mon.Run, rl *mon.RaceLog) mon.Workload {
	type ac struct {
		name  string
		mk    func() interface{}
		exprs []string
	}
	big := func(n int, str bool) interface{} {
		a := make([]interface{}, n)
		x := uint64(88172645463325252)
		for i := range a {
			x ^= x << 13
			x ^= x >> 7
			x ^= x << 17
			if str {
				a[i] = fmt.Sprintf("s%05d", x%100000)
			} else {
				a[i] = float64(x%2000003) - 1e6
			}
		}
		return a
	}
	cases := []ac{
		{"json.Number leaves (a document decoded with UseNumber)", func() interface{} { return docs.Exotic(c06BaseDoc(), 0) },
			[]string{"ao[*].n", "ao[*].o.n", "o.o.n", "ao[?n == `1`].s", "to_string(ao[0])", "an[1:]", "length(an)", "ao[*].an[]", "o.ao[*].n", "[ao[0].o, o.o]", "values(o.o)", "aa[][]", "ao[*].an[0]", "not_null(z, ao[1].o.n)", "ao[*].{n: n, d: o.n}", "map(&o.n, ao)", "type(o.o.n)", "@"}},
		{"int / uint8 leaves", func() interface{} { return docs.Exotic(c06BaseDoc(), 1) },
			[]string{"ao[*].n", "ao[*].o.n", "o.o.n", "to_string(ao[0])", "an[1:]", "ao[*].an[]", "values(o.o)", "aa[][]", "map(&o.n, ao)", "@"}},
		{"pointer leaves", func() interface{} { return docs.Exotic(c06BaseDoc(), 2) },
			[]string{"ao[*].n", "ao[*].o.n", "o.o.n", "to_string(ao[0])", "an[1:]", "ao[*].an[]", "aa[][]", "@"}},
		{"pointers to containers", func() interface{} { return docs.Exotic(c06BaseDoc(), 4) },
			[]string{"ao[*].n", "ao[*].o.n", "o.o.n", "an[1:]", "ao[*].an[]", "aa[][]", "length(an)", "@"}},
		{"typed slices of unusual element types", func() interface{} {
			return &c12Odd{Ints: []int{3, 1, 2}, Flags: []bool{true, false}, Grid: [][]string{{"b", "a"}, {"c"}}, Ptrs: []*c12Leaf{{2, "x"}, nil, {1, "y"}}, U8: []uint8{7, 8}, F32: []float32{1.5, 2.5}, Names: []c12Named{"q", "p"},
				Any: []interface{}{float64(1), "s", nil}, Maps: []map[string]float64{{"a": 2}, {"a": 1}}, I64: []int64{9, 8, 7}, Objs: []c12Leaf{{3, "c"}, {1, "a"}}, Nums: []float64{3, 1, 2, 0.5, -4}, Strs: []string{"pear", "fig", "apple", "date"},
				NumsL: func() []float64 {
					a := make([]float64, 3000)
					for k := range a {
						a[k] = float64((k*7919)%3001) - 1500
					}
					return a
				}()}
		}, []string{"length(Ints)", "reverse(Flags)", "Grid[0]", "to_array(Ints)", "contains(Ints, `1`)", "join(',', Grid[0])", "map(&@, Ints)", "not_null(Ints)", "sort_by(Objs, &N)[*].S", "max_by(Maps, &a)", "Ints[1:]", "Grid[][]", "length(U8)",
			"[length(Ints), length(Flags), length(Grid), length(F32), length(Names), length(I64), length(Maps), length(Ptrs)]", "reverse(Names)", "reverse(I64)", "to_array(F32)", "map(&[0], Grid)", "Ptrs[*].S", "length(Ptrs[*])", "not_null(U8, Ints)",
			"contains(Names, 'q')", "to_string(Ints)", "to_string(@)", "type(Flags)", "[reverse(Ints), reverse(U8), reverse(F32), reverse(Grid)]", "map(&N, Objs)", "Any[?@]", "merge(Maps[0], Maps[1])", "keys(Maps[0])", "sort(Ints)", "max(I64)", "sum(F32)", "avg(U8)", "join('', Names)",
			"sort(Nums)", "sort(Strs)", "max(Nums)", "min(Strs)", "sum(Nums)", "avg(Nums)", "reverse(Nums)", "sort(Nums)[0]", "[sort(Nums), Nums]", "sort(NumsL)[0]", "sort(NumsL)[-1]", "sum(NumsL)", "max(NumsL)", "join(',', Strs)", "sort_by(Nums, &@)", "length(sort(Strs))", "reverse(sort(Nums))", "map(&abs(@), Nums)", "Nums[?@ > `1`]", "contains(Strs, 'fig')"}},
		{"a list of 6000 numbers", func() interface{} { return big(6000, false) },
			[]string{"sort(@)[0]", "sort(@)[-1]", "sort(@)[2999]", "reverse(sort(@))[0]", "sort_by(@, &@)[0]", "max(@)", "min(@)", "sum(@)", "length(sort(@))", "sort(@)[:3]", "sort(@[:4096])[-1]", "sort(@[:4097])[0]", "map(&abs(@), @)[-1]", "[?@ > `999990`]", "length([?@ < `0`])", "sort(@) == sort(reverse(@))"}},
		{"a list of 5000 strings", func() interface{} { return big(5000, true) },
			[]string{"sort(@)[0]", "sort(@)[-1]", "sort(@)[2500]", "length(join('', sort(@)))", "sort_by(@, &@)[-1]", "max(@)", "min(@)", "reverse(sort(@))[:2]", "length(sort(@))", "contains(@, 's00000')", "map(&length(@), @)[0]", "sort(@) == sort(reverse(@))"}},
	}
	type one struct {
		c, e int
	}
	var all []one
	for ci, c := range cases {
		for ei := range c.exprs {
			all = append(all, one{ci, ei})
		}
	}
	canon := func(o mon.Observed) string {
		if o.Panicked {
			return "PANIC " + o.Panic
		}
		if o.Err != nil {
			return "error"
		}
		if _, merr := json.Marshal(o.V); merr != nil {
			return "not serialisable: " + mon.Snapshot(o.V) // (a value JSON cannot hold - a non-finite number: compared as it is)
		}
		return mon.Snapshot(docs.JSONForm(o.V))
	}
	reps := tierPick(r, 1, 12)
	prev := runtime.GOMAXPROCS(0)
	return mon.Workload{Name: "rounds-against-the-call-made-alone", N: len(all) * 4 * reps, Serial: true, Batch: 20,
		Describe: func(i int) string {
			x := all[(i/4)%len(all)]
			return cases[x.c].exprs[x.e] + " on " + cases[x.c].name
		},
		Do: func(i int, t *mon.Tally) {
			defer runtime.GOMAXPROCS(prev)
			x := all[(i/4)%len(all)]
			c := cases[x.c]
			expr := c.exprs[x.e]
			oneShot := i%2 == 1
			procs := []int{16, 2}[(i/2)%2]
			N := []int{16, 8, 32}[(i/4/len(all))%3]
			alone := canon(apiCompiledSearch(expr, c.mk())) // a separate document, a separate compiled expression: nothing here is warmed up
			jp, co := apiCompile(expr)
			if co.Panicked || co.Err != nil {
				r.Inconclusive("C12 workload expression does not compile: " + expr + ": " + co.String())
				return
			}
			shared := c.mk()
			before := mon.Snapshot(shared)
			runtime.GOMAXPROCS(procs)
			outs := make([]mon.Observed, N)
			var wg sync.WaitGroup
			gate := make(chan struct{})
			for k := 0; k < N; k++ {
				wg.Add(1)
				go func(k int) {
					defer wg.Done()
					<-gate
					if oneShot {
						outs[k] = apiSearch(expr, shared)
					} else {
						outs[k] = apiJP(jp, shared)
					}
				}(k)
			}
			close(gate)
			wg.Wait()
			t.Evals(N)
			api := "(*JMESPath).Search x shared document"
			if oneShot {
				api = "one-shot Search x shared document"
			}
			desc := fmt.Sprintf("%s; %d goroutines, GOMAXPROCS=%d", c.name, N, procs)
			if rep := rl.Grown(); rep != "" {
				n, frames := mon.RaceSummary(rep, "go-jmespath")
				if len(frames) > 0 {
					r.Violate(&mon.Violation{Workload: "rounds-against-the-call-made-alone", Index: i, API: api, Expr: expr, DocDesc: desc,
						Expected: "no data race on the compiled expression, shared library state or a document the callers only read",
						Observed: fmt.Sprintf("race detector: %d report(s) with library frames: %s", n, strings.Join(frames, ", ")), Detail: clipStr(rep, 8000), Class: "race: " + strings.Join(frames, ", ")})
					return
				}
				r.Inconclusive("race report without a library frame (harness-internal?): " + clipStr(rep, 400))
			}
			if after := mon.Snapshot(shared); after != before {
				r.Violate(&mon.Violation{Workload: "rounds-against-the-call-made-alone", Index: i, API: api, Expr: expr, DocDesc: desc, Expected: "shared document unchanged: " + clipStr(before, 400), Observed: clipStr(after, 400), Class: "shared document modified"})
				return
			}
			for k, o := range outs {
				if got := canon(o); got != alone {
					r.Violate(&mon.Violation{Workload: "rounds-against-the-call-made-alone", Index: i, API: api, Expr: expr, DocDesc: desc, Expected: "what the same call returns when made alone: " + clipStr(alone, 400),
						Observed: fmt.Sprintf("goroutine %d of %d: %s", k, N, clipStr(got, 400)), Detail: o.Stack, Class: "concurrent result differs from the call made alone"})
					return
				}
			}
			t.Count("rounds judged against the call made alone")
			t.Nontrivial("alone:" + strconv.Itoa(i))
		}}
}

// c12Poly: mode (l). Expressions whose argument is of a different kind from one document to the next (functions
// that accept several kinds), and comparisons of large containers that live in the shared documents; with the number
// of calls each goroutine makes per round.
func c12Poly(quick bool) ([]*gen.Expr, []int, []interface{}) {
	f := func(n string) *gen.Expr { return gen.Field(n) }
	k := func() *gen.Expr { return gen.ExpRef(gen.Field("k")) }
	cheap, dear := 1000, 50
	if !quick {
		cheap, dear = 6000, 300
	}
	type tc struct {
		e *gen.Expr
		n int
	}
	cases := []tc{
		{gen.Func("max", f("p")), cheap}, {gen.Func("min", f("p")), cheap}, {gen.Func("sort", f("p")), cheap}, {gen.MultiList(gen.Func("max", f("p")), gen.Func("min", f("p")), gen.Func("sort", f("p"))), cheap},
		{gen.Func("length", f("q")), cheap}, {gen.Func("reverse", f("q2")), cheap}, {gen.Func("contains", f("q2"), gen.Raw("a")), cheap}, {gen.Chain(gen.Func("max_by", f("pr"), k()), gen.StField("i")), cheap},
		{gen.Chain(gen.Func("sort_by", f("pr"), k()), gen.StListStar(), gen.StField("i")), cheap}, {gen.Chain(gen.Func("min_by", f("pr"), k()), gen.StField("i")), cheap}, {gen.MultiList(gen.Func("to_number", f("v")), gen.Func("to_string", f("v")), gen.Func("type", f("v"))), cheap},
		{gen.Func("join", gen.Raw(","), f("p")), cheap}, {gen.Func("sum", f("p")), cheap}, {gen.Func("not_null", f("z"), f("p")), cheap}, {gen.Func("to_array", f("v")), cheap},
		{gen.Cmp("==", f("l"), f("r")), dear}, {gen.Cmp("!=", f("l"), f("r")), dear}, {gen.Cmp("==", f("lo"), f("ro")), dear}, {gen.Chain(f("rows"), gen.StFilter(gen.Cmp("==", f("left"), f("right"))), gen.StField("id")), dear},
		{gen.Func("contains", f("lists"), f("r")), dear}, {gen.MultiList(gen.Cmp("==", f("l"), f("r")), gen.Cmp("==", f("r"), f("l")), gen.Cmp("==", f("l"), f("l"))), dear}, {gen.Chain(f("rows"), gen.StFilter(gen.Cmp("!=", f("left"), f("right"))), gen.StField("id")), dear},
	}
	var trees []*gen.Expr
	var calls []int
	for _, c := range cases {
		trees = append(trees, c.e)
		calls = append(calls, c.n)
	}
	var ds []interface{}
	for d := 0; d < 8; d++ {
		nums := d%2 == 0
		var p, q, q2, v interface{}
		var pr []interface{}
		if nums {
			p, v = []interface{}{float64(1), float64(10 + d), float64(3)}, float64(d)+0.5
			pr = []interface{}{map[string]interface{}{"k": float64(2), "i": float64(0)}, map[string]interface{}{"k": float64(9 - d), "i": float64(1)}, map[string]interface{}{"k": float64(2), "i": float64(2)}}
		} else {
			p, v = []interface{}{"a", fmt.Sprintf("p%d", d), "c"}, fmt.Sprint(d*3)
			pr = []interface{}{map[string]interface{}{"k": "m", "i": float64(0)}, map[string]interface{}{"k": fmt.Sprintf("%c", 'a'+d*3), "i": float64(1)}, map[string]interface{}{"k": "m", "i": float64(2)}}
		}
		switch d % 3 {
		case 0:
			q, q2 = "h\u00e9llo", "banana"
		case 1:
			q, q2 = []interface{}{float64(1), "a"}, []interface{}{"b", "a"}
		default:
			q, q2 = map[string]interface{}{"x": float64(1), "y": nil}, []interface{}{"x", float64(1)}
		}
		// twins: two containers of equal length that differ in their last element only (equal in documents 2 and 6)
		const L = 400
		l, rr := make([]interface{}, L), make([]interface{}, L)
		lo, ro := map[string]interface{}{}, map[string]interface{}{}
		for e := 0; e < L; e++ {
			l[e], rr[e] = float64(e), float64(e)
			if e < 120 {
				lo[fmt.Sprint("k", e)], ro[fmt.Sprint("k", e)] = []interface{}{float64(e), "x"}, []interface{}{float64(e), "x"}
			}
		}
		if d%4 != 2 {
			rr[L-1] = float64(-1)
			ro["k119"] = []interface{}{float64(119), "y"}
		}
		rows := []interface{}{map[string]interface{}{"id": float64(0), "left": l, "right": rr}, map[string]interface{}{"id": float64(1), "left": l, "right": l}, map[string]interface{}{"id": float64(2), "left": lo, "right": ro}, map[string]interface{}{"id": float64(3), "left": rr, "right": l}}
		ds = append(ds, map[string]interface{}{"p": p, "q": q, "q2": q2, "v": v, "pr": pr, "z": nil, "l": l, "r": rr, "lo": lo, "ro": ro, "rows": rows, "lists": []interface{}{l, lo, "x"}})
	}
	return trees, calls, ds
}
