package main

import (
	"strconv"
	"strings"
	"verifharness/docs"
	"verifharness/gen"
	"verifharness/mon"
	"verifharness/ref"
)

// C01 — core expression evaluation conforms to the specification.

func init() { register("C01", c01) }

func keyA(name string) []gen.Key { return []gen.Key{{Name: name}} }

// coreSpaces builds the exhaustive core-fragment spaces by operator count.
func coreSpaces() []gen.Space {
	atoms := gen.List(
		gen.Field("a"), gen.Field("b"), gen.QField("é"), gen.QField(""), gen.Current(),
		gen.LitJSON("1"), gen.LitJSON(`{"a":{"b":1}}`), gen.LitJSON("[1,[2]]"), gen.LitJSON("null"), gen.Raw("a'b"),
		gen.Chain(nil, gen.StIndex(0)), gen.Chain(nil, gen.StIndex(-1)),
	)
	steps := []gen.Step{gen.StField("a"), gen.StField("b"), gen.StQField("é"), gen.StIndex(0), gen.StIndex(1), gen.StIndex(-1), gen.StIndex(2), gen.StIndex(-3)}
	var un []func(*gen.Expr) *gen.Expr
	for _, s := range steps {
		un = append(un, gen.StepFn(s))
	}
	un = append(un,
		func(x *gen.Expr) *gen.Expr { return gen.Paren(x) },
		func(x *gen.Expr) *gen.Expr { return gen.MultiList(x) },
		func(x *gen.Expr) *gen.Expr { return gen.MultiHash(keyA("a"), []*gen.Expr{x}) },
	)
	bin := []func(a, b *gen.Expr) *gen.Expr{
		func(a, b *gen.Expr) *gen.Expr { return gen.Pipe(a, b) },
		func(a, b *gen.Expr) *gen.Expr { return gen.MultiList(a, b) },
		func(a, b *gen.Expr) *gen.Expr {
			return gen.MultiHash([]gen.Key{{Name: "a"}, {Name: "k k", Quoted: true}}, []*gen.Expr{a, b})
		},
		func(a, b *gen.Expr) *gen.Expr { return gen.AddStep(a, gen.StMultiList(b)) },
		func(a, b *gen.Expr) *gen.Expr { return gen.AddStep(a, gen.StMultiHash(keyA("b"), []*gen.Expr{b})) },
	}
	s0 := atoms
	s1 := gen.Materialize(gen.Union(gen.Map(s0, un...), gen.Product(s0, s0, bin...)))
	s2 := gen.Union(gen.Map(s1, un...), gen.Product(s0, s1, bin...), gen.Product(s1, s0, bin...))
	s3 := gen.Union(gen.Map(s2, un...), gen.Product(s0, s2, bin...), gen.Product(s2, s0, bin...), gen.Product(s1, s1, bin...))
	return []gen.Space{s0, s1, s2, s3}
}

func c01(r *mon.Run) {
	r.Rule = "exhaustive: every core-fragment tree (identifiers unquoted/quoted incl. \"\" and non-ASCII, sub-expressions, indices 0 1 -1 2 -3, literals, raw string, @, parentheses, pipe, multi-select list/hash standalone and after a dot) with <= 2 operator nodes x a 42-document universe (every key holds each JSON type at depth 0-2), both API entry points; " +
		"thorough: additionally every tree with 3 operator nodes on 2 documents each; plus seeded random deep core trees on random typed documents; plus 98 awkward member names (syntax look-alikes, quotes and backslash runs, dotted names next to the nested path they would spell) as quoted identifiers in 8 positions; plus 10 key names x 15 near-miss neighbours (first letter's case, all upper / lower, prefix, suffix, space, underscore, empty) present instead of or next to the key, in 7 expression forms; plus every index from -(len+3) to len+3 on arrays of 0...9, 15...17, 63...65, 255...257 elements in five positions; plus paths of 1...400 steps (2000 in thorough) in six shapes (distinct keys, fields and indices alternating, self-similar a.a.a… and [1][1][1]…, cut by a pipe, inside a multi-select) on documents where skipping or repeating one step changes the answer. node-kind pairs: 49 representatives of every node kind in each of the 38 single-hole grammar contexts and in every context of every context, on 3 documents (the trees this property owns: no function, operator or projection). A fixed quarter of all cases is preceded by a failing or odd call (process-wide state must not leak). Oracle: ref.RefSet (independent evaluator, calibrated on the 768 applicable compliance cases). " +
		"Non-trivial = distinct (expression, document) whose expected result is non-null; 'null because of a miss' is counted separately."
	r.Exhaustive = true
	r.Floor = 5000
	r.Assumptions = []string{"the reference evaluator ref.Eval implements the JMESPath specification for the core fragment (calibration: setup self-test against the official compliance results)"}
	sp := coreSpaces()
	cdocs := docs.CoreDocs()
	small := gen.Union(sp[0], sp[1], sp[2])
	nd := len(cdocs)
	exh := mon.Workload{Name: "core-exhaustive", N: small.Len() * nd, Batch: 4000,
		Describe: func(i int) string { return gen.Spell(small.At(i/nd)) + " on " + ref.Canon(cdocs[i%nd]) },
		Do: func(i int, t *mon.Tally) {
			tree := small.At(i / nd)
			doc := cdocs[i%nd]
			expr := gen.SpellTight(tree)
			cx := &caseCtx{r, t, "core-exhaustive", i}
			res, _, _ := cx.runBoth(tree, expr, doc)
			c01Account(t, tree, expr, doc, res, i)
		}}
	ws := []mon.Workload{exh}
	if r.Tier == "thorough" {
		s3 := sp[3]
		ws = append(ws, mon.Workload{Name: "core-size3", N: s3.Len() * 2, Batch: 20000,
			Describe: func(i int) string {
				return gen.Spell(s3.At(i/2)) + " on " + ref.Canon(cdocs[(i/2*7+i%2*13)%nd])
			},
			Do: func(i int, t *mon.Tally) {
				tree := s3.At(i / 2)
				doc := cdocs[(i/2*7+i%2*13)%nd]
				expr := gen.SpellTight(tree)
				cx := &caseCtx{r, t, "core-size3", i}
				res, _, _ := cx.runOne(tree, expr, doc)
				c01Account(t, tree, expr, doc, res, i)
			}})
	}
	// spellings of index numbers: leading zeros and -0 are decimal (never octal, never an error)
	spells := []string{"0", "00", "-0", "07", "08", "09", "010", "011", "012", "-01", "-08", "-010", "-011", "0010", "10", "-10", "9", "-9"}
	longArr := make([]interface{}, 12)
	for k := range longArr {
		longArr[k] = map[string]interface{}{"b": float64(100 + k)}
	}
	spellDocs := []interface{}{longArr, map[string]interface{}{"a": longArr}, seqArray(9)}
	ws = append(ws, mon.Workload{Name: "index-spellings", N: len(spells) * 4 * len(spellDocs),
		Do: func(i int, t *mon.Tally) {
			doc := spellDocs[i%len(spellDocs)]
			k := i / len(spellDocs)
			sp := spells[k/4]
			var tree *gen.Expr
			switch k % 4 {
			case 0:
				tree = gen.Chain(nil, gen.StIndexS(sp))
			case 1:
				tree = gen.Chain(gen.Field("a"), gen.StIndexS(sp), gen.StField("b"))
			case 2:
				tree = gen.MultiList(gen.Chain(gen.Current(), gen.StIndexS(sp)), gen.Chain(gen.Field("a"), gen.StIndexS(sp)))
			default:
				tree = gen.Pipe(gen.Chain(nil, gen.StIndexS(sp)), gen.Field("b"))
			}
			expr := gen.SpellTight(tree)
			cx := &caseCtx{r, t, "index-spellings", i}
			res, _, _ := cx.runBoth(tree, expr, doc)
			c01Account(t, tree, expr, doc, res, i)
		}})
	// long chains: the n-th step of a path must be applied exactly once whatever n is (loops over fixed-size
	// buffers, recursion cut-offs); every level has its own key / position, or (self-similar modes) its own
	// depth marker, so that a skipped or repeated step changes the answer
	chainLens := []int{1, 2, 3, 5, 7, 8, 9, 12, 15, 16, 17, 18, 20, 24, 31, 32, 33, 40, 48, 63, 64, 65, 100, 127, 128, 129, 200, 255, 256, 257, 400}
	if r.Tier == "thorough" {
		chainLens = append(chainLens, 511, 512, 513, 1000, 1023, 1024, 1025, 2000)
	}
	const chainModes = 9
	ws = append(ws, mon.Workload{Name: "long-chains", N: len(chainLens) * chainModes, Batch: 10,
		Do: func(i int, t *mon.Tally) {
			tree, doc := longChain(chainLens[i/chainModes], i%chainModes)
			expr := gen.SpellTight(tree)
			cx := &caseCtx{r, t, "long-chains", i}
			res, _, _ := cx.runBoth(tree, expr, doc)
			if nonNull(res) {
				t.Count("long chains with a non-null expected result")
				t.Nontrivial("chain:" + strconv.Itoa(i))
			}
		}})
	// every index from -(len+3) to len+3 on arrays of length 0..9 and around 16 / 64 / 256 elements (index equal to
	// the length, to -length, one beyond either end), bare, after a field, inside a multi-select, after a pipe
	ilens := []int{0, 1, 2, 3, 4, 5, 6, 7, 8, 9, 15, 16, 17, 63, 64, 65, 255, 256, 257}
	type ivl struct{ n, idx int }
	var ivls []ivl
	for _, n := range ilens {
		for k := -(n + 3); k <= n+3; k++ {
			if n > 9 && k > -(n-2) && k < n-2 && k != 0 && k != -1 && k != 1 {
				continue // long arrays: only the ends
			}
			ivls = append(ivls, ivl{n, k})
		}
	}
	ws = append(ws, mon.Workload{Name: "index-versus-length", N: len(ivls) * 5,
		Do: func(i int, t *mon.Tally) {
			c := ivls[i/5]
			arr := seqArray(c.n)
			ix := gen.StIndex(int64(c.idx))
			var tree *gen.Expr
			var doc interface{} = map[string]interface{}{"a": arr, "b": []interface{}{arr, arr}}
			switch i % 5 {
			case 0:
				tree, doc = gen.Chain(nil, ix), arr
			case 1:
				tree = gen.Chain(gen.Field("a"), ix)
			case 2:
				tree = gen.MultiList(gen.Chain(gen.Field("a"), ix), gen.Chain(gen.Field("a"), gen.StIndex(int64(-c.idx))))
			case 3:
				tree = gen.Pipe(gen.Field("a"), gen.Chain(nil, ix))
			default:
				tree = gen.Chain(gen.Field("b"), gen.StIndex(1), ix)
			}
			expr := gen.SpellTight(tree)
			cx := &caseCtx{r, t, "index-versus-length", i}
			res, _, _ := cx.runBoth(tree, expr, doc)
			c01Account(t, tree, expr, doc, res, i)
		}})
	// near-miss keys: the document holds a key that differs from the one asked for in the case of its first
	// letter, in case altogether, by a prefix / suffix / space / underscore, or that is its quoted-empty
	// neighbour; a missing key is null whatever its neighbours are called
	nmBases := []string{"name", "Name", "a", "A", "fooBar", "_x", "x_", "é", "É", "n1"}
	nmVariants := func(k string) []string {
		rs := []rune(k)
		up := strings.ToUpper(string(rs[:1])) + string(rs[1:])
		lo := strings.ToLower(string(rs[:1])) + string(rs[1:])
		return []string{up, lo, strings.ToUpper(k), strings.ToLower(k), strings.Title(k), k + " ", " " + k, "_" + k, k + "_", string(rs[:len(rs)-1]), k + k, k + "2", "", k + ".", "\"" + k + "\""}
	}
	type nmc struct{ key, other string }
	var nms []nmc
	for _, b := range nmBases {
		for _, v := range nmVariants(b) {
			if v != b {
				nms = append(nms, nmc{b, v})
			}
		}
	}
	const nmForms = 7
	ws = append(ws, mon.Workload{Name: "near-miss-keys", N: len(nms) * nmForms * 2,
		Do: func(i int, t *mon.Tally) {
			c := nms[i/2/nmForms]
			obj := map[string]interface{}{c.other: "other-value"}
			if i%2 == 1 {
				obj[c.key] = "own-value" // both present: each name selects its own
			}
			k, o := gen.Field(c.key), gen.Field(c.other)
			rows := []interface{}{obj, map[string]interface{}{c.other: float64(1)}, map[string]interface{}{c.key: float64(2)}}
			var doc interface{} = obj
			var tree *gen.Expr
			switch i / 2 % nmForms {
			case 0:
				tree = k
			case 1:
				tree, doc = gen.Chain(gen.Field("o"), gen.StField(c.key)), map[string]interface{}{"o": obj}
			case 2:
				tree = gen.MultiList(k, o)
			case 3:
				tree = gen.MultiHash([]gen.Key{{Name: "x"}, {Name: "y"}}, []*gen.Expr{k, o})
			case 4:
				tree, doc = gen.Chain(nil, gen.StListStar(), gen.StField(c.key)), rows
			case 5:
				tree, doc = gen.Chain(nil, gen.StListStar(), gen.StMultiList(k, o)), rows
			default:
				tree = gen.Pipe(gen.Current(), k)
			}
			expr := gen.SpellTight(tree)
			cx := &caseCtx{r, t, "near-miss-keys", i}
			res, _, _ := cx.runBoth(tree, expr, doc)
			c01Account(t, tree, expr, doc, res, i)
			t.Count("near-miss key cases")
		}})
	// awkward member names (syntax look-alikes, delimiters and escapes, dots with a nested decoy) as quoted
	// identifiers in every position a name can stand in
	const akForms = 12
	ws = append(ws, mon.Workload{Name: "awkward-keys", N: len(awkwardKeys) * akForms,
		Do: func(i int, t *mon.Tally) {
			k := awkwardKeys[i/akForms]
			obj := awkwardDoc(k)
			K := gen.QField(k)
			if i%akForms >= 8 {
				// the same name spelled with \uXXXX for everything that is not printable ASCII (forms 8-10) or with a seeded
				// mix of raw characters, short escapes and \u escapes (form 11): a quoted identifier is JSON string syntax
				mode := gen.EncAllU
				if i%akForms == 11 {
					mode = gen.EncMixed
				}
				q := gen.EncodeString(k, mode, gen.DeriveN(r.Seed, "c01ak", i))
				K.QSrc = q[1 : len(q)-1]
			}
			var tree *gen.Expr
			var doc interface{} = obj
			switch i % akForms {
			case 0:
				tree = K
			case 1:
				tree, doc = gen.Chain(gen.Field("o"), gen.StQField(k)), map[string]interface{}{"o": obj}
			case 2:
				tree = gen.MultiHash([]gen.Key{{Name: k, Quoted: true}}, []*gen.Expr{K})
			case 3:
				tree = gen.MultiList(K, gen.LitVal(k)) // (a raw string cannot end in a backslash: the value is written as a JSON literal)
			case 4:
				tree, doc = gen.Chain(gen.Field("rows"), gen.StListStar(), gen.StQField(k)), map[string]interface{}{"rows": []interface{}{obj, map[string]interface{}{}, obj}}
			case 5:
				tree, doc = gen.Pipe(gen.Field("o"), K), map[string]interface{}{"o": obj}
			case 6:
				tree, doc = gen.Chain(gen.Field("o"), gen.StQField(k), gen.StQField(k)), map[string]interface{}{"o": map[string]interface{}{k: obj}}
			case 8, 11:
				tree = K
			case 9:
				tree, doc = gen.Pipe(gen.Field("o"), gen.MultiList(K, gen.LitVal(k))), map[string]interface{}{"o": obj}
			case 10:
				tree, doc = gen.Chain(gen.Paren(gen.Field("o")), gen.StMultiList(K)), map[string]interface{}{"o": obj}
			default:
				tree, doc = gen.Chain(gen.Field("labels"), gen.StQField(k)), map[string]interface{}{"labels": obj, "metadata": map[string]interface{}{"labels": obj}}
			}
			expr := gen.SpellTight(tree)
			cx := &caseCtx{r, t, "awkward-keys", i}
			res, _, _ := cx.runBoth(tree, expr, doc)
			c01Account(t, tree, expr, doc, res, i)
		}})
	// members called true, false, null (JMESPath has no keywords: these are ordinary names), absent or holding
	// every kind of value, false-like ones in particular
	kwNames := []string{"true", "false", "null"}
	kwVals := []interface{}{"<absent>", false, "", []interface{}{}, map[string]interface{}{}, float64(0), "x", nil, true, []interface{}{float64(1)}}
	const kwForms = 8
	ws = append(ws, mon.Workload{Name: "keyword-named-members", N: len(kwNames) * len(kwVals) * kwForms,
		Do: func(i int, t *mon.Tally) {
			name := kwNames[i/kwForms/len(kwVals)]
			val := kwVals[i/kwForms%len(kwVals)]
			obj := map[string]interface{}{"other": "o"}
			if s, isStr := val.(string); !isStr || s != "<absent>" {
				obj[name] = val
			}
			k := &gen.Expr{K: gen.KField, Name: name} // written bare, without quotes
			var doc interface{} = obj
			var tree *gen.Expr
			switch i % kwForms {
			case 0:
				tree = k
			case 1:
				tree, doc = gen.Chain(gen.Field("o"), gen.Step{K: gen.SField, Name: name}), map[string]interface{}{"o": obj}
			case 2:
				tree = gen.MultiList(k, gen.Field("other"))
			case 3:
				tree = gen.MultiHash([]gen.Key{{Name: name}}, []*gen.Expr{k})
			case 4:
				tree, doc = gen.Chain(gen.Field("rows"), gen.StListStar(), gen.Step{K: gen.SField, Name: name}), map[string]interface{}{"rows": []interface{}{obj, map[string]interface{}{}, float64(1)}}
			case 5:
				tree, doc = gen.Chain(gen.Field("missing"), gen.Step{K: gen.SField, Name: name}), obj
			case 6:
				tree, doc = gen.Chain(k, gen.StMultiList(gen.Current(), gen.Raw("x"))), obj
			default:
				tree, doc = gen.Pipe(k, gen.Current()), float64(5) // the current node is not an object
			}
			expr := gen.SpellTight(tree)
			cx := &caseCtx{r, t, "keyword-named-members", i}
			res, _, _ := cx.runBoth(tree, expr, doc)
			c01Account(t, tree, expr, doc, res, i)
		}})
	// every sequence of 2..5 hash members over three key names (repeats in every order: a b a b, a a b, …): the
	// last member of a name wins, every name that occurs is in the result
	hk := []string{"a", "b", "c"}
	nseq := 0
	for l, p := 2, 9; l <= 5; l, p = l+1, p*3 {
		nseq += p
	}
	ws = append(ws, mon.Workload{Name: "repeated-hash-keys", N: nseq * 2,
		Do: func(i int, t *mon.Tally) {
			k := i / 2
			l, p := 2, 9
			for k >= p {
				k -= p
				l++
				p *= 3
			}
			keys := make([]gen.Key, l)
			vals := make([]*gen.Expr, l)
			for q := 0; q < l; q++ {
				keys[q] = gen.Key{Name: hk[k%3], Quoted: (q+i)%4 == 3}
				k /= 3
				vals[q] = []*gen.Expr{gen.Field("p"), gen.Field("q"), gen.Chain(gen.Field("r"), gen.StIndex(0)), gen.Chain(gen.Field("r"), gen.StField("s")), gen.LitJSON("false")}[q]
			}
			tree := gen.MultiHash(keys, vals)
			var doc interface{} = docs.J(`{"p":1,"q":"two","r":[3,{"s":4}]}`)
			if i%2 == 1 {
				tree = gen.Chain(gen.Field("rows"), gen.StListStar(), gen.StMultiHash(keys, vals))
				doc = docs.J(`{"rows":[{"p":1,"q":"two","r":[3]},{"p":null,"q":[],"r":{"s":5}}]}`)
			}
			expr := gen.SpellTight(tree)
			cx := &caseCtx{r, t, "repeated-hash-keys", i}
			res, _, _ := cx.runBoth(tree, expr, doc)
			c01Account(t, tree, expr, doc, res, i)
		}})
	nrand := tierPick(r, 40000, 1000000)
	ws = append(ws, mon.Workload{Name: "core-random", N: nrand,
		Do: func(i int, t *mon.Tally) {
			rng := gen.DeriveN(r.Seed, "c01rand", i)
			g := gen.NewTreeGen(rng)
			g.Funcs, g.Proj, g.Logic = false, false, false
			g.MaxDepth = 3 + rng.Intn(6)
			g.IllTyped = 6
			tree := g.Expr(0, gen.WAny)
			dg := docs.NewRand(rng)
			var doc interface{}
			if rng.Chance(1, 5) {
				doc = dg.Doc()
			} else {
				doc = dg.TypedDoc(0)
			}
			expr := gen.Spell(tree)
			cx := &caseCtx{r, t, "core-random", i}
			res, _, _ := cx.runBoth(tree, expr, doc)
			c01Account(t, tree, expr, doc, res, i)
		}})
	// an index is for lists: on an object (also one whose member names are the spellings of the indices), a string, a number it
	// is a type mismatch, null; a member is reached by name only
	numDocs := []interface{}{
		docs.J(`{"rows":{"0":"zero","1":"one","-1":"minus one","2":"two","00":"x","1.0":"y"},"0":"top zero","1":"top one","-1":"top minus","list":["l0","l1"],"s":"abc","n":10}`),
		docs.J(`{"rows":[{"0":"a0","1":"a1"},{"0":"b0","-1":"b-1"},["c0","c1"],"str",null],"0":[1,2],"1":{"0":"deep"}}`),
		docs.J(`{"0":"only zero"}`), docs.J(`["e0",{"0":"in list","1":"x"},"e2"]`), docs.J(`"0123"`),
	}
	fld := func(n string) *gen.Expr { return gen.QField(n) }
	var numTrees []*gen.Expr
	for _, ix := range []int64{0, 1, -1, 2} {
		for _, head := range []*gen.Expr{gen.Field("rows"), nil, gen.Field("list"), gen.Field("s"), gen.Field("n"), fld("0"), fld("1")} {
			numTrees = append(numTrees, gen.Chain(gen.Clone(head), gen.StIndex(ix)), gen.Chain(gen.Clone(head), gen.StIndex(ix), gen.StIndex(0)), gen.Chain(gen.Clone(head), gen.StIndex(ix), gen.StQField("0")),
				gen.Chain(gen.Clone(head), gen.StQField("0"), gen.StIndex(ix)), gen.MultiList(gen.Chain(gen.Clone(head), gen.StIndex(ix)), gen.Chain(gen.Clone(head), gen.StQField(strconv.FormatInt(ix, 10)))),
				gen.Pipe(gen.Chain(gen.Clone(head), gen.StIndex(ix)), gen.Chain(nil, gen.StIndex(0))), gen.Chain(gen.Paren(gen.Chain(gen.Clone(head), gen.StIndex(ix))), gen.StQField("1")))
		}
	}
	ws = append(ws, mon.Workload{Name: "indices-on-objects-with-numeric-member-names", N: len(numTrees) * len(numDocs),
		Do: func(i int, t *mon.Tally) {
			tree, doc := numTrees[i/len(numDocs)], numDocs[i%len(numDocs)]
			expr := gen.SpellTight(tree)
			cx := &caseCtx{r, t, "indices-on-objects-with-numeric-member-names", i}
			res, _, _ := cx.runBoth(tree, expr, doc)
			c01Account(t, tree, expr, doc, res, i)
		}})
	// the same expression in every layout: a space, a tab, LF, CR, CRLF, runs of them, before the first and after the last token,
	// each white space character as the FIRST of its run and as a later one
	layouts := []func(toks []string) string{
		func(toks []string) string { return strings.Join(toks, "\r\n") }, func(toks []string) string { return strings.Join(toks, "\r") }, func(toks []string) string { return strings.Join(toks, "\n") },
		func(toks []string) string { return strings.Join(toks, "\t") }, func(toks []string) string { return strings.Join(toks, " \r\n\t ") }, func(toks []string) string { return strings.Join(toks, "\r ") },
		func(toks []string) string { return strings.Join(toks, "\n\r") }, func(toks []string) string { return "\r\n" + strings.Join(toks, " ") + "\r\n" }, func(toks []string) string { return "\t" + strings.Join(toks, "\t\t") + "\t" },
		func(toks []string) string { return " " + strings.Join(toks, "  ") + " " }, func(toks []string) string { return "\r" + strings.Join(toks, " ") + "\r" }, func(toks []string) string { return "\n" + strings.Join(toks, "\t\r") + "\n" },
	}
	nlay := tierPick(r, 3000, 60000)
	ws = append(ws, mon.Workload{Name: "white-space-layouts", N: nlay * len(layouts), Batch: 2000,
		Do: func(i int, t *mon.Tally) {
			rng := gen.DeriveN(r.Seed, "c01lay", i/len(layouts))
			g := gen.NewTreeGen(rng)
			g.Funcs, g.Proj, g.Logic = false, false, false
			g.MaxDepth = 1 + rng.Intn(4)
			tree := g.Expr(0, gen.WAny)
			doc := docs.NewRand(rng).TypedDoc(0)
			expr := layouts[i%len(layouts)](gen.Tokens(tree, gen.Min))
			cx := &caseCtx{r, t, "white-space-layouts", i}
			res, _, _ := cx.runOne(tree, expr, doc)
			c01Account(t, tree, expr, doc, res, i)
		}})
	// JSON literals with white space inside the backticks, before and after the value (JSON allows it around every value): the
	// literal denotes the value, whatever kind it is
	litVals := []string{"true", "false", "null", "1", "-0.5", "1e2", "\"s\"", "\"\"", "\" \"", "[]", "[1, 2]", "[ ]", "{}", "{\"a\": 1}", "{ }", "[true ]", "\"true \"", "0"}
	litPads := []string{"", " ", "\t", "\n", "\r", "  ", " \n\t", "\r\n"}
	ws = append(ws, mon.Workload{Name: "literals-with-white-space-inside-the-delimiters", N: len(litVals) * len(litPads) * len(litPads) * 4, Batch: 500,
		Do: func(i int, t *mon.Tally) {
			form := i % 4
			k := i / 4
			v, pre, post := litVals[k/(len(litPads)*len(litPads))], litPads[k/len(litPads)%len(litPads)], litPads[k%len(litPads)]
			lit := gen.LitJSON(pre + v + post)
			var tree *gen.Expr
			switch form {
			case 0:
				tree = lit
			case 1:
				tree = gen.Chain(gen.MultiList(lit, gen.Field("a")), gen.StIndex(0))
			case 2:
				tree = gen.Pipe(gen.Field("a"), gen.MultiHash(keyA("k"), []*gen.Expr{lit}))
			default:
				tree = gen.MultiList(lit, gen.LitJSON(v), gen.Raw(v+post))
			}
			expr := gen.Spell(tree)
			cx := &caseCtx{r, t, "literals-with-white-space-inside-the-delimiters", i}
			res, _, _ := cx.runBoth(tree, expr, map[string]interface{}{"a": float64(1)})
			c01Account(t, tree, expr, nil, res, i)
		}})
	// hashes that name members after themselves (`{a: a, b: b}`), with names repeated, on objects that have exactly, fewer and more
	// members than the hash has pairs: the result has one member per distinct name - it is never the input object itself
	idNames := []string{"a", "b", "c"}
	idDocs := []interface{}{docs.J(`{"a":1,"b":2}`), docs.J(`{"a":1}`), docs.J(`{"a":1,"b":2,"c":3}`), docs.J(`{"a":null,"b":2}`), docs.J(`{"b":2,"c":3}`), docs.J(`{"a":{"a":1,"b":2},"b":[1]}`), docs.J(`{}`), docs.J(`[{"a":1,"b":2}]`)}
	nid := 3 + 9 + 27 + 81
	ws = append(ws, mon.Workload{Name: "hashes-that-name-members-after-themselves", N: nid * len(idDocs) * 2, Batch: 500,
		Do: func(i int, t *mon.Tally) {
			doc := idDocs[i/2%len(idDocs)]
			k := i / 2 / len(idDocs)
			l, p := 1, 3
			for k >= p {
				k -= p
				l++
				p *= 3
			}
			keys := make([]gen.Key, l)
			vals := make([]*gen.Expr, l)
			for q := 0; q < l; q++ {
				keys[q] = gen.Key{Name: idNames[k%3]}
				vals[q] = gen.Field(idNames[k%3])
				k /= 3
			}
			tree := gen.MultiHash(keys, vals)
			if i%2 == 1 {
				tree = gen.Chain(gen.MultiList(gen.Current(), gen.Field("a")), gen.StListStar(), gen.StMultiHash(keys, vals))
			}
			expr := gen.SpellTight(tree)
			cx := &caseCtx{r, t, "hashes-that-name-members-after-themselves", i}
			res, _, _ := cx.runBoth(tree, expr, doc)
			c01Account(t, tree, expr, doc, res, i)
		}})
	// one document object that its owner UPDATES between searches (the same map, the same backing array, the same sizes - other
	// values): every search answers for the document as it is now
	updExprs := []*gen.Expr{gen.Chain(gen.Field("items"), gen.StIndex(-1)), gen.Chain(gen.Field("items"), gen.StIndex(0)), gen.Field("n"), gen.Chain(gen.Field("o"), gen.StField("k")), gen.MultiList(gen.Field("n"), gen.Chain(gen.Field("items"), gen.StIndex(1))),
		gen.MultiHash(keyA("v"), []*gen.Expr{gen.Chain(gen.Field("o"), gen.StField("k"))}), gen.Pipe(gen.Field("items"), gen.Chain(nil, gen.StIndex(2))), gen.Current(), gen.Chain(gen.Current(), gen.StField("s")), gen.Chain(gen.Field("rows"), gen.StIndex(0), gen.StField("a")), gen.Chain(nil, gen.StIndex(1))}
	ws = append(ws, mon.Workload{Name: "one-document-object-updated-between-searches", N: len(updExprs) * 2, Batch: 4,
		Do: func(i int, t *mon.Tally) {
			tree := updExprs[i/2]
			expr := gen.Spell(tree)
			jp, co := apiCompile(expr)
			if co.Panicked || co.Err != nil {
				r.Inconclusive("C01 workload expression does not compile: " + expr)
				return
			}
			items := []interface{}{float64(1), float64(2), float64(3)}
			inner := map[string]interface{}{"k": "k0"}
			row := map[string]interface{}{"a": float64(0)}
			m := map[string]interface{}{"items": items, "n": float64(0), "o": inner, "s": "s0", "rows": []interface{}{row}}
			arrDoc := []interface{}{float64(0), float64(0), float64(0)}
			cx := &caseCtx{r, t, "one-document-object-updated-between-searches", i}
			for step := 1; step <= 40; step++ {
				// the owner's update: same containers, new contents (a null now and then, a value of another kind)
				items[step%3], m["n"], inner["k"], m["s"], row["a"] = float64(step*7), float64(step), "k"+strconv.Itoa(step), "s"+strconv.Itoa(step%5), float64(step%4)
				if step%6 == 0 {
					items[2], inner["k"] = nil, float64(step)
				}
				arrDoc[step%3] = float64(step)
				var doc interface{} = m
				if i%2 == 1 {
					doc = arrDoc
				}
				want := ref.RefSet(tree, mon.DeepCopy(doc), gen.Quirks{})
				o := apiJP(jp, doc)
				if !cx.judge(tree, expr, mon.DeepCopy(doc), "Compile+Search (search "+strconv.Itoa(step)+" on one document object that is updated in place between searches)", o, want) {
					return
				}
				if o2 := apiSearch(expr, doc); !cx.judge(tree, expr, mon.DeepCopy(doc), "Search (the same document object again)", o2, want) {
					return
				}
			}
			t.Nontrivial("upd:" + strconv.Itoa(i))
		}})
	// one compiled expression searched tens of thousands of times: call 30 000 answers like call 1 (a counter, a depth guard or a
	// budget that a search forgets to give back runs out only then)
	manyExprs := []*gen.Expr{gen.Pipe(gen.Chain(gen.Field("foo"), gen.StMultiList(gen.Field("bar"), gen.Current(), gen.Raw("x"))), gen.Chain(nil, gen.StIndex(2))), gen.MultiList(gen.Field("a"), gen.LitJSON("1"), gen.Raw("r"), gen.Current()),
		gen.MultiHash([]gen.Key{{Name: "k"}, {Name: "j"}}, []*gen.Expr{gen.Current(), gen.Raw("x")}), gen.Chain(gen.Field("foo"), gen.StField("bar"), gen.StIndex(-1)), gen.Pipe(gen.Pipe(gen.Field("foo"), gen.Field("bar")), gen.Chain(nil, gen.StIndex(0))),
		gen.Chain(gen.Paren(gen.Paren(gen.Paren(gen.Field("foo")))), gen.StMultiList(gen.Chain(gen.Field("bar"), gen.StIndex(0)), gen.LitJSON(`{"a":[1]}`))), gen.Chain(gen.Field("missing"), gen.StMultiList(gen.Raw("x"))), gen.Chain(gen.LitJSON("[1,[2,[3]]]"), gen.StIndex(1), gen.StIndex(1), gen.StIndex(0))}
	manyDocs := []interface{}{docs.J(`{"foo":{"bar":[1,2,3]},"a":"s"}`), docs.J(`{"foo":{"bar":[]},"a":null}`), docs.J(`{"foo":"str"}`)}
	manyN := tierPick(r, 30000, 200000)
	ws = append(ws, mon.Workload{Name: "one-compiled-expression-searched-many-thousand-times", N: len(manyExprs), Batch: 1,
		Do: func(i int, t *mon.Tally) {
			tree := manyExprs[i]
			expr := gen.Spell(tree)
			jp, co := apiCompile(expr)
			if co.Panicked || co.Err != nil {
				r.Inconclusive("C01 workload expression does not compile: " + expr)
				return
			}
			want := make([]ref.Result, len(manyDocs))
			for k, d := range manyDocs {
				want[k] = ref.RefSet(tree, d, gen.Quirks{})
			}
			cx := &caseCtx{r, t, "one-compiled-expression-searched-many-thousand-times", i}
			for k := 0; k < manyN; k++ {
				o := apiJP(jp, manyDocs[k%len(manyDocs)])
				if o.Panicked || !matches(want[k%len(manyDocs)], o) {
					cx.judge(tree, expr, manyDocs[k%len(manyDocs)], "Compile+Search (search "+strconv.Itoa(k+1)+" on the same compiled expression)", o, want[k%len(manyDocs)])
					return
				}
				t.Eval()
			}
			t.Nontrivial("many:" + strconv.Itoa(i))
		}})
	ws = append(ws, kindPairsWorkload(r, "C01"))
	r.Exec(ws...)
}

// longChain builds a path of n steps and a document on which exactly that path leads to a marker.
//
//	mode 0: distinct field names k1.k2.….kn            mode 1: fields and indices alternating
//	mode 2: the same name n times on a deeper self-similar document (a.a.a…)
//	mode 3: the same index n times on self-similar nested arrays ([1][1][1]…)
//	mode 4: as 1, cut by a pipe in the middle          mode 5: as 1, inside a multi-select list after a pipe
func longChain(n, mode int) (*gen.Expr, interface{}) {
	var steps []gen.Step
	var doc interface{}
	switch mode {
	case 6, 7, 8: // nested through the LAST member / the right operand, n levels deep
		if n > 400 {
			n = 400
		}
		doc = map[string]interface{}{"a": float64(1), "b": "x"}
		tree := gen.Field("b")
		for k := 0; k < n; k++ {
			switch mode {
			case 6:
				tree = gen.MultiList(gen.Field("a"), tree)
			case 7:
				tree = gen.MultiHash([]gen.Key{{Name: "x"}, {Name: "y"}}, []*gen.Expr{gen.Field("a"), tree})
			default:
				tree = gen.Pipe(gen.Current(), gen.Paren(tree))
			}
		}
		return tree, doc
	case 2:
		doc = "bottom"
		for d := n + 3; d >= 1; d-- {
			doc = map[string]interface{}{"a": doc, "depth": float64(d)}
		}
		for k := 0; k < n; k++ {
			steps = append(steps, gen.StField("a"))
		}
		steps = append(steps, gen.StField("depth"))
	case 3:
		doc = "bottom"
		for d := n + 3; d >= 1; d-- {
			doc = []interface{}{float64(d), doc}
		}
		for k := 0; k < n; k++ {
			steps = append(steps, gen.StIndex(1))
		}
		steps = append(steps, gen.StIndex(0))
	default:
		doc = map[string]interface{}{"leaf": float64(n)}
		for k := n; k >= 1; k-- {
			name := "k" + strconv.Itoa(k)
			if mode != 0 && k%3 == 0 {
				pos := k % 4
				arr := []interface{}{"x0", "x1", "x2", "x3"}
				arr[pos] = doc
				doc = arr
				steps = append([]gen.Step{gen.StIndex(int64(pos - 4*(k%2)))}, steps...)
				continue
			}
			doc = map[string]interface{}{name: doc, "k" + strconv.Itoa(k+1): "decoy-next", "k" + strconv.Itoa(k-1): "decoy-prev"}
			steps = append([]gen.Step{gen.StField(name)}, steps...)
		}
	}
	switch mode {
	case 4:
		h := len(steps) / 2
		if h == 0 {
			return gen.Chain(nil, steps...), doc
		}
		return gen.Pipe(gen.Chain(nil, steps[:h]...), gen.Chain(nil, steps[h:]...)), doc
	case 5:
		c := gen.Chain(gen.Current(), steps...)
		return gen.Pipe(gen.MultiList(c, gen.LitJSON("1"), c), gen.Chain(nil, gen.StIndex(2))), doc
	}
	return gen.Chain(nil, steps...), doc
}

func c01Account(t *mon.Tally, tree *gen.Expr, expr string, doc interface{}, res ref.Result, i int) {
	if nonNull(res) {
		t.Nontrivial(expr + "\x00" + ref.Canon(doc))
		t.Count("expected non-null")
		if i%20011 == 0 {
			t.Sample(map[string]interface{}{"expression": expr, "document": doc, "expected": expectedString(res)})
		}
	} else if res.Stats.Misses > 0 {
		t.Count("expected null because of a miss (missing key / out-of-range index / type mismatch)")
	}
	gen.Walk(tree, func(x *gen.Expr) {
		t.Set("node kinds", x.K.String())
		for _, s := range x.Steps {
			t.Set("step kinds", s.K.String())
		}
	})
}
