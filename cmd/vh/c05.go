package main

import (
	jmespath "github.com/jmespath/go-jmespath"

	"fmt"
	"runtime"
	"strconv"
	"strings"
	"sync"
	"verifharness/docs"

	"verifharness/gen"
	"verifharness/mon"
)

// C05 — Compile and Search never panic and always return.

func init() { register("C05", c05) }

func brief(s string) string {
	if len(s) > 300 {
		return strconv.QuoteToASCII(s[:150]) + "…(" + strconv.Itoa(len(s)) + " bytes)…" + strconv.QuoteToASCII(s[len(s)-100:])
	}
	return strconv.QuoteToASCII(s)
}

// c05Case compiles expr and searches it on every hostile document, through
// both entry points, under the panic guard.
func c05Case(r *mon.Run, t *mon.Tally, wl string, idx int, expr string, hdocs []interface{}) {
	t.Eval()
	jp, o := apiCompile(expr)
	if o.Panicked {
		r.Violate(&mon.Violation{Workload: wl, Index: idx, API: "Compile", Expr: expr, Expected: "a value or an error", Observed: o.String(), Detail: o.Stack, Class: wl + ": Compile panics"})
		return
	}
	if o.Err != nil {
		t.Count("compile: error")
		if _, isSyn := o.Err.(interface{ HighlightLocation() string }); isSyn {
			t.Count("compile: error is a SyntaxError")
		}
		return
	}
	t.Count("compile: ok")
	t.Nontrivial(expr)
	for k, d := range hdocs {
		if k == len(hdocs)-1 && len(expr) > 8192 && r.Tier == "quick" {
			// tens of thousands of steps over the 10^4-element document cost seconds each (time is
			// proportional to expression size x document size); thorough tier only
			t.Count("skipped in quick: >8 KiB expression on the 10^4-element document")
			continue
		}
		t.Eval()
		var so mon.Observed
		api := "Compile+Search"
		if (idx+k)%3 == 0 {
			api = "Search"
			so = apiSearch(expr, d)
		} else {
			so = apiJP(jp, d)
		}
		t.Count("search outcome:" + so.Class())
		if so.Panicked {
			r.Violate(&mon.Violation{Workload: wl, Index: idx, API: api, Expr: expr, DocDesc: fmt.Sprintf("hostile document #%d", k), Expected: "a value or an error", Observed: so.String(), Detail: so.Stack,
				Class: wl + ": Search panics"})
			return
		}
	}
}

func c05(r *mon.Run) {
	r.Rule = "byte strings as expressions: (1) every string of <= 2 bytes and every 3-byte string over a 40-byte alphabet of delimiters, escapes and UTF-8 lead/continuation bytes; (2) seeded soups of hostile lexemes (identifiers followed by boundary code points and invalid UTF-8, extreme and malformed numbers, unterminated and escaped delimiters); " +
		"(3) every recursive construct nested 1..~32k deep (up to 64 KiB); (4) grammar-generated trees of all fragments with hostile leaves, and 21 functions on 43 edge strings (truncated numbers, lone signs, huge digit runs, invalid UTF-8, NUL, 70 kB strings); (4b) every function x 16 call shapes x 25 element patterns (homogeneous, one odd element first / middle / last, inconsistent by-expression keys, all types mixed) x 22 array lengths on and around internal thresholds (…63, 64, 65…1000; thorough to 10000); (5) the repository's fuzz corpus (642 files go test never runs), the compliance expressions and seeded mutations of both. Every expression that compiles is searched on 8 documents (null, scalars, invalid UTF-8, heterogeneous, nested 200 deep, 10^4-element array with long astral strings) through Search and Compile+Search under recover(); " +
		"a stalled case is nominated after 90 s and confirmed in a fresh single-case process (120 s); serial metering of allocation against a size-derived bound. Non-trivial = distinct inputs that compiled (reached the interpreter)."
	r.Floor = 2000
	r.Assumptions = []string{"recover() observes every run-time panic; fatal errors and hangs are observed by the parent process (exit status, stall alarm, watchdog)",
		"memory bound used: TotalAlloc per call <= 1 MiB + 64 x len(expression) x (size(document) + size(result) + 64) bytes, measured serially: a product, because a tree-walking evaluation visits the data once per step; it catches super-polynomial blow-ups only"}
	hd := hostileDocs()
	gens := []byteGen{genShortBytes(), genTokenSoup(r.Seed, tierPick(r, 150000, 3000000)), genNesting(), genCutShort(), genMutations(r.Seed, r.Root, tierPick(r, 120000, 3000000))}
	var ws []mon.Workload
	for _, g := range gens {
		g := g
		batch := 2000
		if g.name == "deep-nesting" {
			batch = 4
		}
		ws = append(ws, mon.Workload{Name: g.name, N: g.n, Batch: batch,
			Describe: func(i int) string { return g.at(i) },
			Do:       func(i int, t *mon.Tally) { c05Case(r, t, g.name, i, g.at(i), hd) }})
	}
	nt := tierPick(r, 40000, 1000000)
	ws = append(ws, mon.Workload{Name: "hostile-trees", N: nt,
		Describe: func(i int) string { return gen.SpellTight(hostileTree(gen.DeriveN(r.Seed, "c05tree", i))) },
		Do: func(i int, t *mon.Tally) {
			expr := gen.SpellTight(hostileTree(gen.DeriveN(r.Seed, "c05tree", i)))
			c05Case(r, t, "hostile-trees", i, expr, hd)
			if i%9973 == 0 {
				t.Sample(map[string]interface{}{"workload": "hostile-trees", "expression": expr})
			}
		}})
	// one targeted family per lexer / parser error site (the error-construction code itself can fail)
	sw := []func(string) string{func(s string) string { return s }, func(s string) string { return "é😀 | " + s }, func(s string) string { return "\ufeff" + s }, func(s string) string { return s + "\n" }, func(s string) string { return "\r\n" + s + "\r\n" }, func(s string) string { return "[" + s }, func(s string) string { return "a[?" + s }, func(s string) string { return "\n\t " + s }}
	ws = append(ws, mon.Workload{Name: "error-sites", N: len(errorSiteSeeds) * len(sw),
		Describe: func(i int) string { return sw[i%len(sw)](errorSiteSeeds[i/len(sw)]) },
		Do: func(i int, t *mon.Tally) {
			c05Case(r, t, "error-sites", i, sw[i%len(sw)](errorSiteSeeds[i/len(sw)]), hd)
		}})
	// every built-in function on edge strings / values (scanner and conversion code inside the handlers)
	edge := []string{"", " ", "1e", "1E-", "12.5e+", "-", "+", ".", "1.", ".5", "-.", "0x", "0x1p", "1e999", "-1e999", "00", "01", "1_0", "١", "NaN", "Inf", "-0", "1e-999", "9223372036854775808",
		"\x00", "a\x00b", "\xff", "\xe2\x82", "é", "😀", "\u2028", "\u0301abc", "\u0301", "\ufe0f", "\u064e\u0628", "a\u0301\u0302\u0303", "\u200d", "\U0001F468\u200d\U0001F469", "'", "\\", "[", "{", "null", "true", "\"q\"", "[1", "{\"a\":", "1 2", strings.Repeat("9", 400), strings.Repeat("a", 70000)}
	efns := []string{"to_number", "to_string", "to_array", "type", "length", "reverse", "abs", "ceil", "floor", "not_null", "keys", "values", "sort", "max", "min", "sum", "avg", "contains", "starts_with", "ends_with", "join"}
	ne := len(efns) * len(edge) * 3
	ws = append(ws, mon.Workload{Name: "function-edge-strings", N: ne, Batch: 50,
		Describe: func(i int) string { return fmt.Sprint("function-edge-strings case ", i) },
		Do: func(i int, t *mon.Tally) {
			form := i % 3
			k := i / 3
			fn, e := efns[k/len(edge)], edge[k%len(edge)]
			doc := map[string]interface{}{"s": e, "a": []interface{}{e, "1e", e}, "o": map[string]interface{}{e: e}}
			var expr string
			switch form {
			case 0:
				expr = fn + "(s)"
			case 1:
				expr = "a[*]." + fn + "(@)"
			default:
				expr = fn + "(s, s)"
			}
			if fn == "join" && form != 2 {
				expr = "join(s, a)"
			}
			t.Eval()
			for _, o := range []mon.Observed{apiSearch(expr, doc), apiCompiledSearch(expr, doc)} {
				if o.Panicked {
					r.Violate(&mon.Violation{Workload: "function-edge-strings", Index: i, API: "Search", Expr: expr, Doc: map[string]interface{}{"s": brief(e)}, Expected: "a value or an error", Observed: o.String(), Detail: o.Stack, Class: "function-edge-strings: panic in " + fn})
					return
				}
			}
			t.Nontrivial("edge:" + expr + brief(e))
		}})
	// serial allocation metering over the nesting family and a sample of trees
	nest := genNesting()
	ws = append(ws, mon.Workload{Name: "allocation-metering", N: nest.n + 300, Serial: true, Batch: 50,
		Describe: func(i int) string {
			if i < nest.n {
				return nest.at(i)
			}
			return gen.SpellTight(hostileTree(gen.DeriveN(r.Seed, "c05tree", i)))
		},
		Do: func(i int, t *mon.Tally) {
			var expr string
			if i < nest.n {
				expr = nest.at(i)
			} else {
				expr = gen.SpellTight(hostileTree(gen.DeriveN(r.Seed, "c05tree", i)))
			}
			d := hd[i%len(hd)]
			var m0, m1 runtime.MemStats
			runtime.ReadMemStats(&m0)
			o := apiSearch(expr, d)
			runtime.ReadMemStats(&m1)
			t.Eval()
			if o.Panicked {
				return // reported by the other workloads
			}
			used := int64(m1.TotalAlloc - m0.TotalAlloc)
			// A tree-walking evaluation visits the document once per step, so total
			// allocation is bounded by a product, not a sum: c x |expression| x (|document| + |result|).
			bound := int64(1<<20) + 64*int64(len(expr)+1)*int64(docSize(d)+docSize(o.V)+64)
			t.Count("metered calls")
			if used > bound {
				r.Violate(&mon.Violation{Workload: "allocation-metering", Index: i, API: "Search", Expr: expr, DocDesc: fmt.Sprintf("hostile document #%d", i%len(hd)),
					Expected: fmt.Sprintf("allocation <= %d bytes (size-derived bound)", bound), Observed: fmt.Sprintf("%d bytes allocated", used), Class: "allocation bound"})
			}
		}})
	// memory still held AFTER the calls have returned: a stream of distinct expressions (valid and invalid, through every entry
	// point) may fill whatever the library keeps for later - a cache of a fixed size - but once that is full the next thousands of
	// calls must not add to it: memory is bounded by the sizes of one call's inputs, not by the number of calls made
	ws = append(ws, mon.Workload{Name: "memory-retained-across-calls", N: 4, Serial: true, Batch: 1,
		Describe: func(i int) string { return "stream " + strconv.Itoa(i) },
		Do: func(i int, t *mon.Tally) {
			pad := strings.Repeat(".abcdefghijklmnopqrstuvwxyz_0123456789", 60) // ~2.3 KB per expression
			mkExpr := func(k int) string {
				e := fmt.Sprintf("k%d_%d%s", i, k, pad)
				switch i {
				case 1:
					e += " ^" // invalid: an unknown character at the end
				case 2:
					e += " | unknown_function_" + strconv.Itoa(k) + "(@)" // valid, fails at evaluation time
				case 3:
					e = "'" + e + "\\'" // invalid: an unclosed raw string
				}
				return e
			}
			doc := map[string]interface{}{"a": float64(1)}
			run := func(from, to int) {
				for k := from; k < to; k++ {
					e := mkExpr(k)
					switch k % 4 {
					case 0, 1:
						mon.Guard(func() (interface{}, error) { return jmespath.Search(e, doc) })
					case 2:
						apiCompiledSearch(e, doc)
					default:
						mon.Guard(func() (interface{}, error) { _, err := jmespath.NewParser().Parse(e); return nil, err })
					}
					t.Eval()
				}
			}
			heap := func() int64 {
				var m runtime.MemStats
				runtime.GC()
				runtime.GC()
				runtime.ReadMemStats(&m)
				return int64(m.HeapAlloc)
			}
			run(0, 3000) // warm-up: fills whatever bounded store there is
			h1 := heap()
			run(3000, 9000) // ~14 MB of further expression text
			h2 := heap()
			t.Count("streams of 9000 distinct expressions")
			if grown := h2 - h1; grown > 6<<20 {
				r.Violate(&mon.Violation{Workload: "memory-retained-across-calls", Index: i, API: "Search / Compile / Parser.Parse", Expr: brief(mkExpr(3000)), DocDesc: "6000 further distinct expressions of this shape after a warm-up of 3000",
					Expected: "live heap after the calls have returned does not keep growing with the number of calls (at most 6 MiB more than after the warm-up)", Observed: fmt.Sprintf("%d bytes more live heap after 6000 further calls (after warm-up: %d, at the end: %d)", grown, h1, h2), Class: "memory retained across calls grows without bound"})
				return
			}
			t.Nontrivial("mem:" + strconv.Itoa(i))
		}})
	// equality, containment and merging of values nested 8...400 levels deep (objects, arrays, both alternating),
	// equal along the whole depth: time proportional to the size of the operands, not exponential in their depth
	// (the stall alarm is the monitor)
	dshapes := []string{"objects", "arrays", "alternating", "wide-and-deep"}
	ddepths := []int{8, 16, 24, 26, 28, 32, 40, 64, 128, 400}
	dexprs := []string{"@ == @", "a == b", "a != b", "contains([a], b)", "contains([b, a], a)", "[a][?@ == b]", "a == `null` || a == b", "merge(a, b) == a", "[a, b] == [b, a]", "sort_by([{k: 'x', v: a}], &k)[0].v == b", "a == c", "not_null(a) == b"}
	deepVal := func(shape string, d int, leaf interface{}) interface{} {
		v := leaf
		for k := 0; k < d; k++ {
			switch {
			case shape == "objects" || (shape == "alternating" && k%2 == 0):
				v = map[string]interface{}{"n": v}
			case shape == "wide-and-deep":
				v = map[string]interface{}{"n": v, "x": float64(k), "y": []interface{}{float64(k), "s"}}
			default:
				v = []interface{}{v}
			}
		}
		return v
	}
	ws = append(ws, mon.Workload{Name: "deep-equal-operands", N: len(dshapes) * len(ddepths) * len(dexprs), Batch: 4,
		Describe: func(i int) string {
			return dexprs[i%len(dexprs)] + " on " + dshapes[i/len(dexprs)/len(ddepths)] + " nested " + strconv.Itoa(ddepths[i/len(dexprs)%len(ddepths)]) + " deep"
		},
		Do: func(i int, t *mon.Tally) {
			shape, d, expr := dshapes[i/len(dexprs)/len(ddepths)], ddepths[i/len(dexprs)%len(ddepths)], dexprs[i%len(dexprs)]
			doc := map[string]interface{}{"a": deepVal(shape, d, float64(1)), "b": deepVal(shape, d, float64(1)), "c": deepVal(shape, d, float64(2))}
			t.Eval()
			for k, o := range []mon.Observed{apiSearch(expr, doc), apiCompiledSearch(expr, doc)} {
				if o.Panicked {
					r.Violate(&mon.Violation{Workload: "deep-equal-operands", Index: i, API: []string{"Search", "Compile+Search"}[k], Expr: expr, DocDesc: shape + " nested " + strconv.Itoa(d) + " deep", Expected: "a value or an error", Observed: o.String(), Detail: o.Stack, Class: "deep-equal-operands: panic"})
					return
				}
			}
			t.Nontrivial("deq:" + strconv.Itoa(i))
		}})
	// arithmetic that leaves the finite range (sums of finite document numbers that overflow, +Inf + -Inf) and what
	// every function and operator then makes of the non-finite value: a value or an error, no panic
	big := docs.J(`{"a":[1e308,1e308],"b":[-1e308,-1e308],"c":[1e308,1e308,-1e308,-1e308],"d":[1.7976931348623157e308,1e292],"n":1e308,"rows":[{"v":[1e308,9e307]},{"v":[1,2]}]}`)
	ovf := []string{"sum(a)", "avg(d)", "to_string(sum(a))", "[sum(a), sum(b)]", "{x: sum(a)}", "abs(sum(b))", "sum(a) > `0`", "sum(a) == sum(a)", "to_number(to_string(sum(a)))", "ceil(sum(a))", "floor(sum(b))", "sort([sum(a), `1`])",
		"max([sum(a), sum(b)])", "min([sum(b), `0`])", "sum([sum(a), sum(b)])", "avg([sum(a), sum(b)])", "to_string([sum(a)])", "to_string({k: sum(b)})", "join(',', [to_string(sum(a))])", "rows[*].sum(v)", "rows[*].to_string(sum(v))",
		"sort_by(rows, &sum(v))", "max_by(rows, &sum(v))", "map(&sum(v), rows)", "sum(a) | to_string(@)", "not_null(sum(a))", "type(sum(a))", "to_array(sum(a))", "contains([sum(a)], sum(a))", "length(to_string(sum(a)))", "reverse(to_string(sum(b)))",
		"merge({k: sum(a)}, {j: sum(b)})", "keys({k: sum(a)})", "values({k: sum(a)})", "[sum(a)][?@ > `0`]", "sum(c)", "avg(c)", "to_string(avg(c))", "sum(a) < sum(b) || sum(a)", "!sum(a)", "sum(a) && sum(b)"}
	ws = append(ws, mon.Workload{Name: "overflowing-arithmetic", N: len(ovf), Batch: 10,
		Describe: func(i int) string { return ovf[i] },
		Do: func(i int, t *mon.Tally) {
			t.Eval()
			for k, o := range []mon.Observed{apiSearch(ovf[i], big), apiCompiledSearch(ovf[i], big)} {
				if o.Panicked {
					r.Violate(&mon.Violation{Workload: "overflowing-arithmetic", Index: i, API: []string{"Search", "Compile+Search"}[k], Expr: ovf[i], Doc: big, Expected: "a value or an error", Observed: o.String(), Detail: o.Stack, Class: "overflowing-arithmetic: panic"})
					return
				}
			}
			t.Nontrivial("ovf:" + ovf[i])
		}})
	// inputs large enough that an algorithm that is quadratic (or worse) in one shape - many equal keys, long runs of
	// one character, one operator repeated, one huge object - takes minutes where a linear one takes milliseconds:
	// the stall alarm (90 s, confirmed in a fresh process) is the monitor, the sizes are the reach
	var largeDoc map[string]interface{}
	var largeOnce sync.Once
	mkLarge := func() {
		n := 100000
		same := make([]interface{}, n)
		asc := make([]interface{}, n)
		strs := make([]interface{}, n)
		objs := make([]interface{}, n)
		nested := make([]interface{}, 20000)
		wide := map[string]interface{}{}
		for i := 0; i < n; i++ {
			same[i] = float64(7)
			asc[i] = float64(i)
			strs[i] = "k" + strconv.Itoa(i%1000)
			objs[i] = map[string]interface{}{"k": float64(i % 3), "s": "same", "i": float64(i)}
		}
		for i := range nested {
			nested[i] = []interface{}{[]interface{}{}, []interface{}{[]interface{}{}}}
			wide["key"+strconv.Itoa(i)] = float64(i % 5)
		}
		largeDoc = map[string]interface{}{"same": same, "asc": asc, "strs": strs, "objs": objs, "nested": nested, "wide": wide, "run": strings.Repeat("a", 300000), "runb": strings.Repeat("a", 299999) + "b", "words": strings.Repeat("ab ", 100000)}
	}
	largeExprs := []string{"sort(same)", "sort(asc)", "sort(strs)", "sort_by(objs, &k)", "sort_by(objs, &s)", "max_by(objs, &k)", "min_by(objs, &i)", "reverse(asc)", "reverse(run)", "length(run)", "contains(run, 'ab')", "contains(runb, 'ab')", "contains(same, `8`)",
		"contains(strs, 'zz')", "starts_with(run, runb)", "ends_with(runb, run)", "join('', strs)", "join(',', strs)", "sum(asc)", "avg(same)", "max(strs)", "min(asc)", "same == same", "asc == asc", "objs == objs", "nested[]", "nested[][]", "nested[][][]",
		"keys(wide)", "values(wide)", "length(wide)", "wide.*", "merge(wide, wide)", "to_string(asc)", "to_string(wide)", "length(to_string(objs))", "objs[?k == `1`].i | length(@)", "objs[*].k", "objs[].s | length(@)", "asc[::-1] | [0]", "asc[::3] | length(@)",
		"map(&k, objs) | length(@)", "strs[?@ == 'k5'] | length(@)", "objs[?s == 'same' && k > `0`] | length(@)", "not_null(same)", "to_array(asc) | length(@)", "[same, asc, strs][] | length(@)", "type(objs)", "words == run", "sort(strs)[0]", "length(join('', strs))"}
	ws = append(ws, mon.Workload{Name: "large-inputs", N: len(largeExprs) * 2, Batch: 1,
		Describe: func(i int) string { return largeExprs[i/2] + " on 10^5-element / 3*10^5-byte operands" },
		Do: func(i int, t *mon.Tally) {
			largeOnce.Do(mkLarge)
			expr := largeExprs[i/2]
			t.Eval()
			var o mon.Observed
			if i%2 == 0 {
				o = apiSearch(expr, largeDoc)
			} else {
				o = apiCompiledSearch(expr, largeDoc)
			}
			if o.Panicked {
				r.Violate(&mon.Violation{Workload: "large-inputs", Index: i, API: "Search", Expr: expr, DocDesc: "arrays of 10^5 elements, strings of 3*10^5 bytes, an object of 2*10^4 members", Expected: "a value or an error", Observed: clipStr(o.String(), 300), Detail: o.Stack, Class: "large-inputs: panic"})
				return
			}
			t.Nontrivial("large:" + expr)
		}})
	th := r.Tier == "thorough"
	ws = append(ws, mon.Workload{Name: "sized-arrays", N: sizedCount(th), Batch: 500,
		Describe: func(i int) string { _, _, d := sizedCase(i, th); return d },
		Do: func(i int, t *mon.Tally) {
			tree, doc, desc := sizedCase(i, th)
			expr := gen.SpellTight(tree)
			t.Eval()
			for k, o := range []mon.Observed{apiSearch(expr, doc), apiCompiledSearch(expr, doc)} {
				if o.Panicked {
					r.Violate(&mon.Violation{Workload: "sized-arrays", Index: i, API: []string{"Search", "Compile+Search"}[k], Expr: expr, DocDesc: desc, Expected: "a value or an error", Observed: o.String(), Detail: o.Stack, Class: "sized-arrays: panic"})
					return
				}
			}
			t.Nontrivial("sized:" + strconv.Itoa(i))
		}})
	// documents decoded with json.Decoder.UseNumber (numbers arrive as json.Number, not float64): still JSON-decoded documents;
	// whatever the library makes of such numbers, it returns - every function template, bare and in seven nestings
	unBase := c06BaseDoc()
	var unTrees []*gen.Expr
	for _, c := range c06Calls(false, unBase) {
		unTrees = append(unTrees, c06Nestings(c)[:8]...)
	}
	for _, c := range c06Specials() {
		unTrees = append(unTrees, c)
	}
	unExtra := []string{"an[1:]", "an[::-1]", "ao[?n > `1`]", "ao[?n == `1`].s", "an[?@ < `3`]", "n < m", "n == `-1.5`", "[n, m][?@ > `0`]", "an[0]", "ao[*].n | sort(@)", "sum(ao[*].n)", "avg(ao[*].o.n)", "max(an) > min(an)", "to_string(@)", "abs(n) + `1`", "an[*].abs(@)", "map(&abs(@), an)", "sort_by(ao, &n)[0]", "an == `[3,1,2,1]`", "contains(an, `1`)", "ceil(n)", "floor(m)", "to_number(n)", "type(n)", "not_null(n)", "merge(o, {n: n})", "avg(an)", "avg(bign)", "sum(bign)", "max(bign)", "sort(bign)[0]", "join(',', an[*].to_string(@))"}
	ws = append(ws, mon.Workload{Name: "documents-decoded-with-UseNumber", N: (len(unTrees) + len(unExtra)) * 2, Batch: 200,
		Do: func(i int, t *mon.Tally) {
			k := i / 2
			var expr string
			if k < len(unTrees) {
				expr = gen.SpellTight(unTrees[k])
			} else {
				expr = unExtra[k-len(unTrees)]
			}
			doc := docs.Exotic(unBase, 0)
			var o mon.Observed
			api := "Search"
			if i%2 == 1 {
				o, api = apiCompiledSearch(expr, doc), "Compile+Search"
			} else {
				o = apiSearch(expr, doc)
			}
			t.Eval()
			t.Count("search outcome on a UseNumber document:" + o.Class())
			if o.Panicked {
				r.Violate(&mon.Violation{Workload: "documents-decoded-with-UseNumber", Index: i, API: api, Expr: expr, DocDesc: "the base document of C06 decoded with UseNumber (every number a json.Number)", Expected: "a value or an error", Observed: o.String(), Detail: o.Stack,
					Class: "documents-decoded-with-UseNumber: Search panics"})
				return
			}
			t.Nontrivial("un:" + expr)
		}})
	r.Exec(ws...)
	r.Extra["hostile_documents"] = len(hd)
}
