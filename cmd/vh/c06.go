package main

import (
	"fmt"
	"strconv"
	"strings"
	"sync"

	jmespath "github.com/jmespath/go-jmespath"

	"verifharness/docs"
	"verifharness/gen"
	"verifharness/mon"
	"verifharness/ref"
)

// C06 — Search never modifies the document it is given.

func init() { register("C06", c06) }

// withSpare deep-copies a JSON value giving every array spare capacity, so
// that an append onto a document-aliased slice writes into the document's
// own backing array.
func withSpare(v interface{}) interface{} {
	switch t := v.(type) {
	case []interface{}:
		out := make([]interface{}, len(t), len(t)+3)
		for i, e := range t {
			out[i] = withSpare(e)
		}
		return out
	case map[string]interface{}:
		out := make(map[string]interface{}, len(t))
		for k, e := range t {
			out[k] = withSpare(e)
		}
		return out
	}
	return v
}

const c06DocText = `{"an":[3,1,2,1],"as":["b","a","c"],"ao":[{"n":2,"s":"b","an":[2,1],"o":{"n":5}},{"n":1,"s":"a","an":[4,3],"o":{"n":4}},{"n":3,"s":"c","an":[],"o":{"n":6}},{"n":1,"s":"d","an":[1],"o":{"n":4}}],
"aa":[[2,1],[4,3],[]],"am":[1,"a",null,[2]],"o":{"n":1,"s":"x","an":[9,8],"as":["q","p"],"o":{"n":2},"ao":[{"n":2},{"n":1}]},"o2":{"s":"y","z":null,"n":7},"s":"héllo","t":"the quick brown fox jumps over the lazy dog 0123456789","n":-1.5,"m":2,"b":true,"z":null,
"mixed":[{"k":2,"i":0},{"k":1,"i":1},{"k":"x","i":2},{"k":3,"i":3}],
"nz":-0.0,"anz":[1,-0.0,2],"oz":{"n":-0.0,"an":[-0.0]},"sorted":[{"n":1,"s":"a"},{"n":2,"s":"b"},{"n":3,"s":"c"}]}`

// c06BaseDoc is the base document of C06 / C12 / C13: c06DocText plus arrays long enough (24
// elements, with tied keys) to pass any "small input" fast path of the sorting functions.
func c06BaseDoc() map[string]interface{} {
	d := docs.J(c06DocText).(map[string]interface{})
	big := make([]interface{}, 24)
	bign := make([]interface{}, 24)
	bigs := make([]interface{}, 24)
	words := []string{"pear", "fig", "apple", "kiwi", "date", "lime", "é", "plum"}
	for i := range big {
		n := float64((i * 7) % 5)
		w := words[(i*5)%len(words)]
		big[i] = map[string]interface{}{"n": n, "s": w, "i": float64(i)}
		bign[i] = float64((i*11)%9) - 3
		bigs[i] = w + string(rune('a'+i%3))
	}
	d["big"], d["bign"], d["bigs"] = big, bign, bigs
	return d
}

var c06Field = map[gen.Want][]string{
	gen.WNumber: {"n", "m"}, gen.WString: {"s", "t"}, gen.WBool: {"b"}, gen.WNull: {"z"},
	gen.WArrNum: {"an"}, gen.WArrStr: {"as"}, gen.WArrObj: {"ao"}, gen.WArrArr: {"aa"}, gen.WArray: {"am", "an", "ao"}, gen.WObject: {"o", "o2"}, gen.WAny: {"an", "o", "s", "ao"},
}

// c06Calls builds, for every function template, calls whose every parameter
// is fed from the document (rootArgs) or from the current element (elem=true).
func c06Calls(literal bool, doc map[string]interface{}) []*gen.Expr {
	var out []*gen.Expr
	for _, t := range gen.FnTemplates() {
		for variant := 0; variant < 2; variant++ {
			args := make([]*gen.Expr, 0, len(t.Args)+1)
			for i, w := range t.Args {
				if i == t.ExprefAt {
					body := gen.Field("n")
					if t.ErBody == gen.WString {
						body = gen.Field("s")
					}
					args = append(args, gen.ExpRef(body))
					continue
				}
				keys := c06Field[w]
				k := keys[variant%len(keys)]
				if literal {
					args = append(args, gen.LitVal(mon.DeepCopy(doc[k])))
				} else {
					args = append(args, gen.Field(k))
				}
			}
			if t.Variadic {
				keys := c06Field[t.Args[len(t.Args)-1]]
				k := keys[(variant+1)%len(keys)]
				if literal {
					args = append(args, gen.LitVal(mon.DeepCopy(doc[k])))
				} else {
					args = append(args, gen.Field(k))
				}
			}
			out = append(out, gen.Func(t.Name, args...))
		}
	}
	return out
}

func c06Nestings(call *gen.Expr) []*gen.Expr {
	bad := gen.Func("abs", gen.Raw("x"))
	return []*gen.Expr{
		call,
		gen.Pipe(gen.Current(), call),
		gen.Pipe(call, gen.Func("type", gen.Current())),
		gen.MultiList(call, gen.Field("an"), gen.Field("ao")),
		gen.MultiHash(keyA("r"), []*gen.Expr{call}),
		gen.MultiList(call, call),
		gen.Chain(gen.Field("ao"), gen.StListStar(), gen.StMultiList(call)), // evaluated against each element (elements carry n, s, an, o)
		gen.Func("map", gen.ExpRef(call), gen.Field("ao")),                  // inside an expression reference
		gen.Chain(gen.Field("ao"), gen.StFilter(gen.Func("not_null", call, gen.LitJSON("true")))),
		gen.Pipe(call, bad),      // error after the work was done
		gen.MultiList(call, bad), // erroring sibling
		gen.Or(gen.LitJSON("null"), call),
		gen.Func("to_array", call),
		gen.Func("not_null", gen.Field("z"), call),
		// the call's result as the LEFT side of a projection / index: a handler that returns a list
		// aliasing the document (to_array, not_null, max_by over lists, values, …) feeds it to code that
		// may treat it as a temporary
		gen.Chain(call, gen.StFilter(gen.Current())),
		gen.Chain(call, gen.StFilter(gen.Cmp("!=", gen.Current(), gen.Chain(call, gen.StIndex(0))))), // drops the first element, keeps later ones
		gen.Chain(call, gen.StFilter(gen.Not(gen.Cmp("==", gen.Field("n"), gen.LitJSON("2")))), gen.StField("s")),
		gen.Chain(call, gen.StListStar()),
		gen.Chain(call, gen.StListStar(), gen.StField("n")),
		gen.Chain(call, gen.StFlatten()),
		gen.Chain(call, gen.StSliceS("1", "", "")),
		gen.Chain(call, gen.StSliceS("", "", "-1")),
		gen.Chain(call, gen.StStar()),
		gen.Chain(call, gen.StIndex(0)),
	}
}

func c06Specials() []*gen.Expr {
	k := gen.ExpRef(gen.Field("k"))
	n := gen.ExpRef(gen.Field("n"))
	s := gen.ExpRef(gen.Field("s"))
	return []*gen.Expr{
		gen.Func("sort_by", gen.Field("mixed"), k), // fails half-way: mixed key types
		gen.Func("max_by", gen.Field("mixed"), k),
		gen.Func("min_by", gen.Field("mixed"), k),
		gen.Func("sort_by", gen.Func("sort_by", gen.Field("ao"), n), s),
		// a by-function inside the key expression of a by-function (whatever the outer call keeps per call must
		// survive the inner one)
		gen.Chain(gen.Func("sort_by", gen.Chain(gen.Field("ao"), gen.StFilter(gen.Field("an"))), gen.ExpRef(gen.Chain(gen.Func("sort_by", gen.Field("an"), gen.ExpRef(gen.Current())), gen.StIndex(-1)))), gen.StListStar(), gen.StField("s")),
		gen.Chain(gen.Func("sort_by", gen.Chain(gen.Field("ao"), gen.StFilter(gen.Field("an"))), gen.ExpRef(gen.Func("max_by", gen.Field("an"), gen.ExpRef(gen.Current())))), gen.StListStar(), gen.StField("s")),
		gen.Func("map", gen.ExpRef(gen.Func("map", gen.ExpRef(gen.Func("abs", gen.Current())), gen.Field("an"))), gen.Field("ao")),
		gen.Chain(gen.Func("max_by", gen.Field("ao"), gen.ExpRef(gen.Func("length", gen.Func("sort_by", gen.Field("an"), gen.ExpRef(gen.Current()))))), gen.StField("s")),
		gen.Chain(gen.Func("sort_by", gen.Field("ao"), gen.ExpRef(gen.Func("sum", gen.Func("map", gen.ExpRef(gen.Func("abs", gen.Current())), gen.Field("an"))))), gen.StListStar(), gen.StField("s")),
		gen.Func("sort_by", gen.Field("ao"), gen.ExpRef(gen.Func("sum", gen.Func("sort", gen.Field("an"))))),
		gen.Func("reverse", gen.Func("sort", gen.Field("an"))),
		gen.Func("sort", gen.Func("reverse", gen.Field("as"))),
		gen.Func("merge", gen.Field("o"), gen.Field("o2"), gen.Chain(gen.Field("ao"), gen.StIndex(0))),
		gen.Func("merge", gen.Field("o"), gen.LitJSON("{}"), gen.Field("o2")),
		gen.Func("merge", gen.LitJSON("{}"), gen.Field("o"), gen.LitJSON("{}"), gen.Field("o2"), gen.LitJSON("{}")),
		gen.Func("merge", gen.Field("o"), gen.Chain(gen.Field("o"), gen.StField("missing")), gen.Field("o2")),
		gen.Func("merge", gen.Field("o"), gen.Field("o")),
		// a literal list (3, 5 and 7 elements: spare capacity after decoding) in front of a document list, flattened: what
		// is returned may not be a view of storage the compiled expression or the document keeps
		gen.Chain(gen.MultiList(gen.LitJSON(`["base","common","std"]`), gen.Field("as")), gen.StFlatten()),
		gen.Chain(gen.MultiList(gen.LitJSON(`[1,2,3,4,5]`), gen.Field("an"), gen.LitJSON(`[9]`)), gen.StFlatten()),
		gen.Chain(gen.MultiList(gen.Field("an"), gen.LitJSON(`[7,8,9]`), gen.Field("bign")), gen.StFlatten()),
		gen.Chain(gen.MultiList(gen.LitJSON(`[1,2,3,4,5,6,7]`), gen.Chain(gen.Field("ao"), gen.StListStar(), gen.StField("n"))), gen.StFlatten()),
		gen.Func("map", gen.ExpRef(gen.Chain(gen.MultiList(gen.LitJSON(`["x","y","z"]`), gen.Field("an")), gen.StFlatten())), gen.Field("ao")),
		gen.Chain(gen.MultiList(gen.Field("as"), gen.Field("as")), gen.StFlatten()),
		// a multi-select hash that names exactly the members of the object it is applied to, as the first argument of merge
		gen.Pipe(gen.Chain(gen.Field("o"), gen.StField("o")), gen.Func("merge", gen.MultiHash(keyA("n"), []*gen.Expr{gen.Field("n")}), gen.LitJSON(`{"seen":true}`))),
		gen.Chain(gen.Field("ao"), gen.StListStar(), gen.StField("o"), gen.StFunc("merge", gen.MultiHash(keyA("n"), []*gen.Expr{gen.Field("n")}), gen.MultiHash(keyA("x"), []*gen.Expr{gen.Field("n")}))),
		gen.Chain(gen.Field("sorted"), gen.StListStar(), gen.StFunc("merge", gen.MultiHash([]gen.Key{{Name: "n"}, {Name: "s"}}, []*gen.Expr{gen.Field("n"), gen.Field("s")}), gen.LitJSON(`{"n":0}`))),
		gen.Chain(gen.Field("o2"), gen.StMultiHash([]gen.Key{{Name: "s"}, {Name: "z"}, {Name: "n"}}, []*gen.Expr{gen.Field("s"), gen.Field("z"), gen.Field("n")})),
		gen.Func("merge", gen.Chain(gen.Field("oz"), gen.StMultiHash([]gen.Key{{Name: "n"}, {Name: "an"}}, []*gen.Expr{gen.Field("n"), gen.Field("an")})), gen.LitJSON(`{"an":[]}`)),
		gen.Func("merge", gen.Field("o"), gen.MultiHash(keyA("n"), []*gen.Expr{gen.Field("n")}), gen.Field("o")),
		gen.Chain(gen.Field("ao"), gen.StListStar(), gen.StFunc("merge", gen.Current(), gen.Field("o"), gen.MultiHash(keyA("seen"), []*gen.Expr{gen.Field("s")}))),
		gen.Func("not_null", gen.Field("z"), gen.Field("z"), gen.Field("ao")),
		gen.Func("sort", gen.Func("not_null", gen.Field("z"), gen.Field("an"))),
		gen.Func("reverse", gen.Func("to_array", gen.Field("as"))),
		gen.Func("map", gen.ExpRef(gen.Func("merge", gen.Current(), gen.LitJSON("{}"), gen.LitJSON(`{"x":1}`))), gen.Field("ao")),
		gen.Chain(gen.Func("merge", gen.Field("o"), gen.Field("o2")), gen.StField("an")),
		gen.Chain(gen.Func("to_array", gen.Field("an")), gen.StSliceS("", "", "-1")),
		gen.Chain(gen.Field("aa"), gen.StFlatten()),
		gen.Func("sort", gen.Chain(gen.Field("aa"), gen.StFlatten())),
		gen.Chain(gen.Field("ao"), gen.StListStar(), gen.StField("an"), gen.StFlatten()),
		gen.Func("sort_by", gen.Chain(gen.Field("ao"), gen.StSliceS("", "", "")), n),
		gen.Func("sort_by", gen.Chain(gen.Field("ao"), gen.StFilter(gen.Field("n"))), n),
		gen.Func("sort_by", gen.Func("values", gen.Field("o")), gen.ExpRef(gen.Func("type", gen.Current()))),
		gen.Func("sort", gen.Func("keys", gen.Field("o"))),
		gen.Chain(gen.Field("o"), gen.StStar()),
		gen.Func("map", gen.ExpRef(gen.Func("sort", gen.Field("an"))), gen.Field("ao")),
		gen.Func("sort_by", gen.Field("an"), gen.ExpRef(gen.Current())),
		gen.Func("sort_by", gen.Field("as"), gen.ExpRef(gen.Current())),
		gen.Func("sort_by", gen.Func("to_array", gen.Field("ao")), n),
		gen.Func("sort_by", gen.Func("not_null", gen.Field("z"), gen.Field("ao")), s),
		gen.Func("sort_by", gen.Or(gen.Field("z"), gen.Field("ao")), n),
		gen.Func("reverse", gen.Func("sort_by", gen.Field("ao"), n)),
		gen.Func("join", gen.Raw(","), gen.Func("sort", gen.Field("as"))),
		gen.Func("max_by", gen.Field("ao"), gen.ExpRef(gen.Func("length", gen.Func("sort", gen.Field("an"))))),
		// values a "clean-up" pass could rewrite without changing them under ==  (negative zero), results that are
		// the document itself, and inputs that are already in the order a function would produce
		gen.Current(), gen.Field("anz"), gen.Field("oz"), gen.Func("not_null", gen.Field("anz")), gen.Func("to_array", gen.Field("anz")), gen.MultiList(gen.Field("anz"), gen.Field("nz")),
		gen.Chain(gen.Field("anz"), gen.StListStar()), gen.Func("values", gen.Field("oz")), gen.Or(gen.Field("z"), gen.Field("oz")), gen.Func("min_by", gen.MultiList(gen.Field("oz")), gen.ExpRef(gen.Field("n"))),
		gen.Func("reverse", gen.Func("sort_by", gen.Field("sorted"), n)), gen.Func("reverse", gen.Func("sort_by", gen.Field("sorted"), s)), gen.Func("reverse", gen.Func("sort", gen.Field("bign"))),
		gen.Func("sort_by", gen.Field("sorted"), n), gen.Func("sort", gen.Chain(gen.Field("sorted"), gen.StListStar(), gen.StField("n"))), gen.Func("abs", gen.Func("reverse", gen.Func("sort_by", gen.Field("sorted"), n))),
		// long arrays (24 elements, tied keys)
		gen.Func("sort_by", gen.Field("big"), n), gen.Func("sort_by", gen.Field("big"), s), gen.Func("max_by", gen.Field("big"), n), gen.Func("min_by", gen.Field("big"), s),
		gen.Func("sort", gen.Field("bign")), gen.Func("sort", gen.Field("bigs")), gen.Func("reverse", gen.Field("big")), gen.Func("map", n, gen.Field("big")),
		gen.Chain(gen.Field("big"), gen.StFilter(gen.Cmp(">", gen.Field("n"), gen.LitJSON("1"))), gen.StField("s")), gen.Func("sort", gen.Chain(gen.Field("big"), gen.StListStar(), gen.StField("n"))),
		gen.Func("join", gen.Raw(","), gen.Field("bigs")), gen.Func("sum", gen.Field("bign")), gen.Chain(gen.Func("sort_by", gen.Field("big"), n), gen.StListStar(), gen.StField("i")),
		gen.MultiHash([]gen.Key{{Name: "byn"}, {Name: "bys"}}, []*gen.Expr{gen.Chain(gen.Func("sort_by", gen.Field("big"), n), gen.StListStar(), gen.StField("i")), gen.Chain(gen.Func("sort_by", gen.Field("big"), s), gen.StListStar(), gen.StField("i"))}),
		gen.Func("sort_by", gen.Func("sort_by", gen.Field("big"), s), n), gen.Func("max", gen.Field("bign")), gen.Func("min", gen.Field("bigs")), gen.Chain(gen.Field("big"), gen.StSliceS("", "", "-1")),
	}
}

// c06HandBacks: calls that may want to work in place, applied to what another expression hands back from a literal of the
// compiled expression or from the document (not_null, to_array, ||, a parenthesis, an index into a multi-select, max_by / min_by
// over a list that holds it, a pipe): "the operand is a call, so it is a temporary" is wrong for every one of them. With
// short=true only literal operands (the shared syntax tree) plus the object forms.
func c06HandBacks(short bool) []*gen.Expr {
	z := gen.Field("z")
	providers := []func(x *gen.Expr) *gen.Expr{
		func(x *gen.Expr) *gen.Expr { return gen.Func("not_null", z, x) },
		func(x *gen.Expr) *gen.Expr { return gen.Func("not_null", x) },
		func(x *gen.Expr) *gen.Expr { return gen.Func("to_array", x) },
		func(x *gen.Expr) *gen.Expr { return gen.Or(z, x) },
		func(x *gen.Expr) *gen.Expr { return gen.Or(x, z) },
		func(x *gen.Expr) *gen.Expr { return gen.Paren(x) },
		func(x *gen.Expr) *gen.Expr { return gen.Chain(gen.MultiList(x), gen.StIndex(0)) },
		func(x *gen.Expr) *gen.Expr {
			return gen.Func("max_by", gen.MultiList(x, gen.LitJSON("[]")), gen.ExpRef(gen.Func("length", gen.Current())))
		},
		func(x *gen.Expr) *gen.Expr {
			return gen.Func("min_by", gen.MultiList(x), gen.ExpRef(gen.Func("length", gen.Current())))
		},
		func(x *gen.Expr) *gen.Expr { return gen.Pipe(x, gen.Current()) },
		func(x *gen.Expr) *gen.Expr { return gen.Func("not_null", z, gen.Func("not_null", x)) },
		// chosen by || / && next to an operand that is freshly built
		func(x *gen.Expr) *gen.Expr { return gen.Or(x, gen.Chain(gen.Clone(x), gen.StListStar())) },
		func(x *gen.Expr) *gen.Expr { return gen.Or(x, gen.Chain(gen.Clone(x), gen.StFilter(gen.Current()))) },
		func(x *gen.Expr) *gen.Expr { return gen.And(gen.Chain(gen.Clone(x), gen.StListStar()), x) },
		func(x *gen.Expr) *gen.Expr { return gen.Or(x, gen.MultiList(gen.Clone(x))) },
	}
	type operand struct {
		x    *gen.Expr
		kind string
	}
	ops := []operand{{gen.LitJSON(`[3,1,2,1,5]`), "n"}, {gen.LitJSON(`["b","a","c"]`), "s"}, {gen.LitJSON(`[{"n":2,"s":"b"},{"n":1,"s":"a"},{"n":3,"s":"c"}]`), "o"}, {gen.LitJSON(`{"mode":"default","n":1}`), "h"}, {gen.Field("o"), "h"}}
	if !short {
		ops = append(ops, operand{gen.Field("an"), "n"}, operand{gen.Field("as"), "s"}, operand{gen.Field("ao"), "o"}, operand{gen.Field("bign"), "n"})
	}
	var out []*gen.Expr
	for _, op := range ops {
		for pi, pf := range providers {
			if op.kind == "h" && (pi == 2) {
				continue // to_array(object) is a fresh one-element list
			}
			p := func() *gen.Expr { return pf(gen.Clone(op.x)) }
			switch op.kind {
			case "n", "s":
				out = append(out, gen.Func("reverse", p()), gen.Func("sort", p()), gen.Func("sort_by", p(), gen.ExpRef(gen.Current())))
				// a filter that drops an element standing before one it keeps (survivors written over the operand's own storage would show)
				if op.kind == "n" {
					out = append(out, gen.Chain(p(), gen.StFilter(gen.Cmp("<", gen.Current(), gen.LitJSON("3")))), gen.Chain(p(), gen.StFilter(gen.Cmp(">=", gen.Current(), gen.LitJSON("2"))), gen.StIndex(0)))
				} else {
					out = append(out, gen.Chain(p(), gen.StFilter(gen.Cmp("!=", gen.Current(), gen.Raw("b")))), gen.Chain(p(), gen.StFilter(gen.Cmp("==", gen.Current(), gen.Raw("c")))))
				}
				if !short {
					out = append(out, gen.Chain(gen.MultiList(gen.LitJSON(`[0,0,0]`), p()), gen.StFlatten()), gen.Func("reverse", gen.Func("reverse", p())), gen.Chain(p(), gen.StFlatten()))
				}
			case "o":
				out = append(out, gen.Func("sort_by", p(), gen.ExpRef(gen.Field("n"))), gen.Func("reverse", p()),
					gen.Chain(p(), gen.StFilter(gen.Cmp("!=", gen.Field("n"), gen.LitJSON("2"))), gen.StField("s")), gen.Chain(p(), gen.StFilter(gen.Cmp(">", gen.Field("n"), gen.LitJSON("1")))))
				if !short {
					out = append(out, gen.Func("map", gen.ExpRef(gen.Func("merge", gen.Current(), gen.LitJSON(`{"seen":true}`))), p()), gen.Chain(gen.Func("sort_by", p(), gen.ExpRef(gen.Field("s"))), gen.StIndex(0)))
				}
			case "h":
				out = append(out, gen.Func("merge", p(), gen.Field("o2")), gen.Func("merge", p(), gen.MultiHash(keyA("x"), []*gen.Expr{gen.Field("n")})))
				if !short {
					out = append(out, gen.Func("merge", p(), gen.LitJSON("{}"), gen.Field("o2")), gen.Chain(gen.Func("merge", p(), gen.Field("o2")), gen.StField("n")))
				}
			}
		}
	}
	return out
}

// searchWatched runs Search next to an unsynchronised deep reader of the
// document and returns the observation and whether the document's snapshot
// changed.
func searchWatched(expr string, jp *jmespath.JMESPath, doc interface{}) (mon.Observed, bool) {
	before := mon.Snapshot(doc)
	var wg sync.WaitGroup
	var o mon.Observed
	wg.Add(2)
	go func() {
		defer wg.Done()
		for k := 0; k < 2; k++ {
			mon.DeepRead(doc)
		}
	}()
	go func() {
		defer wg.Done()
		if jp != nil {
			o = apiJP(jp, doc)
		} else {
			o = apiSearch(expr, doc)
		}
	}()
	wg.Wait()
	after := mon.Snapshot(doc)
	return o, before != after
}

func c06Case(r *mon.Run, t *mon.Tally, rl *mon.RaceLog, wl string, idx int, tree *gen.Expr, base interface{}, frozen bool) {
	c06CaseExpr(r, t, rl, wl, idx, gen.Spell(tree), base, frozen)
}

// c06CaseExpr: one watched call of the expression on a fresh document (a JSON value, copied with spare
// capacity, or a constructor func() interface{}).
func c06CaseExpr(r *mon.Run, t *mon.Tally, rl *mon.RaceLog, wl string, idx int, expr string, base interface{}, frozen bool) {
	var doc interface{}
	docDesc := ""
	if mk, ok := base.(func() interface{}); ok {
		// documents that are not plain JSON trees are built afresh by the caller
		doc = mk()
		docDesc = clipStr(mon.Snapshot(doc), 1500)
		base = nil
	} else {
		doc = withSpare(base)
	}
	t.Eval()
	var jp *jmespath.JMESPath
	var before string
	if frozen || idx%2 == 1 {
		j, co := apiCompile(expr)
		if co.Panicked || co.Err != nil {
			r.Inconclusive("C06 workload expression does not compile: " + expr + ": " + co.String())
			return
		}
		jp = j
		before = jmespath.VerifSexpr(jmespath.VerifAST(jp))
	}
	o, changed := searchWatched(expr, jp, doc)
	t.Count("outcome:" + o.Class())
	if o.Panicked {
		r.Violate(&mon.Violation{Workload: wl, Index: idx, API: "Search", Expr: expr, Doc: base, DocDesc: docDesc, Expected: "no panic", Observed: o.String(), Detail: o.Stack, Class: "panic"})
		return
	}
	onWhat := "success"
	if o.Err != nil {
		onWhat = "error return"
	}
	if changed {
		r.Violate(&mon.Violation{Workload: wl, Index: idx, API: "Search", Expr: expr, Doc: base, DocDesc: docDesc, Expected: "document deep-equal to what it was before the call (" + onWhat + ")",
			Observed: "document after the call: " + mon.Show(doc), Class: wl + ": snapshot changed on " + onWhat})
		return
	}
	if rep := rl.Grown(); rep != "" {
		n, frames := mon.RaceSummary(rep, "go-jmespath")
		r.Violate(&mon.Violation{Workload: wl, Index: idx, API: "Search", Expr: expr, Doc: base, DocDesc: docDesc,
			Expected: "no write to the document during the call (" + onWhat + "): the unsynchronised reader must not race with Search",
			Observed: "race detector: " + mon.Show(float64(n)) + " report(s); library frames: " + strings.Join(frames, ", "), Detail: clipStr(rep, 6000), Class: wl + ": write detected by the race detector"})
		return
	}
	if jp != nil {
		if after := jmespath.VerifSexpr(jmespath.VerifAST(jp)); after != before {
			r.Violate(&mon.Violation{Workload: wl, Index: idx, API: "Compile+Search", Expr: expr, Doc: base, DocDesc: docDesc, Expected: "compiled expression unchanged by Search: " + before, Observed: after, Class: wl + ": literal in the compiled expression modified"})
			return
		}
	}
	if o.Err != nil {
		t.Count("cases ending in an error after partial work")
	}
	t.Nontrivial(expr)
}

func clipStr(s string, n int) string {
	if len(s) > n {
		return s[:n] + "…"
	}
	return s
}

func c06(r *mon.Run) {
	r.Rule = "per case a fresh document (every array with spare capacity), one goroutine deep-reading every word of it (elements up to cap, map entries) with no synchronisation to the goroutine that calls Search; under -race any write to the document is a reported data race whether or not it changes a value; plus a canonical snapshot before/after, on value and error returns alike, and the compiled AST's s-expression before/after for literal-fed calls. " +
		"Workload: every built-in function (every typed argument template) with every parameter fed from the document x 24 nestings (standalone, piped, in multi-selects, twice, inside a projection, inside an expression reference, inside a filter, followed by an error, next to an erroring sibling, and as the left side of every projection kind, of filters that drop elements and of an index …), the same with literals, 27 special compositions (sorts of sorts, failing by-expression sorts, flatten/merge/to_array aliasing), every built-in function on 23 typed operands of Go-struct documents (typed slices, structs, pointers; 1 and 2 arguments); seeded random trees on typed documents; 26 flatten/projection/function shapes on one-element wrappers around lists of 1…4096 elements (exact and spare capacity) and on lists of one-element lists; 55 projection / function shapes on lists with nulls before, between and after other elements; 130 field / projection / filter / function expressions on Go documents of the embedding family (nil and set embedded pointers behind pointers and typed slices of pointers); the function matrix on documents whose leaves are json.Number / int / pointers / named types. Non-trivial = distinct expressions that reached the interpreter and returned."
	r.Floor = 300
	r.Assumptions = []string{"the Go race detector reports conflicting accesses without a happens-before edge regardless of their timing; harness goroutines share nothing but the document",
		"built with -race; without the race log (VH_RACELOG) only the snapshot monitor is active and the run is reported as inconclusive for the 'no write' clause"}
	rl := mon.OpenRaceLog()
	if rl == nil {
		r.Inconclusive("no race log: started without the driver (VH_RACELOG); only value-changing writes are observable")
	}
	base := c06BaseDoc()
	var trees []*gen.Expr
	var frozen []bool
	for _, lit := range []bool{false, true} {
		for _, c := range c06Calls(lit, base) {
			for _, n := range c06Nestings(c) {
				trees = append(trees, n)
				frozen = append(frozen, lit)
			}
		}
	}
	for _, s := range c06Specials() {
		for _, n := range c06Nestings(s)[:6] {
			trees = append(trees, n)
			frozen = append(frozen, false)
		}
	}
	for _, hb := range c06HandBacks(false) {
		trees = append(trees, hb)
		frozen = append(frozen, true)
	}
	fm := mon.Workload{Name: "function-matrix", N: len(trees), Serial: true, Batch: 200,
		Describe: func(i int) string { return gen.Spell(trees[i]) },
		Do: func(i int, t *mon.Tally) {
			c06Case(r, t, rl, "function-matrix", i, trees[i], base, frozen[i])
			if i%501 == 0 {
				t.Sample(map[string]interface{}{"expression": gen.Spell(trees[i])})
			}
			for _, nm := range []string{trees[i].Name} {
				if nm != "" {
					t.Set("outer functions", nm)
				}
			}
		}}
	nr := tierPick(r, 15000, 300000)
	rnd := mon.Workload{Name: "random-trees", N: nr, Serial: true, Batch: 500,
		Do: func(i int, t *mon.Tally) {
			rng := gen.DeriveN(r.Seed, "c06rand", i)
			g := gen.NewTreeGen(rng)
			g.MaxDepth = 2 + rng.Intn(4)
			g.IllTyped = 8
			tree := g.Expr(0, gen.WAny)
			doc := docs.NewRand(rng).TypedDoc(0)
			c06Case(r, t, rl, "random-trees", i, tree, doc, false)
		}}
	// Go-struct / typed-slice documents: handlers that take the caller's typed slice as is (or a
	// conversion that aliases it) can write into it
	fns := ref.FunctionNames()
	O := len(c18Operands)
	nsd := len(fns) * (O + O*3)
	sd := mon.Workload{Name: "struct-documents", N: nsd, Serial: true, Batch: 200,
		Describe: func(i int) string { return fmt.Sprint("struct-documents case ", i) },
		Do: func(i int, t *mon.Tally) {
			fn := fns[i/(O+O*3)]
			k := i % (O + O*3)
			var expr string
			if k < O {
				expr = fn + "(" + c18Operands[k] + ")"
			} else {
				k -= O
				a := c18Operands[k/3]
				b := []string{"Strs", "Flts", "Ins"}[k%3]
				switch fn {
				case "map":
					expr = "map(&@, " + a + ")"
				case "sort_by", "max_by", "min_by":
					expr = fn + "(" + a + ", &" + pickKey(a) + ")"
				default:
					expr = fn + "(" + a + ", " + b + ")"
				}
			}
			rng := gen.DeriveN(r.Seed, "c06sdoc", i%17)
			form := i % 2
			mk := func() interface{} { return docs.StructDoc(gen.DeriveN(r.Seed, "c06sdoc", i%17), form) }
			_ = rng
			doc := mk()
			t.Eval()
			o, changed := searchWatched(expr, nil, doc)
			if o.Panicked {
				return // C18's business
			}
			onWhat := "success"
			if o.Err != nil {
				onWhat = "error return"
			}
			if changed || mon.Snapshot(doc) != mon.Snapshot(mk()) {
				r.Violate(&mon.Violation{Workload: "struct-documents", Index: i, API: "Search", Expr: expr, DocDesc: clipStr(mon.Snapshot(mk()), 400), Expected: "struct document unchanged (" + onWhat + ")",
					Observed: "after the call: " + clipStr(mon.Snapshot(doc), 600), Class: "struct-documents: snapshot changed on " + onWhat})
				return
			}
			if rep := rl.Grown(); rep != "" {
				n, frames := mon.RaceSummary(rep, "go-jmespath")
				r.Violate(&mon.Violation{Workload: "struct-documents", Index: i, API: "Search", Expr: expr, DocDesc: clipStr(mon.Snapshot(mk()), 400),
					Expected: "no write to the struct document during the call (" + onWhat + ")", Observed: "race detector: " + mon.Show(float64(n)) + " report(s); library frames: " + strings.Join(frames, ", "),
					Detail: clipStr(rep, 6000), Class: "struct-documents: write detected by the race detector"})
				return
			}
			if o.Err == nil {
				t.Nontrivial("sd:" + expr)
			}
		}}
	_ = ref.Canon
	// one-element wrappers around long lists, and long lists of one-element lists: a shortcut that hands the
	// document's own inner list on as a "temporary" (to be cleared, pooled or appended to) only exists for such shapes
	wlens := []int{1, 2, 3, 15, 16, 17, 18, 24, 33, 63, 64, 65, 100, 129, 1000, 4096}
	w, ww, sg := gen.Field("w"), gen.Field("ww"), gen.Field("sg")
	bad := gen.Func("abs", gen.Current())
	wtrees := []*gen.Expr{
		gen.Chain(w, gen.StFlatten()), gen.Chain(w, gen.StFlatten(), gen.StFlatten()), gen.Chain(w, gen.StListStar(), gen.StFlatten()), gen.Pipe(gen.Chain(w, gen.StFlatten()), bad),
		gen.Chain(w, gen.StFlatten(), gen.StField("n")), gen.Chain(w, gen.StIndex(0), gen.StFlatten()), gen.Pipe(gen.Chain(w, gen.StFlatten()), gen.Chain(nil, gen.StIndex(0))),
		gen.Func("sort_by", gen.Chain(w, gen.StFlatten()), gen.ExpRef(gen.Field("n"))), gen.Func("reverse", gen.Chain(w, gen.StFlatten())), gen.Chain(w, gen.StListStar(), gen.StListStar()),
		gen.Chain(w, gen.StFilter(gen.Current()), gen.StFlatten()), gen.Chain(ww, gen.StFlatten(), gen.StFlatten(), gen.StFlatten()), gen.Func("map", gen.ExpRef(gen.Chain(nil, gen.StFlatten())), w),
		gen.Chain(w, gen.StFlatten(), gen.StFilter(gen.Field("n"))), gen.Chain(ww, gen.StFlatten(), gen.StFlatten(), gen.StField("n")), gen.Chain(gen.Current(), gen.StStar(), gen.StFlatten()),
		gen.Chain(sg, gen.StFlatten()), gen.Chain(sg, gen.StFlatten(), gen.StField("n")), gen.Chain(sg, gen.StListStar(), gen.StIndex(0)), gen.Func("sort_by", gen.Chain(sg, gen.StFlatten()), gen.ExpRef(gen.Field("n"))),
		gen.Chain(w, gen.StIndex(0), gen.StSliceS("", "", "")), gen.Chain(w, gen.StIndex(0), gen.StSliceS("", "", "-1")), gen.Func("to_array", gen.Chain(w, gen.StIndex(0))), gen.Func("not_null", gen.Chain(w, gen.StIndex(0))),
		gen.MultiList(gen.Chain(w, gen.StFlatten()), gen.Chain(w, gen.StFlatten())), gen.Func("merge", gen.Chain(w, gen.StIndex(0), gen.StIndex(0)), gen.Chain(w, gen.StIndex(0), gen.StIndex(-1))),
	}
	wrapDoc := func(n int, exact bool) func() interface{} {
		return func() interface{} {
			mk := func() []interface{} {
				a := make([]interface{}, n, n+3)
				if exact {
					a = make([]interface{}, n)
				}
				for i := range a {
					a[i] = map[string]interface{}{"n": float64((i * 7) % 5), "i": float64(i)}
				}
				return a
			}
			single := make([]interface{}, n)
			for i := range single {
				single[i] = []interface{}{map[string]interface{}{"n": float64(i % 3), "i": float64(i)}}
			}
			return map[string]interface{}{"w": []interface{}{mk()}, "ww": []interface{}{[]interface{}{mk()}}, "sg": single}
		}
	}
	nw := len(wtrees) * len(wlens) * 2
	wr := mon.Workload{Name: "singleton-wrappers", N: nw, Serial: true, Batch: 100,
		Describe: func(i int) string {
			return gen.Spell(wtrees[i/2%len(wtrees)]) + " inner length " + strconv.Itoa(wlens[i/2/len(wtrees)])
		},
		Do: func(i int, t *mon.Tally) {
			c06Case(r, t, rl, "singleton-wrappers", i, wtrees[i/2%len(wtrees)], wrapDoc(wlens[i/2/len(wtrees)], i%2 == 1), false)
		}}
	// the same function matrix on documents whose scalar leaves are in a non-canonical Go representation
	// (json.Number from Decoder.UseNumber, ints, pointers, named types): whatever Search makes of them
	// (mostly invalid-type errors), it must not normalise them in place
	var xtrees []*gen.Expr
	for _, c := range c06Calls(false, base) {
		ns := c06Nestings(c)
		xtrees = append(xtrees, ns[0], ns[6], ns[7])
	}
	xtrees = append(xtrees, c06Specials()...)
	for _, f := range []string{"n", "s", "an", "ao", "o", "big"} {
		xtrees = append(xtrees, gen.Field(f), gen.Chain(gen.Field("ao"), gen.StFilter(gen.Cmp(">", gen.Field("n"), gen.LitJSON("1")))), gen.Chain(gen.Field("ao"), gen.StFilter(gen.Field(f))))
	}
	nx := len(xtrees) * len(docs.ExoticModes)
	xd := mon.Workload{Name: "non-canonical-leaves", N: nx, Serial: true, Batch: 200,
		Describe: func(i int) string {
			return gen.Spell(xtrees[i/len(docs.ExoticModes)]) + " on leaves as " + docs.ExoticModes[i%len(docs.ExoticModes)]
		},
		Do: func(i int, t *mon.Tally) {
			mode := i % len(docs.ExoticModes)
			c06Case(r, t, rl, "non-canonical-leaves", i, xtrees[i/len(docs.ExoticModes)], func() interface{} { return docs.Exotic(base, mode) }, false)
		}}
	// documents of the embedding family (docs/shadow.go: embedded structs by value and by nil / set pointer, reached
	// by value, through pointers and through typed slices of pointers): reading a promoted field must not
	// allocate, fill in or otherwise touch what it walks through
	var sexprs []string
	for _, f := range docs.ShadowFieldNames {
		sexprs = append(sexprs, "PNil."+f, "PSet."+f, "QNil."+f, "POne."+f, "PItems[*]."+f, "QItems[*]."+f, "PItems[?"+f+"].Name", "QItems[1:]."+f, "abs(QNil."+f+")", "PItems[*].length("+f+")", f, "[*]."+f, "[0]."+f)
	}
	sroots := []func(k int) interface{}{
		func(k int) interface{} { return docs.ShadowDoc(gen.DeriveN(r.Seed, "c06shadow", k%5), k) },
		func(k int) interface{} { d := docs.ShadowDoc(gen.DeriveN(r.Seed, "c06shadow", k%5), k); return &d },
		func(k int) interface{} { return &docs.PlainPtr{Tag: "root"} },
		func(k int) interface{} { return &docs.ShadowPtr{Name: "root"} },
		func(k int) interface{} { return []*docs.PlainPtr{{Tag: "a"}, nil, {Tag: "b"}} },
		func(k int) interface{} { return []*docs.ShadowPtr{{Name: "a"}, {Name: ""}} },
		func(k int) interface{} { return []docs.PlainPtr{{Tag: "a"}, {Tag: "b"}} },
	}
	emb := mon.Workload{Name: "embedded-struct-documents", N: len(sexprs) * len(sroots) * 2, Serial: true, Batch: 200,
		Describe: func(i int) string {
			return sexprs[i/2/len(sroots)] + " on embedding-family root " + strconv.Itoa(i/2%len(sroots))
		},
		Do: func(i int, t *mon.Tally) {
			expr := sexprs[i/2/len(sroots)]
			mk := func() interface{} { return sroots[i/2%len(sroots)](i % 4) }
			doc := mk()
			var jp *jmespath.JMESPath
			if i%2 == 1 {
				j, co := apiCompile(expr)
				if co.Panicked || co.Err != nil {
					return
				}
				jp = j
			}
			t.Eval()
			o, changed := searchWatched(expr, jp, doc)
			if o.Panicked {
				return // C18's business
			}
			onWhat := "success"
			if o.Err != nil {
				onWhat = "error return"
			}
			if changed || mon.Snapshot(doc) != mon.Snapshot(mk()) {
				r.Violate(&mon.Violation{Workload: "embedded-struct-documents", Index: i, API: "Search", Expr: expr, DocDesc: clipStr(mon.Snapshot(mk()), 600), Expected: "struct document unchanged (" + onWhat + ")",
					Observed: "after the call: " + clipStr(mon.Snapshot(doc), 800), Class: "embedded-struct-documents: snapshot changed on " + onWhat})
				return
			}
			if rep := rl.Grown(); rep != "" {
				n, frames := mon.RaceSummary(rep, "go-jmespath")
				r.Violate(&mon.Violation{Workload: "embedded-struct-documents", Index: i, API: "Search", Expr: expr, DocDesc: clipStr(mon.Snapshot(mk()), 600),
					Expected: "no write to the struct document during the call (" + onWhat + ")", Observed: "race detector: " + mon.Show(float64(n)) + " report(s); library frames: " + strings.Join(frames, ", "),
					Detail: clipStr(rep, 6000), Class: "embedded-struct-documents: write detected by the race detector"})
				return
			}
			t.Nontrivial("emb:" + expr + strconv.Itoa(i%len(sroots)))
		}}
	// lists with nulls in them (before, between and after other elements), bare and nested: a projection that
	// has nothing to project may be tempted to tidy the list it was given
	nullDoc := func() interface{} { // (a fresh decode per case)
		return docs.J(`{"x":[3,null,7,null,9],"y":[null,1],"z":[1,null],"n":[null,null],"g":[{"v":[1,null,2]},{"v":[null]},{"v":[]}],"o":{"a":null,"b":1,"c":null,"d":[null,2]},"m":[[null,1],[2,null,3],null,[null]],"s":[null,"b",null,"a"],"ob":[null,{"k":2},null,{"k":1}]}`)
	}
	nexprs := []string{"x[*]", "length(x[*])", "x[]", "x[?@]", "x[*] | [0]", "o.*", "g[*].v[*]", "map(&v[*], g)", "x[:]", "x[::-1]", "abs(x[*])", "x[*] | nosuch(@)", "not_null(x[*])", "m[*][*]", "m[][]", "sort(s[*])", "y[*]", "z[*]", "n[*]",
		"[x[*], x[*]]", "x[*][0]", "m[*]", "m[]", "g[].v[]", "g[*].v[]", "o.d[*]", "to_array(x)[*]", "x[?@ != `null`]", "x[*] == x", "join(',', s[*])", "s[*] | sort(@)", "ob[*].k", "ob[*]", "sort_by(ob[*], &k)", "max_by(ob[?@], &k)", "reverse(x[*])",
		"x[1:][*]", "(x)[*]", "@.x[*]", "*[*]", "*", "[*]", "values(o)", "keys(o)", "o.* | [0]", "merge(o, o).*", "x[*] || y", "!x[*]", "x[*] && y[*]", "{a: x[*], b: y[*]}", "m[*][?@]", "m[?@][*]", "g[?v].v[*]", "x[?`true`]", "x[-3:][*]"}
	nlw := mon.Workload{Name: "lists-with-nulls", N: len(nexprs) * 2, Serial: true, Batch: 100,
		Describe: func(i int) string { return nexprs[i/2] },
		Do: func(i int, t *mon.Tally) {
			c06CaseExpr(r, t, rl, "lists-with-nulls", i, nexprs[i/2], func() interface{} { return withSpare(nullDoc()) }, i%2 == 1)
		}}
	// calls and projections applied to what another expression HANDS BACK from the document: an element chosen by max_by / min_by /
	// not_null / an index / a field, the list itself through to_array / || / a parenthesis / a one-element multi-select. Whoever
	// decides "this operand is a temporary of mine, I may work in place" must get every one of these providers right.
	provDoc := func() interface{} {
		return docs.J(`{"aa":[[3,1],[5,6,7],[2]],"an":[3,1,2,1],"as":["b","a","c"],"ao":[{"n":2,"s":"b","an":[2,1]},{"n":1,"s":"a","an":[4,3,9]},{"n":3,"s":"c","an":[]}],"o":{"n":1,"an":[9,8],"o":{"an":[7,5,6]}},"o2":{"s":"y","n":7},"z":null,"ss":["pq","rs"],"aas":[["b","a"],["d","c","e"]],"aao":[[{"n":2},{"n":1}],[{"n":5},{"n":4},{"n":3}]],"ao2":[{"o":{"n":2,"k":1}},{"o":{"n":1,"j":2}}]}`)
	}
	providers := []string{"max_by(%A, &length(@))", "min_by(%A, &length(@))", "not_null(z, %L)", "not_null(%L)", "to_array(%L)", "%A[0]", "%A[-1]", "ao[1].an", "o.an", "o.o.an", "max_by(ao, &n).an", "min_by(ao, &n).an", "(%L)", "z || %L", "%L || z", "%L && %L", "@.%L", "[%L][0]", "{k: %L}.k", "%L | @",
		"map(&@, %A)[1]", "(%A[*])[1]", "reverse(%A)[0]", "sort_by(ao, &n)[0].an", "merge(o).an", "merge(o, o2).an", "not_null(z, %A)[1]", "to_array(%A)[1]", "(%A || z)[1]", "%A[?length(@) > `1`] | [0]", "%A[1:] | [0]", "values({k: %L})[0]", "not_null(z, not_null(%L))", "max_by([%L], &length(@))", "to_array(to_array(%L))",
		// the document's list chosen by || / && next to an operand that IS freshly built (what decides "temporary" looks at both operands)
		"%L || %L[*]", "%L || %L[?@]", "%L || `[]`", "%L || [%L][]", "%L || map(&@, %L)", "%L || %A[]", "%L[*] && %L", "`[1]` && %L", "[%L] && %L", "%L[?@] && %L", "(%L || %L[:1])", "not_null(%L, %L[*])", "z || %L || %L[*]", "(z || %L) || %L[::-1]", "%L && %L || %L[*]"}
	outers := []string{"reverse(%P)", "sort(%P)", "sort_by(%P, &@)", "sort_by(%P, &n)", "%P[]", "%P[*]", "%P[?@]", "%P[1:]", "%P[::-1]", "to_array(%P)", "map(&@, %P)", "join(',', %P)", "max(%P)", "not_null(%P)", "[%P, %P]", "%P | reverse(@)", "reverse(%P) | sort(@)", "sort(%P) | reverse(@)",
		"merge(%O, {n: `0`})", "merge(%O, o2)", "merge(%O, `{}`, {an: `[]`})", "merge(%O).n", "%O.*", "values(%O)", "max_by(%P, &@)", "[%P][]", "[%P, %P][]", "reverse(reverse(%P))", "sort_by(%P, &to_string(@))", "reverse(%P)[0]", "length(reverse(%P))", "abs(reverse(%P))", "[reverse(%P), sort(%P)]"}
	lists := [][2]string{{"aa", "an"}, {"aas", "as"}, {"aao", "ao"}}
	objProviders := []string{"max_by(ao2, &o.n).o", "min_by(ao2, &o.n).o", "not_null(z, o)", "ao2[0].o", "o.o", "(o)", "o || z", "[o][0]", "{k: o}.k", "to_array(o)[0]", "ao[?n == `1`] | [0]", "max_by(ao, &n)", "values({k: o})[0]"}
	var pexprs []string
	for _, l := range lists {
		for _, pv := range providers {
			pe := strings.ReplaceAll(strings.ReplaceAll(pv, "%A", l[0]), "%L", l[1])
			for _, ou := range outers {
				if strings.Contains(ou, "%O") {
					continue
				}
				pexprs = append(pexprs, strings.ReplaceAll(ou, "%P", pe))
			}
		}
	}
	for _, pv := range objProviders {
		for _, ou := range outers {
			if strings.Contains(ou, "%O") {
				pexprs = append(pexprs, strings.ReplaceAll(ou, "%O", pv))
			}
		}
	}
	pw := mon.Workload{Name: "calls-on-parts-of-the-document-handed-back-by-other-calls", N: len(pexprs), Serial: true, Batch: 200,
		Describe: func(i int) string { return pexprs[i] },
		Do: func(i int, t *mon.Tally) {
			c06CaseExpr(r, t, rl, "calls-on-parts-of-the-document-handed-back-by-other-calls", i, pexprs[i], func() interface{} { return withSpare(provDoc()) }, i%2 == 1)
		}}
	// lists of numbers whose running total leaves the float64 range (the arithmetic functions have a second path for them) and of
	// numbers at the other edges of the formats: whatever that path does, it does on its own copy
	hugeDoc := func() interface{} {
		return docs.J(`{"h":[1e308,1e308,-1e308,5],"h2":[1e308,1e308,1e308],"h3":[1.7976931348623157e308,3,1.7976931348623157e308,-1.7976931348623157e308],"h4":[-1e308,2,-1e308,1e308,-3],"neg":[-1e308,-1e308],"tiny":[5e-324,1e-320,-5e-324],"mix":[9007199254740993,1e21,-0.0,0.1,1e-7],"ho":[{"n":1e308,"s":"a"},{"n":1e308,"s":"b"},{"n":-1e308,"s":"c"}],"o":{"a":1e308,"b":1e308}}`)
	}
	hfields := []string{"h", "h2", "h3", "h4", "neg", "tiny", "mix", "ho[*].n", "values(o)", "to_array(h)", "not_null(h2)", "h[:3]", "[h[0], h[1], h[3]]"}
	hforms := []string{"sum(%s)", "avg(%s)", "max(%s)", "min(%s)", "sort(%s)", "reverse(%s)", "[avg(%s), sum(h4)]", "[sum(%s), h]", "avg(%s) | type(@)", "sum(%s) || `0`", "map(&abs(@), %s)", "sort_by(ho, &n)", "max_by(ho, &n)", "%s[?@ > `0`] | sum(@)", "avg(%s) == avg(%s)", "length(%s)", "to_string(%s)", "ceil(avg(%s))", "abs(sum(%s))", "sum(sort(%s))", "avg(reverse(%s))"}
	var hexprs []string
	for _, hf := range hfields {
		for _, hm := range hforms {
			hexprs = append(hexprs, strings.ReplaceAll(hm, "%s", hf))
		}
	}
	hw := mon.Workload{Name: "numbers-at-the-edges-of-the-formats", N: len(hexprs) * 2, Serial: true, Batch: 200,
		Describe: func(i int) string { return hexprs[i/2] },
		Do: func(i int, t *mon.Tally) {
			c06CaseExpr(r, t, rl, "numbers-at-the-edges-of-the-formats", i, hexprs[i/2], func() interface{} { return withSpare(hugeDoc()) }, i%2 == 1)
		}}
	// selections in which EVERY element passes (what a filter may then hand on is its input) followed by a pipe stage that pages,
	// reorders or picks: the stage works on its own list
	allDoc := func() interface{} {
		return docs.J(`{"it":[1,2,3,4,5],"io":[{"on":true,"v":1},{"on":true,"v":2},{"on":1,"v":3},{"on":"y","v":4},{"on":[0],"v":5}],"is":["e","d","c","b","a"],"o":{"p":[3,2,1]},"run":[1,2,3,4,5,6,7,8,9,0,11,12,0,14],"runo":[{"on":1,"v":1},{"on":1,"v":2},{"on":1,"v":3},{"on":1,"v":4},{"on":1,"v":5},{"on":1,"v":6},{"on":1,"v":7},{"on":1,"v":8},{"on":1,"v":9},{"on":0,"v":10},{"on":1,"v":11}],"run20":[1,2,3,4,5,6,7,8,9,10,11,12,13,14,15,16,17,18,19,20,null,22]}`)
	}
	allExprs := []string{"it[?@] | [2:4]", "it[?@ > `0`] | [1:]", "io[?on] | [2:4]", "io[?on] | [1::2].v", "it[*] | [2:]", "it[:] | [1:3]", "it[] | [2:4]", "(it[?@])[2:4]", "it[?@] | [::2]", "it[?@] | reverse(@)", "it[?@] | sort(@)", "it[?`true`] | [3:]", "to_array(it) | [2:4]",
		"not_null(it) | [1:3]", "it | [2:4]", "io[?on].v | [1:]", "is[?@] | sort(@)", "is[?@] | [1:] | sort(@)", "is[?@ != 'zz'] | [3:] | [0]", "it[?@] | [-2:]", "it[?@] | [::-1] | [1:3]", "io[?on] | [3:] | [0].v", "o.p[?@] | sort(@)", "o.p[?@] | [1:]", "it[?@] | map(&@, @) | [2:]",
		"it[?@] | [?@ > `2`]", "it[?@] | [*] | [1:]", "it[?@][2:4]", "it[?@] | [4:2:-1]", "[it[?@] | [2:4], it]", "it[?@] | sort_by(@, &@) | [1:3]", "io[?v] | sort_by(@, &v) | [2:]", "it[?@] | [2:4] | sum(@)", "it[?@ < `9`] | [1:4:2]",
		// a long run of kept elements from the start, then a dropped one, then kept ones again
		"run[?@]", "run[?@ > `0`]", "length(run[?@])", "run[?@] | [0]", "runo[?on].v", "runo[?on]", "run20[?@]", "run20[?@ != `null`]", "run[?@ != `0`] | [-1]", "[run[?@], run]", "run[?@][10]", "runo[?on][9].v", "run[?@ < `100` && @]", "map(&@, run[?@])", "run[*] | [?@]", "run[?@] | [?@ > `5`]", "run[::-1]", "run20[::-1]", "run20[30:2:-1]", "run[-1:0:-1]", "run20[::-1][0]"}
	allw := mon.Workload{Name: "selections-that-keep-everything-then-a-paging-stage", N: len(allExprs) * 2, Serial: true, Batch: 100,
		Describe: func(i int) string { return allExprs[i/2] },
		Do: func(i int, t *mon.Tally) {
			c06CaseExpr(r, t, rl, "selections-that-keep-everything-then-a-paging-stage", i, allExprs[i/2], func() interface{} { return withSpare(allDoc()) }, i%2 == 1)
		}}
	// the RESULT of an earlier search as the document of the next one (a caller may keep it and query it): it is a document like any
	// other - also when it is a one-element list a function built around its argument
	resProviders := []string{"to_array(s)", "to_array(n)", "to_array(o)", "[s]", "not_null(z, an)", "an[*]", "to_array(to_array(s))", "merge(o)", "{k: s}", "values(o2)", "map(&@, as)", "as[?@]", "sort(as)", "reverse(as)", "[s, n]", "to_array(as)", "not_null(s)", "ao[*].s", "keys(o2)"}
	resExprs := []string{"length(@)", "to_array(@)", "type(@)", "[0]", "join(',', @)", "sort(@)", "reverse(@)", "map(&@, @)", "not_null(@, @)", "contains(@, 'x')", "max(@)", "[length(@), type(@), to_string(@)]", "to_string(@)", "@[*].type(@)", "merge(@, @)", "keys(@)", "abs(@)", "[@, to_array(@)]", "sort_by(@, &@)", "sum(@)"}
	resw := mon.Workload{Name: "results-of-earlier-searches-as-documents", N: len(resProviders) * len(resExprs), Serial: true, Batch: 100,
		Describe: func(i int) string { return resExprs[i%len(resExprs)] + " on the result of " + resProviders[i/len(resExprs)] },
		Do: func(i int, t *mon.Tally) {
			prov := resProviders[i/len(resExprs)]
			mk := func() interface{} {
				first := apiSearch(prov, withSpare(base))
				if first.Panicked || first.Err != nil {
					return nil
				}
				apiSearch("type(@)", float64(1)) // (one unrelated call in between: whatever the first call borrowed has been given back)
				return first.V
			}
			c06CaseExpr(r, t, rl, "results-of-earlier-searches-as-documents", i, resExprs[i%len(resExprs)], mk, i%2 == 1)
		}}
	// a compiled expression searching ITS OWN earlier result (the caller keeps what it got and asks again): what the expression
	// remembers about a list it built last time gives it no right to it
	ownExprs := []string{"reverse(@)", "sort(@)", "@", "to_array(@)", "[*]", "[::-1]", "map(&@, @)", "not_null(@)", "sort_by(@, &@)", "[?@]", "[]", "[1:]", "reverse(sort(@))", "sort(reverse(@))", "[@, @][]", "not_null(z, @)", "@ || `[]`", "reverse(to_array(@))", "sort_by(reverse(@), &@)", "merge(@)", "values(@)", "keys(@)", "*"}
	ownDocs := []string{`[3,1,2,5,4]`, `["b","a","c"]`, `[[2],[1],[3]]`, `{"k":[3,1,2],"j":"x"}`, `[{"n":2},{"n":1}]`}
	ownw := mon.Workload{Name: "a-compiled-expression-searching-its-own-earlier-result", N: len(ownExprs) * len(ownDocs), Serial: true, Batch: 50,
		Describe: func(i int) string { return ownExprs[i/len(ownDocs)] + " on " + ownDocs[i%len(ownDocs)] + " and then on its own result" },
		Do: func(i int, t *mon.Tally) {
			expr := ownExprs[i/len(ownDocs)]
			jp, co := apiCompile(expr)
			if co.Panicked || co.Err != nil {
				r.Inconclusive("C06 workload expression does not compile: " + expr)
				return
			}
			first := apiJP(jp, withSpare(docs.J(ownDocs[i%len(ownDocs)])))
			t.Eval()
			if first.Panicked || first.Err != nil || first.V == nil {
				return
			}
			doc := first.V
			for round := 0; round < 3; round++ {
				shown := clipStr(mon.Snapshot(doc), 400)
				o, changed := searchWatched(expr, jp, doc)
				t.Eval()
				rep := rl.Grown()
				if o.Panicked || changed || rep != "" {
					r.Violate(&mon.Violation{Workload: "a-compiled-expression-searching-its-own-earlier-result", Index: i, API: "Compile+Search", Expr: expr, DocDesc: "the value the same compiled expression returned before: " + shown,
						Expected: "the document (the caller's copy of the earlier result) deep-equal to what it was, no write to it", Observed: o.String() + "; document afterwards: " + clipStr(mon.Snapshot(doc), 400), Detail: clipStr(rep, 3000), Class: "a compiled expression writes to a result it handed out earlier"})
					return
				}
				if o.Err != nil || o.V == nil {
					break
				}
				doc = o.V
			}
			t.Nontrivial("own:" + strconv.Itoa(i))
		}}
	r.Exec(fm, sd, rnd, wr, xd, emb, nlw, pw, hw, allw, resw, ownw)
	r.Extra["race_log_active"] = rl != nil
}
