package main

import (
	"fmt"
	"math"
	"strconv"
	"strings"
	"verifharness/docs"
	"verifharness/gen"
	"verifharness/mon"
	"verifharness/ref"
)

// C15 — pipe is sequential composition; sub-expressions are referentially transparent.

func init() { register("C15", c15) }

func sameOutcome(a, b mon.Observed) bool {
	if a.Panicked || b.Panicked {
		return false
	}
	if (a.Err != nil) != (b.Err != nil) {
		return false
	}
	if a.Err != nil {
		return true
	}
	return looseJSONEqual(a.V, b.V)
}

// looseJSONEqual: strict by Go type, numbers compared with ref.NumEq.
func looseJSONEqual(a, b interface{}) bool { return ref.Match(a, b) && ref.Match(b, a) }

func c15Contexts(rng *gen.Rand, g *gen.TreeGen) func(h *gen.Expr) *gen.Expr {
	x := func() *gen.Expr { return g.Expr(g.MaxDepth-1, gen.WAny) }
	layers := 1 + rng.Intn(3)
	var fs []func(h *gen.Expr) *gen.Expr
	for k := 0; k < layers; k++ {
		var f func(h *gen.Expr) *gen.Expr
		switch rng.Intn(20) {
		case 0:
			o := x()
			f = func(h *gen.Expr) *gen.Expr { return gen.Or(h, o) }
		case 1:
			o := x()
			f = func(h *gen.Expr) *gen.Expr { return gen.Or(o, h) }
		case 2:
			o := x()
			f = func(h *gen.Expr) *gen.Expr { return gen.And(h, o) }
		case 3:
			f = func(h *gen.Expr) *gen.Expr { return gen.Not(h) }
		case 4:
			o := x()
			f = func(h *gen.Expr) *gen.Expr { return gen.Cmp("==", h, o) }
		case 5:
			o := x()
			f = func(h *gen.Expr) *gen.Expr { return gen.Cmp("<", o, h) }
		case 6:
			o := x()
			f = func(h *gen.Expr) *gen.Expr { return gen.MultiList(o, h) }
		case 7:
			f = func(h *gen.Expr) *gen.Expr { return gen.MultiHash(keyA("k"), []*gen.Expr{h}) }
		case 8:
			fn := gen.Pick(rng, []string{"to_array", "type", "to_string", "length", "to_number", "reverse", "keys", "values", "sort", "sum", "max"})
			f = func(h *gen.Expr) *gen.Expr { return gen.Func(fn, h) }
		case 9:
			o := x()
			f = func(h *gen.Expr) *gen.Expr { return gen.Func("not_null", o, h) }
		case 10:
			k := gen.Pick(rng, []string{"n", "s", "o", "ao", "an"})
			f = func(h *gen.Expr) *gen.Expr { return gen.Chain(gen.Paren(h), gen.StField(k)) }
		case 11:
			ix := int64(rng.Intn(4) - 2)
			f = func(h *gen.Expr) *gen.Expr { return gen.Chain(gen.Paren(h), gen.StIndex(ix)) }
		case 12:
			f = func(h *gen.Expr) *gen.Expr { return gen.Chain(gen.Paren(h), gen.StListStar(), gen.StField("n")) }
		case 13:
			o := x()
			f = func(h *gen.Expr) *gen.Expr { return gen.Pipe(h, o) }
		case 14:
			f = func(h *gen.Expr) *gen.Expr { return gen.Paren(h) }
		case 15:
			o := x()
			f = func(h *gen.Expr) *gen.Expr { return gen.Func("contains", h, o) }
		case 16:
			f = func(h *gen.Expr) *gen.Expr { return gen.Func("sort_by", h, gen.ExpRef(gen.Field("n"))) }
		case 17:
			f = func(h *gen.Expr) *gen.Expr { return gen.Func("map", gen.ExpRef(gen.Field("s")), h) }
		case 18:
			f = func(h *gen.Expr) *gen.Expr { return gen.Chain(gen.Paren(h), gen.StFlatten()) }
		default:
			o := x()
			f = func(h *gen.Expr) *gen.Expr { return gen.Func("merge", h, o) }
		}
		fs = append(fs, f)
	}
	return func(h *gen.Expr) *gen.Expr {
		for _, f := range fs {
			h = f(h)
		}
		return h
	}
}

func c15(r *mon.Run) {
	r.Rule = "law 1: for seeded random trees A, B of all fragments and random typed documents d, Search('A | B', d) is compared with Search(B, Search(A, d)) where the intermediate value is handed on as the Go value returned (no JSON round trip), in value and in error-ness; " +
		"law 2: for a random tree E with a JSON value v = Search(E, d) and a random context C[.] of 1-3 layers whose hole is evaluated against the root (operands of || && ! comparators, multi-select members, function arguments, heads of chains and pipes), Search(C[E], d) is compared with Search(C[literal(v)], d). " +
		"law 2 additionally with every function template (and sorts of 24 elements with tied keys) as the hole directly under 21 selections (indices from both ends, slices, projections, length, comparisons of first and last); law 2 additionally with the hole in never-evaluated positions (behind short-circuiting || / &&, right of projections over null / empty lists, filters over empty lists) for every function x every JSON type; the composed side of each law goes through one-shot Search and through Compile+Search alternately. law 1 additionally on every pair of 23 left sides (projections / by-expression calls whose right-hand side fails on only some elements, null-producing paths, large integer literals) x 23 right sides (indices, slices, length, dotted paths ending in a function call, comparisons with large literals). When the reference model allows more than one member order, both sides are only required to be allowed results. Non-trivial = distinct (A, B, d) where Search(A, d) is neither null nor an error (law 1), distinct (C, E, d) with a non-null v (law 2)."
	r.Floor = 2000
	r.Assumptions = []string{"metamorphic: both sides of each law are computed by the implementation under test; the reference model is used only to recognise order nondeterminism",
		"literals are spelled with shortest round-trip floats (gen.FormatNumber)"}
	// the composed side of each law goes through one-shot Search for even case numbers and through
	// Compile + Search for odd ones (a rewrite or a check that only Compile performs shows there)
	via := func(i int, expr string, doc interface{}) mon.Observed {
		if i%2 == 1 {
			return apiCompiledSearch(expr, doc)
		}
		return apiSearch(expr, doc)
	}
	n1 := tierPick(r, 40000, 1200000)
	law1 := mon.Workload{Name: "pipe-composition", N: n1,
		Do: func(i int, t *mon.Tally) {
			rng := gen.DeriveN(r.Seed, "c15a", i)
			g := gen.NewTreeGen(rng)
			g.MaxDepth = 1 + rng.Intn(4)
			g.IllTyped = 10
			A := g.Expr(0, gen.Pick(rng, []gen.Want{gen.WObject, gen.WArrObj, gen.WArray, gen.WAny}))
			B := g.Expr(0, gen.WAny)
			dg := docs.NewRand(rng)
			for k := 0; k < 3; k++ {
				var doc interface{} = dg.TypedDoc(0)
				if k == 2 {
					doc = dg.Doc()
				}
				t.Eval()
				whole := gen.Pipe(A, B)
				ow := via(i, gen.Spell(whole), mon.DeepCopy(doc))
				oa := apiSearch(gen.Spell(A), mon.DeepCopy(doc))
				var ob mon.Observed
				if oa.Panicked || oa.Err != nil {
					ob = oa
				} else {
					ob = apiSearch(gen.Spell(B), oa.V)
				}
				if ow.Panicked || ob.Panicked {
					r.Violate(&mon.Violation{Workload: "pipe-composition", Index: i, API: "Search", Expr: gen.Spell(whole), Doc: doc, Expected: "no panic", Observed: ow.String() + " / " + ob.String(), Class: "panic"})
					return
				}
				if !sameOutcome(ow, ob) {
					res := ref.RefSet(whole, doc, gen.Quirks{})
					if len(res.Outcomes) > 1 || res.Skipped != "" || res.DontCare {
						if agree(res, ow, ob) {
							t.Count("law 1: sides differ only in an allowed member order / unspecified result")
							continue
						}
					}
					r.Violate(&mon.Violation{Workload: "pipe-composition", Index: i, API: "Search", Expr: gen.Spell(whole), Doc: doc,
						Expected: "Search(B, Search(A, d)) = " + ob.String() + "   [A = " + gen.Spell(A) + " ; B = " + gen.Spell(B) + " ; Search(A, d) = " + oa.String() + "]",
						Observed: "Search('A | B', d) = " + ow.String(), Class: "pipe law"})
					return
				}
				if !oa.Panicked && oa.Err == nil && oa.V != nil {
					t.Nontrivial("p:" + gen.Spell(whole) + ref.Canon(doc))
					t.Count("law 1: left side non-null")
				} else if oa.Err != nil {
					t.Count("law 1: left side errors (pipe must error)")
				}
				if i%9001 == 0 && k == 0 {
					t.Sample(map[string]interface{}{"law": "pipe", "A": gen.Spell(A), "B": gen.Spell(B), "document": doc, "result": ow.String()})
				}
			}
		}}
	n2 := tierPick(r, 40000, 1200000)
	law2 := mon.Workload{Name: "referential-transparency", N: n2,
		Do: func(i int, t *mon.Tally) {
			rng := gen.DeriveN(r.Seed, "c15b", i)
			g := gen.NewTreeGen(rng)
			g.MaxDepth = 1 + rng.Intn(3)
			g.IllTyped = 12
			E := g.Expr(0, gen.WAny)
			C := c15Contexts(rng, g)
			doc := docs.NewRand(rng).TypedDoc(0)
			t.Eval()
			oe := apiSearch(gen.Spell(E), mon.DeepCopy(doc))
			if oe.Panicked {
				r.Violate(&mon.Violation{Workload: "referential-transparency", Index: i, API: "Search", Expr: gen.Spell(E), Doc: doc, Expected: "no panic", Observed: oe.String(), Class: "panic"})
				return
			}
			if oe.Err != nil {
				t.Count("law 2: E errors (no value to substitute), skipped")
				return
			}
			if why := mon.JSONClosed(oe.V); why != "" {
				if shape := mon.JSONShape(oe.V); shape != "" && !strings.Contains(shape, "non-finite") {
					// the document is JSON data and no expression reference is involved, yet the value of the
					// sub-expression is not a JSON value: no literal can stand for it, the law cannot hold
					r.Violate(&mon.Violation{Workload: "referential-transparency", Index: i, API: "Search", Expr: gen.Spell(E), Doc: doc, Expected: "a JSON value (which a literal can denote)", Observed: oe.String(), Detail: shape, Class: "sub-expression value that no literal denotes"})
					return
				}
				t.Count("law 2: value of E is not JSON-serialisable, skipped")
				return
			}
			T1 := C(E)
			T2 := C(gen.LitVal(oe.V))
			o1 := via(i, gen.Spell(T1), mon.DeepCopy(doc))
			o2 := via(i, gen.Spell(T2), mon.DeepCopy(doc))
			if o1.Panicked || o2.Panicked {
				r.Violate(&mon.Violation{Workload: "referential-transparency", Index: i, API: "Search", Expr: gen.Spell(T1), Doc: doc, Expected: "no panic", Observed: o1.String() + " / " + o2.String(), Class: "panic"})
				return
			}
			if !sameOutcome(o1, o2) {
				res := ref.RefSet(T1, doc, gen.Quirks{})
				if len(res.Outcomes) > 1 || res.Skipped != "" || res.DontCare {
					if agree(res, o1, o2) {
						t.Count("law 2: sides differ only in an allowed member order / unspecified result")
						return
					}
				}
				r.Violate(&mon.Violation{Workload: "referential-transparency", Index: i, API: "Search", Expr: gen.Spell(T1), Doc: doc,
					Expected: "same as with the sub-expression " + gen.Spell(E) + " replaced by the literal of its value: " + gen.Spell(T2) + " = " + o2.String(),
					Observed: o1.String(), Class: "substitution law"})
				return
			}
			if oe.V != nil {
				t.Nontrivial("s:" + gen.Spell(T1) + ref.Canon(doc))
				t.Count("law 2: substituted value non-null")
			}
			if i%9001 == 0 {
				t.Sample(map[string]interface{}{"law": "substitution", "C[E]": gen.Spell(T1), "C[lit]": gen.Spell(T2), "document": doc, "result": o1.String()})
			}
		}}
	// law 1 on the shapes where a "first match" shortcut would bite: A is a projection (or a by-expression
	// function) whose right-hand side fails on only some elements, B selects from its result
	absA := func() *gen.Expr { return gen.Func("abs", gen.Field("a")) }
	fn := gen.StFunc("abs", gen.Field("a"))
	x := func() *gen.Expr { return gen.Field("x") }
	gt0 := func() *gen.Expr { return gen.Cmp(">", absA(), gen.LitJSON("0")) }
	As := []*gen.Expr{
		gen.Chain(x(), gen.StListStar(), fn), gen.Chain(x(), gen.StFilter(gt0())), gen.Chain(x(), gen.StFlatten(), fn), gen.Chain(x(), gen.StSliceS("", "", "-1"), fn), gen.Chain(x(), gen.StSliceS("1", "", ""), fn),
		gen.Chain(gen.Field("o"), gen.StStar(), fn), gen.Func("map", gen.ExpRef(absA()), x()), gen.Func("sort_by", x(), gen.ExpRef(absA())), gen.Chain(x(), gen.StListStar(), gen.StField("k")),
		gen.Chain(x(), gen.StListStar(), gen.StMultiList(gen.Field("k"), absA())), gen.Chain(x(), gen.StFilter(gen.Cmp("!=", gen.Field("k"), gen.LitJSON("2"))), fn), gen.Chain(gen.Field("y"), gen.StListStar(), gen.StListStar(), fn),
		gen.Chain(gen.Field("y"), gen.StFlatten(), fn), gen.Chain(x(), gen.StListStar(), gen.StField("missing")), gen.Chain(x(), gen.StFilter(gen.Cmp("==", gen.Field("k"), gen.LitJSON("3")))),
		gen.Field("missing"), gen.Chain(gen.Field("o"), gen.StField("missing")), gen.Chain(x(), gen.StIndex(9)), gen.LitJSON("null"), gen.Chain(gen.Field("o"), gen.StField("p")), gen.Chain(x(), gen.StIndex(0)),
		gen.LitJSON("16777217"), gen.LitJSON("[123456789, 16777217]"),
		gen.Raw("it's"), gen.MultiList(gen.Raw("a'b"), gen.Field("k")), gen.Chain(x(), gen.StFilter(gen.Cmp("!=", gen.Field("k"), gen.Raw("it's")))),
		// a negative zero as the whole intermediate value (and inside one): it crosses the pipe, and the API, as what it is
		gen.Func("ceil", gen.Field("nf")), gen.Field("nz"), gen.LitJSON("-0.0"), gen.Func("abs", gen.Field("nz")), gen.MultiList(gen.Func("ceil", gen.Field("nf"))), gen.Func("sum", gen.MultiList(gen.Field("nz"), gen.Field("nz"))), gen.Func("to_number", gen.Raw("-0")),
		gen.Cmp("==", gen.Field("nz"), gen.LitJSON("0")), gen.Not(gen.Field("missing")), gen.Cmp("<", gen.Field("nf"), gen.LitJSON("0")),
		// projections whose right-hand side is null for SOME elements (a null member, a member only every other element has): the
		// left step drops them, so the right step never sees them - fusing the two steps into one loop would
		gen.Chain(x(), gen.StListStar(), gen.StField("a")), gen.Chain(x(), gen.StListStar(), gen.StField("h")), gen.Chain(x(), gen.StFlatten(), gen.StField("h")), gen.Chain(x(), gen.StFilter(gen.Field("k")), gen.StField("h")),
		gen.Chain(gen.Field("o"), gen.StStar(), gen.StField("h")), gen.Chain(x(), gen.StSliceS("1", "", ""), gen.StField("h")), gen.Chain(x(), gen.StSliceS("", "", "-1"), gen.StField("a")), gen.Func("map", gen.ExpRef(gen.Field("h")), x()),
		gen.Chain(gen.Field("y"), gen.StListStar(), gen.StListStar(), gen.StField("h")), gen.Chain(x(), gen.StListStar(), gen.StMultiList(gen.Field("h"))), gen.Chain(x(), gen.StListStar(), gen.StField("h"), gen.StField("deeper")),
	}
	Bs := []*gen.Expr{
		gen.Func("to_string", gen.MultiList(gen.Current())), gen.MultiList(gen.Func("to_string", gen.Current()), gen.Func("type", gen.Current())), gen.Not(gen.Current()), gen.Cmp("==", gen.Current(), gen.LitJSON("true")),
		gen.Chain(nil, gen.StListStar(), gen.StFunc("type", gen.Current())), gen.Chain(nil, gen.StListStar(), gen.StFunc("to_string", gen.Current())), gen.Chain(nil, gen.StListStar(), gen.StFunc("not_null", gen.Current(), gen.LitJSON("0"))),
		gen.Chain(nil, gen.StFlatten(), gen.StFunc("type", gen.Current())), gen.Chain(nil, gen.StFilter(gen.Cmp("==", gen.Func("type", gen.Current()), gen.Raw("null")))), gen.Chain(nil, gen.StListStar(), gen.StMultiList(gen.Current())),
		gen.Chain(nil, gen.StSliceS("", "", "-1"), gen.StFunc("type", gen.Current())), gen.Chain(nil, gen.StFilter(gen.Not(gen.Current()))), gen.Func("map", gen.ExpRef(gen.Func("type", gen.Current())), gen.Current()), gen.Chain(nil, gen.StSliceS("1", "", ""), gen.StMultiHash(keyA("v"), []*gen.Expr{gen.Current()})),
		gen.Chain(nil, gen.StListStar(), gen.StFunc("to_array", gen.Current())), gen.Chain(nil, gen.StStar(), gen.StFunc("type", gen.Current())),
		gen.Chain(nil, gen.StIndex(0)), gen.Chain(nil, gen.StIndex(1)), gen.Chain(nil, gen.StIndex(-1)), gen.Chain(nil, gen.StIndex(0), gen.StField("k")), gen.Func("length", gen.Current()), gen.Chain(nil, gen.StSliceS("0", "1", "")),
		gen.Current(), gen.Chain(nil, gen.StListStar()), gen.Chain(nil, gen.StFlatten()), gen.Func("not_null", gen.Current()), gen.Chain(nil, gen.StIndex(0), gen.StIndex(0)), gen.Func("type", gen.Current()),
		gen.Or(gen.Chain(nil, gen.StIndex(5)), gen.LitJSON("9")), gen.MultiList(gen.Chain(nil, gen.StIndex(0)), gen.Chain(nil, gen.StIndex(-1))),
		gen.Chain(gen.Field("a"), gen.StFunc("type", gen.Current())), gen.Chain(gen.Field("a"), gen.StFunc("not_null", gen.Current(), gen.Raw("n/a"))), gen.Chain(gen.Field("a"), gen.StFunc("length", gen.Current())),
		gen.Chain(gen.Field("a"), gen.StField("b"), gen.StFunc("to_string", gen.Current())), gen.Chain(nil, gen.StIndex(0), gen.StFunc("type", gen.Current())), gen.Chain(gen.Field("k"), gen.StFunc("to_array", gen.Current())),
		gen.Cmp("==", gen.Current(), gen.LitJSON("16777217")), gen.Func("to_string", gen.Current()), gen.Func("contains", gen.Current(), gen.LitJSON("123456789")),
		gen.MultiList(gen.Current(), gen.Raw("o'k")), gen.Cmp("==", gen.Current(), gen.Raw("it's")), gen.Func("not_null", gen.Chain(nil, gen.StIndex(7)), gen.Raw("o'k'")),
	}
	var sdocs []interface{}
	for bad := -1; bad < 4; bad++ {
		mk := func(n int) []interface{} {
			arr := make([]interface{}, n)
			for i := range arr {
				var a interface{} = float64(i + 1)
				if i == bad {
					a = "s"
				}
				if i == 1 && bad == 3 {
					a = nil
				}
				arr[i] = map[string]interface{}{"a": a, "k": float64(i + 1)}
				if i%2 == 0 {
					arr[i].(map[string]interface{})["h"] = "h" + string(rune('0'+i))
				}
			}
			return arr
		}
		xs := mk(4)
		sdocs = append(sdocs, map[string]interface{}{"nf": -0.4, "nz": math.Copysign(0, -1), "x": xs, "o": map[string]interface{}{"p": xs[0], "q": xs[1], "r": xs[2]}, "y": []interface{}{mk(2), mk(4)}})
	}
	nA, nB, nD := len(As), len(Bs), len(sdocs)
	shaped := mon.Workload{Name: "pipe-after-projection", N: nA * nB * nD,
		Describe: func(i int) string {
			return gen.Spell(gen.Pipe(As[i/(nB*nD)], Bs[(i/nD)%nB])) + " on " + ref.Canon(sdocs[i%nD])
		},
		Do: func(i int, t *mon.Tally) {
			A, B, doc := As[i/(nB*nD)], Bs[(i/nD)%nB], sdocs[i%nD]
			t.Eval()
			whole := gen.Pipe(A, B)
			ow := via(i, gen.Spell(whole), mon.DeepCopy(doc))
			oa := apiSearch(gen.Spell(A), mon.DeepCopy(doc))
			ob := oa
			if !oa.Panicked && oa.Err == nil {
				ob = apiSearch(gen.Spell(B), oa.V)
			}
			if ow.Panicked || ob.Panicked {
				r.Violate(&mon.Violation{Workload: "pipe-after-projection", Index: i, API: "Search", Expr: gen.Spell(whole), Doc: doc, Expected: "no panic", Observed: ow.String() + " / " + ob.String(), Class: "panic"})
				return
			}
			if !sameOutcome(ow, ob) {
				res := ref.RefSet(whole, doc, gen.Quirks{})
				if (len(res.Outcomes) > 1 || res.Skipped != "" || res.DontCare) && agree(res, ow, ob) {
					return
				}
				r.Violate(&mon.Violation{Workload: "pipe-after-projection", Index: i, API: "Search", Expr: gen.Spell(whole), Doc: doc,
					Expected: "Search(B, Search(A, d)) = " + ob.String() + "   [A = " + gen.Spell(A) + " ; B = " + gen.Spell(B) + " ; Search(A, d) = " + oa.String() + "]",
					Observed: "Search('A | B', d) = " + ow.String(), Class: "pipe law (projection | selection)"})
				return
			}
			t.NontrivialDistinct(1)
			if oa.Err != nil {
				t.Count("shaped: A errors, the pipe must error")
			}
		}}
	// law 2 where the hole is never evaluated: behind a short-circuiting || / &&, on the right of a projection
	// over null or an empty list, in a filter over an empty list. Whatever the value (also one the enclosing
	// function would reject), writing it as a literal changes nothing: every function x every JSON type x 6
	// dead positions, both entry points.
	fnames := ref.FunctionNames()
	dvals := []string{"n", "s", "b", "z", "an", "as", "o", "ao"}
	ddoc := docs.J(`{"n":-1.5,"s":"ann","b":true,"z":null,"an":[2,1],"as":["b","a"],"o":{"n":1},"ao":[{"n":2},{"n":1}],"t":"yes","empty":[],"f":false}`)
	const dpos = 6
	dead := mon.Workload{Name: "substitution-in-unevaluated-positions", N: len(fnames) * len(dvals) * dpos * 2,
		Do: func(i int, t *mon.Tally) {
			k := i / 2
			fn := fnames[k/(len(dvals)*dpos)]
			key := dvals[k/dpos%len(dvals)]
			val := ddoc.(map[string]interface{})[key]
			ctx := func(h *gen.Expr) *gen.Expr {
				call := gen.Func(fn, h)
				if sg := ref.Signatures[fn]; len(sg.Params) == 2 {
					if sg.Params[0][0] == "expref" {
						call = gen.Func(fn, gen.ExpRef(gen.Current()), h)
					} else if sg.Params[1][0] == "expref" {
						call = gen.Func(fn, h, gen.ExpRef(gen.Current()))
					} else {
						call = gen.Func(fn, h, h)
					}
				}
				switch k % dpos {
				case 0:
					return gen.Or(gen.Field("t"), call)
				case 1:
					return gen.And(gen.Field("f"), call)
				case 2:
					return gen.Chain(gen.Field("z"), gen.StListStar(), gen.StMultiList(call))
				case 3:
					return gen.Chain(gen.Field("empty"), gen.StFilter(call))
				case 4:
					return gen.MultiList(gen.Or(gen.Raw("x"), call), gen.And(gen.LitJSON("null"), call))
				default:
					return gen.Chain(gen.Field("empty"), gen.StListStar(), gen.StMultiHash(keyA("k"), []*gen.Expr{call}))
				}
			}
			T1, T2 := ctx(gen.Field(key)), ctx(gen.LitVal(val))
			t.Eval()
			o1 := via(i, gen.Spell(T1), mon.DeepCopy(ddoc))
			o2 := via(i, gen.Spell(T2), mon.DeepCopy(ddoc))
			if o1.Panicked || o2.Panicked || !sameOutcome(o1, o2) {
				r.Violate(&mon.Violation{Workload: "substitution-in-unevaluated-positions", Index: i, API: []string{"Search", "Compile+Search"}[i%2], Expr: gen.Spell(T1), Doc: ddoc,
					Expected: "same as with " + key + " replaced by the literal of its value: " + gen.Spell(T2) + " = " + o2.String(), Observed: o1.String(), Class: "substitution law (unevaluated position)"})
				return
			}
			t.Nontrivial("dead:" + gen.Spell(T1))
			if o1.Err == nil {
				t.Count("dead positions: both sides give the same value")
			} else {
				t.Count("dead positions: both sides error")
			}
		}}
	// law 2 with the hole directly under a selection, for every function template fed from the document (arrays with
	// tied keys, already sorted input): what follows a call must see the call's value, whatever short-cut the
	// combination "this call + this selection" might invite
	cbase := c06BaseDoc()
	calls := c06Calls(false, cbase)
	calls = append(calls, gen.Func("sort_by", gen.Field("big"), gen.ExpRef(gen.Field("n"))), gen.Func("sort_by", gen.Field("big"), gen.ExpRef(gen.Field("s"))), gen.Func("sort", gen.Field("bign")), gen.Func("sort", gen.Field("bigs")),
		gen.Func("max_by", gen.Field("big"), gen.ExpRef(gen.Field("n"))), gen.Func("min_by", gen.Field("big"), gen.ExpRef(gen.Field("n"))), gen.Func("reverse", gen.Field("big")), gen.Func("map", gen.ExpRef(gen.Field("n")), gen.Field("big")),
		gen.Func("max_by", gen.LitJSON("[]"), gen.ExpRef(gen.Field("n"))), gen.Func("min_by", gen.Chain(gen.Field("ao"), gen.StFilter(gen.Cmp(">", gen.Field("n"), gen.LitJSON("99")))), gen.ExpRef(gen.Field("n"))), gen.Func("to_number", gen.Field("s")),
		gen.Func("not_null", gen.Field("z"), gen.Field("z")), gen.Func("avg", gen.LitJSON("[]")), gen.Func("values", gen.LitJSON("{}")), gen.Func("keys", gen.LitJSON("{}")), gen.Func("to_array", gen.LitJSON("[]")), gen.Func("sort", gen.LitJSON("[]")),
		gen.Func("reverse", gen.LitJSON("[]")), gen.Func("map", gen.ExpRef(gen.Current()), gen.LitJSON("[]")), gen.Func("merge", gen.LitJSON("{}")), gen.Func("sort_by", gen.LitJSON("[]"), gen.ExpRef(gen.Current())),
		// holes that are not calls: filters whose condition holds for null elements, projections that drop nulls
		gen.Chain(gen.Field("am"), gen.StFilter(gen.Not(gen.Current()))), gen.Chain(gen.Field("am"), gen.StFilter(gen.Cmp("!=", gen.Current(), gen.LitJSON("1")))), gen.Chain(gen.Field("am"), gen.StListStar()),
		gen.Chain(gen.LitJSON("[null, 1, null, 0, false]"), gen.StFilter(gen.Not(gen.Current()))), gen.Chain(gen.Field("ao"), gen.StFilter(gen.Cmp("!=", gen.Field("missing"), gen.LitJSON("true")))), gen.Chain(gen.Field("ao"), gen.StListStar(), gen.StField("missing")),
		gen.Func("sort_by", gen.Field("sorted"), gen.ExpRef(gen.Field("n"))), gen.Func("values", gen.Field("o")), gen.Func("keys", gen.Field("o")), gen.Func("to_array", gen.Field("big")), gen.Func("not_null", gen.Field("z"), gen.Field("big")))
	sel := []func(h *gen.Expr) *gen.Expr{
		func(h *gen.Expr) *gen.Expr { return gen.Chain(h, gen.StIndex(0)) }, func(h *gen.Expr) *gen.Expr { return gen.Chain(h, gen.StIndex(-1)) },
		func(h *gen.Expr) *gen.Expr { return gen.Chain(h, gen.StIndex(1)) }, func(h *gen.Expr) *gen.Expr { return gen.Chain(h, gen.StIndex(-2)) },
		func(h *gen.Expr) *gen.Expr { return gen.Chain(h, gen.StIndex(0), gen.StField("i")) }, func(h *gen.Expr) *gen.Expr { return gen.Chain(h, gen.StIndex(-1), gen.StField("i")) },
		func(h *gen.Expr) *gen.Expr { return gen.Chain(h, gen.StListStar(), gen.StField("i")) }, func(h *gen.Expr) *gen.Expr { return gen.Chain(h, gen.StFlatten()) },
		func(h *gen.Expr) *gen.Expr { return gen.Chain(h, gen.StFilter(gen.Current())) }, func(h *gen.Expr) *gen.Expr { return gen.Chain(h, gen.StStar()) },
		func(h *gen.Expr) *gen.Expr { return gen.Pipe(h, gen.Chain(nil, gen.StIndex(-1))) }, func(h *gen.Expr) *gen.Expr { return gen.Func("length", h) },
		func(h *gen.Expr) *gen.Expr { return gen.Chain(h, gen.StSliceS("", "2", "")) }, func(h *gen.Expr) *gen.Expr { return gen.Chain(h, gen.StSliceS("-2", "", "")) },
		func(h *gen.Expr) *gen.Expr { return gen.Chain(h, gen.StSliceS("", "", "-1"), gen.StIndex(0)) }, func(h *gen.Expr) *gen.Expr { return gen.Chain(h, gen.StField("n")) },
		func(h *gen.Expr) *gen.Expr {
			return gen.MultiList(gen.Chain(h, gen.StIndex(0)), gen.Chain(h, gen.StIndex(-1)))
		}, func(h *gen.Expr) *gen.Expr { return gen.Func("max", h) },
		func(h *gen.Expr) *gen.Expr { return gen.Func("reverse", h) }, func(h *gen.Expr) *gen.Expr { return gen.Func("join", gen.Raw(","), h) },
		func(h *gen.Expr) *gen.Expr {
			return gen.Cmp("==", gen.Chain(h, gen.StIndex(-1)), gen.Chain(h, gen.StSliceS("", "", "-1"), gen.StIndex(0)))
		},
		// the same call at the head of every member of a multi-select (a multi-select on null is null - its members are not)
		func(h *gen.Expr) *gen.Expr {
			return gen.MultiList(gen.Chain(h, gen.StField("n")), gen.Chain(h, gen.StField("s")))
		},
		func(h *gen.Expr) *gen.Expr {
			return gen.MultiHash([]gen.Key{{Name: "x"}, {Name: "y"}}, []*gen.Expr{gen.Chain(h, gen.StField("n")), gen.Chain(h, gen.StIndex(0))})
		},
		func(h *gen.Expr) *gen.Expr {
			return gen.Func("length", gen.MultiList(gen.Chain(h, gen.StField("n")), gen.Chain(h, gen.StField("i")), gen.Chain(h, gen.StField("s"))))
		},
		func(h *gen.Expr) *gen.Expr { return gen.MultiList(h, h) },
	}
	behind := mon.Workload{Name: "substitution-under-a-selection", N: len(calls) * len(sel) * 2,
		Do: func(i int, t *mon.Tally) {
			E := calls[i/2/len(sel)]
			C := sel[i/2%len(sel)]
			t.Eval()
			oe := apiSearch(gen.Spell(E), mon.DeepCopy(cbase))
			if !oe.Panicked && oe.Err == nil {
				if shape := mon.JSONShape(oe.V); shape != "" && !strings.Contains(shape, "non-finite") {
					r.Violate(&mon.Violation{Workload: "substitution-under-a-selection", Index: i, API: "Search", Expr: gen.Spell(E), Doc: cbase, Expected: "a JSON value (which a literal can denote)", Observed: oe.String(), Detail: shape, Class: "sub-expression value that no literal denotes"})
					return
				}
			}
			if oe.Panicked || oe.Err != nil || mon.JSONClosed(oe.V) != "" {
				t.Count("law 2 (selection): the call has no JSON value to substitute, skipped")
				return
			}
			T1, T2 := C(E), C(gen.LitVal(oe.V))
			o1 := via(i, gen.Spell(T1), mon.DeepCopy(cbase))
			o2 := via(i, gen.Spell(T2), mon.DeepCopy(cbase))
			if o1.Panicked || o2.Panicked || !sameOutcome(o1, o2) {
				res := ref.RefSet(T1, cbase, gen.Quirks{})
				if !o1.Panicked && !o2.Panicked && (len(res.Outcomes) > 1 || res.Skipped != "" || res.DontCare) && agree(res, o1, o2) {
					t.Count("law 2 (selection): sides differ only in an allowed member order")
					return
				}
				r.Violate(&mon.Violation{Workload: "substitution-under-a-selection", Index: i, API: []string{"Search", "Compile+Search"}[i%2], Expr: gen.Spell(T1), Doc: cbase,
					Expected: "same as with the call " + gen.Spell(E) + " replaced by the literal of its value: " + clipStr(o2.String(), 600), Observed: clipStr(o1.String(), 600), Class: "substitution law (selection directly on a call)"})
				return
			}
			t.Nontrivial("sel:" + gen.Spell(T1))
			t.Count("law 2 (selection): sides agree")
		}}
	// law 1 over member names that are awkward to spell (dots next to the nested path they would mean, quotes,
	// backslashes, syntax look-alikes), with and without white space between the tokens: however a step is
	// recognised (parser, or a short cut for "plain paths"), composing steps and piping them agree
	akPipe := mon.Workload{Name: "pipes-over-awkward-keys", N: len(awkwardKeys) * 6 * 2,
		Do: func(i int, t *mon.Tally) {
			k := awkwardKeys[i/12]
			obj := awkwardDoc(k)
			doc := map[string]interface{}{"metadata": map[string]interface{}{"labels": obj}, "labels": obj, "o": map[string]interface{}{k: obj}}
			K := gen.StQField(k)
			var A, B *gen.Expr
			switch i / 2 % 6 {
			case 0:
				A, B = gen.Field("metadata"), gen.Chain(gen.Field("labels"), K)
			case 1:
				A, B = gen.Chain(gen.Field("metadata"), gen.StField("labels")), gen.QField(k)
			case 2:
				A, B = gen.Current(), gen.Chain(gen.Field("o"), K, K)
			case 3:
				A, B = gen.Chain(gen.Field("o"), K), gen.QField(k)
			case 4:
				A, B = gen.Field("o"), gen.Chain(gen.QField(k), K)
			default:
				A, B = gen.Chain(gen.Field("labels"), K), gen.Func("type", gen.Current())
			}
			spell := gen.Spell
			if i%2 == 1 {
				spell = gen.SpellTight
			}
			t.Eval()
			ow := via(i/2, spell(gen.Pipe(A, B)), mon.DeepCopy(doc))
			oa := apiSearch(spell(A), mon.DeepCopy(doc))
			ob := oa
			if !oa.Panicked && oa.Err == nil {
				ob = apiSearch(spell(B), oa.V)
			}
			oc := oa
			if !oa.Panicked && oa.Err == nil {
				oc = apiCompiledSearch(spell(B), oa.V)
			}
			if ow.Panicked || ob.Panicked || oc.Panicked || !sameOutcome(ow, ob) || !sameOutcome(ow, oc) {
				r.Violate(&mon.Violation{Workload: "pipes-over-awkward-keys", Index: i, API: "Search", Expr: spell(gen.Pipe(A, B)), Doc: doc,
					Expected: "Search(B, Search(A, d)) = " + ob.String() + " (one-shot) / " + oc.String() + " (compiled)   [A = " + spell(A) + " ; B = " + spell(B) + "]", Observed: "Search('A | B', d) = " + ow.String(), Class: "pipe law (awkward member names)"})
				return
			}
			t.Nontrivial("akp:" + spell(gen.Pipe(A, B)))
		}}
	// law 1 where the left side leaves the finite range (a sum of finite document numbers that overflows) and the
	// right side brings it back: each step on its own behaves like the step inside the pipe, value and error alike
	hugeDoc := docs.J(`{"big":[1e308,1e308],"neg":[-1e308,-1e308],"mixed":[1e308,1e308,-1e308,-1e308],"ok":[1,2]}`)
	hA := []string{"sum(big)", "avg(big)", "[sum(big), sum(neg)]", "sum(mixed)", "{s: sum(big)}", "big | sum(@)", "sum(ok)", "[big, neg][*].sum(@)", "max([sum(big), `1`])"}
	hB := []string{"@ > `0`", "type(@)", "@ == @", "[@][?@ > `0`] | length(@)", "not_null(@) && 'set'", "!@", "[0] > `0`", "s > `0`", "@ < `0` || 'no'", "length(to_array(@))"}
	hugew := mon.Workload{Name: "pipes-over-non-finite-intermediate-values", N: len(hA) * len(hB) * 2,
		Do: func(i int, t *mon.Tally) {
			A, B := hA[i/2/len(hB)], hB[i/2%len(hB)]
			t.Eval()
			ow := via(i, A+" | "+B, mon.DeepCopy(hugeDoc))
			oa := via(i/2, A, mon.DeepCopy(hugeDoc))
			ob := oa
			if !oa.Panicked && oa.Err == nil {
				ob = via(i, B, oa.V)
			}
			if ow.Panicked || ob.Panicked || !sameOutcome(ow, ob) {
				r.Violate(&mon.Violation{Workload: "pipes-over-non-finite-intermediate-values", Index: i, API: "Search", Expr: A + " | " + B, Doc: hugeDoc,
					Expected: "Search(B, Search(A, d)) = " + ob.String() + "   [Search(A, d) = " + oa.String() + "]", Observed: "Search('A | B', d) = " + ow.String(), Class: "pipe law (non-finite intermediate value)"})
				return
			}
			t.Nontrivial("huge:" + A + "|" + B)
		}}
	// law 1 with long chains on both sides: A and B are themselves chains of 1...64 piped stages (or dotted steps): the
	// pipe of two chains takes no longer than the two chains (the stall alarm is the monitor for time)
	stages := []int{1, 2, 8, 16, 20, 24, 32, 48, 64}
	lpw := mon.Workload{Name: "long-pipe-chains", N: len(stages) * len(stages) * 3, Batch: 4,
		Do: func(i int, t *mon.Tally) {
			na, nb := stages[i/3%len(stages)], stages[i/3/len(stages)]
			mk := func(n, kind int) string {
				parts := make([]string, n)
				for k := range parts {
					parts[k] = []string{"@", "k", "[0]"}[kind]
				}
				sep := " | "
				if kind == 1 && i%2 == 1 {
					sep = "."
				}
				return strings.Join(parts, sep)
			}
			kind := i % 3
			var doc interface{} = float64(1)
			for k := 0; k < 140; k++ {
				switch kind {
				case 1:
					doc = map[string]interface{}{"k": doc}
				case 2:
					doc = []interface{}{doc}
				}
			}
			A, B := mk(na, kind), mk(nb, kind)
			t.Eval()
			ow := via(i, A+" | "+B, doc)
			oa := via(i/2, A, doc)
			ob := oa
			if !oa.Panicked && oa.Err == nil {
				ob = via(i, B, oa.V)
			}
			if ow.Panicked || ob.Panicked || !sameOutcome(ow, ob) {
				r.Violate(&mon.Violation{Workload: "long-pipe-chains", Index: i, API: "Search", Expr: clipStr(A+" | "+B, 300), Expected: "Search(B, Search(A, d)) = " + clipStr(ob.String(), 200), Observed: "Search('A | B', d) = " + clipStr(ow.String(), 200), Class: "pipe law (long chains)"})
				return
			}
			t.Nontrivial(fmt.Sprint("lp:", i))
		}}
	// law 1 with a selection on both sides over lists of mixed kinds: the right side's condition (or projection
	// body) is ill-typed for elements the left side does not let through, so B only ever meets what A returned -
	// a pipe evaluated in one pass over the original list raises an error neither step raises (or hides one)
	het := func() *gen.Expr { return gen.Field("xs") }
	v, tags := func() *gen.Expr { return gen.Field("v") }, func() *gen.Expr { return gen.Field("tags") }
	c1s := []*gen.Expr{
		gen.Cmp("==", gen.Func("type", v()), gen.Raw("number")), gen.Cmp("==", gen.Func("type", v()), gen.Raw("string")), tags(), gen.Cmp(">", v(), gen.LitJSON("0")), gen.Cmp("==", gen.Func("type", tags()), gen.Raw("array")),
		gen.Not(gen.Cmp("==", gen.Func("type", v()), gen.Raw("null"))), gen.And(tags(), gen.Cmp("==", gen.Func("type", v()), gen.Raw("number"))), gen.Cmp("==", gen.Func("type", gen.Current()), gen.Raw("object")),
	}
	c2s := []*gen.Expr{
		gen.Cmp(">", gen.Func("abs", v()), gen.LitJSON("4")), gen.Cmp(">", gen.Func("length", tags()), gen.LitJSON("1")), gen.Func("starts_with", v(), gen.Raw("s")), gen.Cmp(">", gen.Func("length", v()), gen.LitJSON("0")),
		gen.Func("contains", tags(), gen.Raw("a")), gen.Cmp("==", gen.Func("ceil", v()), v()), gen.Cmp("!=", gen.Func("join", gen.Raw(""), tags()), gen.Raw("")), gen.Func("keys", gen.Current()),
	}
	var fA, fB []*gen.Expr
	for _, c := range c1s {
		fA = append(fA, gen.Chain(het(), gen.StFilter(c)), gen.Chain(nil, gen.StFilter(c)))
	}
	fA = append(fA, gen.Chain(het(), gen.StListStar()), gen.Chain(het(), gen.StSliceS("", "2", "")), gen.Chain(het(), gen.StFilter(c1s[0]), gen.StMultiHash([]gen.Key{{Name: "v"}, {Name: "tags"}}, []*gen.Expr{v(), tags()})),
		gen.Func("sort_by", gen.Chain(het(), gen.StFilter(c1s[0])), gen.ExpRef(v())), gen.Chain(het(), gen.StFilter(c1s[2]), gen.StField("tags")), gen.Chain(het(), gen.StFlatten()))
	for _, c := range c2s {
		fB = append(fB, gen.Chain(nil, gen.StFilter(c)), gen.Chain(nil, gen.StFilter(c), gen.StField("v")), gen.Pipe(gen.Chain(nil, gen.StFilter(c)), gen.Chain(nil, gen.StIndex(0))), gen.Chain(nil, gen.StListStar(), gen.StMultiList(c)),
			gen.Func("map", gen.ExpRef(c), gen.Current()), gen.Func("length", gen.Chain(nil, gen.StFilter(c))))
	}
	mkEl := func(vv interface{}, tg interface{}) interface{} {
		m := map[string]interface{}{"v": vv}
		if tg != nil {
			m["tags"] = tg
		}
		return m
	}
	hetLists := [][]interface{}{
		{mkEl(float64(1), []interface{}{"a", "b"}), mkEl("s", nil), mkEl(nil, nil), mkEl([]interface{}{float64(1)}, []interface{}{}), mkEl(float64(7), []interface{}{"a"}), mkEl(float64(-9), "not a list")},
		{mkEl("str", []interface{}{"x"}), mkEl(float64(5), []interface{}{"a", "b", "c"}), mkEl(float64(2.5), nil)},
		{mkEl(float64(6), []interface{}{"a", "a"}), mkEl(float64(8), []interface{}{"b", "c"})},
		{mkEl("s1", nil), mkEl("t2", nil), "bare string", float64(3), nil, []interface{}{mkEl(float64(1), nil)}},
		{},
	}
	var fDocs []interface{}
	for _, l := range hetLists {
		fDocs = append(fDocs, map[string]interface{}{"xs": l}, interface{}(l))
	}
	ff := mon.Workload{Name: "selections-piped-into-selections-over-mixed-lists", N: len(fA) * len(fB) * len(fDocs), Batch: 1000,
		Describe: func(i int) string {
			return gen.Spell(gen.Pipe(fA[i/(len(fB)*len(fDocs))], fB[(i/len(fDocs))%len(fB)])) + " on " + ref.Canon(fDocs[i%len(fDocs)])
		},
		Do: func(i int, t *mon.Tally) {
			A, B, doc := fA[i/(len(fB)*len(fDocs))], fB[(i/len(fDocs))%len(fB)], fDocs[i%len(fDocs)]
			t.Eval()
			whole := gen.Pipe(A, B)
			wexpr := gen.Spell(whole)
			if i%4 >= 2 {
				wexpr = gen.SpellTight(whole)
			}
			ow := via(i, wexpr, mon.DeepCopy(doc))
			oa := apiSearch(gen.Spell(A), mon.DeepCopy(doc))
			ob := oa
			if !oa.Panicked && oa.Err == nil {
				ob = apiSearch(gen.Spell(B), oa.V)
			}
			if ow.Panicked || ob.Panicked {
				r.Violate(&mon.Violation{Workload: "selections-piped-into-selections-over-mixed-lists", Index: i, API: "Search", Expr: wexpr, Doc: doc, Expected: "no panic", Observed: ow.String() + " / " + ob.String(), Class: "panic"})
				return
			}
			if !sameOutcome(ow, ob) {
				res := ref.RefSet(whole, doc, gen.Quirks{})
				if (len(res.Outcomes) > 1 || res.Skipped != "" || res.DontCare) && agree(res, ow, ob) {
					return
				}
				r.Violate(&mon.Violation{Workload: "selections-piped-into-selections-over-mixed-lists", Index: i, API: "Search", Expr: wexpr, Doc: doc,
					Expected: "Search(B, Search(A, d)) = " + ob.String() + "   [A = " + gen.Spell(A) + " ; B = " + gen.Spell(B) + " ; Search(A, d) = " + oa.String() + "]",
					Observed: "Search('A | B', d) = " + ow.String(), Class: "pipe law (selection | selection over a list of mixed kinds)"})
				return
			}
			t.NontrivialDistinct(1)
			if ob.Err != nil {
				t.Count("mixed lists: a step errors, the pipe must error")
			} else {
				t.Count("mixed lists: both steps succeed, the pipe must give B's value")
			}
		}}
	// law 2 next to readers of the same members: E is a call that might work in place on what another construct hands back from
	// the document (sort_by / sort / reverse / merge over to_array, not_null, ||, a parenthesis, an index into a multi-select, max_by ...);
	// its siblings read the members E was fed from. With E replaced by the literal of its value nothing can have been touched, so
	// the two sides differ exactly when evaluating E changed what the siblings see
	hbBase := c06BaseDoc()
	hbs := c06HandBacks(false)
	// flattens and projections that start from a list of the document (whatever reuses the first inner list, or hands an uncopied
	// list on, shows when two of them meet in one evaluation), arithmetic over a list another function has just sorted
	{
		f, ch := gen.Field, gen.Chain
		hbs = append(hbs, ch(gen.MultiList(ch(f("aa"), gen.StIndex(0)), f("an")), gen.StFlatten()), ch(f("aa"), gen.StFlatten()), ch(gen.MultiList(ch(f("aa"), gen.StIndex(1)), f("as"), ch(f("aa"), gen.StIndex(0))), gen.StFlatten()),
			ch(gen.MultiList(f("an"), f("an")), gen.StFlatten()), ch(f("aa"), gen.StListStar()), ch(f("an"), gen.StListStar()), ch(gen.MultiList(f("an")), gen.StFlatten()), ch(f("ao"), gen.StListStar(), gen.StField("an"), gen.StFlatten()),
			gen.Func("sort", f("bign")), gen.Func("sort", f("an")), gen.Func("sum", f("bign")), gen.Func("avg", f("an")), gen.Func("max", f("bign")), gen.Func("sort", f("as")), gen.Func("join", gen.Raw(","), f("as")), gen.Func("sort", f("cancel")), gen.Func("sum", f("cancel")), gen.Func("reverse", gen.Func("sort", f("cancel"))))
	}
	hbBase["cancel"] = []interface{}{float64(1e16), float64(-1e16), float64(1), float64(3), float64(-7)}
	readers := func() []*gen.Expr {
		return []*gen.Expr{gen.Field("an"), gen.Field("as"), gen.Field("ao"), gen.Field("o"), gen.Field("bign"), gen.Chain(gen.Field("ao"), gen.StIndex(0), gen.StField("s")),
			gen.Chain(gen.Field("aa"), gen.StFlatten()), gen.Chain(gen.MultiList(gen.Chain(gen.Field("aa"), gen.StIndex(0)), gen.Field("as")), gen.StFlatten()), gen.Func("sum", gen.Field("cancel")), gen.Func("sum", gen.Field("bign")), gen.Func("avg", gen.Field("an")), gen.Func("join", gen.Raw(""), gen.Field("as"))}
	}
	hbCtx := []func(e *gen.Expr) *gen.Expr{
		func(e *gen.Expr) *gen.Expr { return gen.MultiList(append([]*gen.Expr{e}, readers()...)...) },
		func(e *gen.Expr) *gen.Expr {
			return gen.MultiList(append(append(readers()[6:], e), readers()[6:]...)...)
		},
		func(e *gen.Expr) *gen.Expr {
			return gen.MultiHash([]gen.Key{{Name: "e"}, {Name: "a"}, {Name: "s"}, {Name: "x"}, {Name: "o"}}, []*gen.Expr{e, gen.Field("an"), gen.Field("as"), gen.Field("ao"), gen.Field("o")})
		},
		func(e *gen.Expr) *gen.Expr { return gen.MultiList(e, gen.Clone(e), gen.Field("an"), gen.Field("as")) },
		func(e *gen.Expr) *gen.Expr {
			return gen.Pipe(gen.MultiList(e, gen.Current()), gen.Chain(nil, gen.StIndex(1)))
		},
		func(e *gen.Expr) *gen.Expr {
			return gen.Func("not_null", gen.Chain(gen.MultiList(e), gen.StIndex(5)), gen.MultiList(readers()...))
		},
	}
	hbw := mon.Workload{Name: "substitution-next-to-readers-of-the-same-members", N: len(hbs) * len(hbCtx), Batch: 200,
		Do: func(i int, t *mon.Tally) {
			E, C := hbs[i/len(hbCtx)], hbCtx[i%len(hbCtx)]
			t.Eval()
			oe := apiSearch(gen.Spell(E), mon.DeepCopy(hbBase))
			if oe.Panicked || oe.Err != nil || mon.JSONClosed(oe.V) != "" {
				t.Count("law 2 next to readers: E has no substitutable value, skipped")
				return
			}
			T1, T2 := C(gen.Clone(E)), C(gen.LitVal(oe.V))
			o1 := via(i, gen.Spell(T1), withSpare(hbBase)) // (every list with spare capacity, as a decoder leaves them)
			o2 := via(i, gen.Spell(T2), withSpare(hbBase))
			if o1.Panicked || o2.Panicked || !sameOutcome(o1, o2) {
				r.Violate(&mon.Violation{Workload: "substitution-next-to-readers-of-the-same-members", Index: i, API: "Search", Expr: gen.Spell(T1), Doc: hbBase,
					Expected: "same as with the sub-expression " + gen.Spell(E) + " replaced by the literal of its value: " + clipStr(o2.String(), 600), Observed: clipStr(o1.String(), 600), Class: "substitution law next to readers of the same members"})
				return
			}
			t.Nontrivial("hb:" + strconv.Itoa(i))
		}}
	// the pipe law for steps that are deeply nested: a limit on nesting, a depth counter or a recursion budget counts a step the
	// same whether it stands alone or behind a pipe - every depth next to a round number or a power of two
	var deepD []int
	for _, c := range []int{16, 32, 50, 64, 100, 128, 200, 250, 255, 256, 500, 512, 1000, 1024, 2000, 2048, 4096, 5000, 8192, 10000} {
		deepD = append(deepD, c-2, c-1, c, c+1, c+2)
	}
	nestKinds := []struct{ pre, core, suf string }{{"(", "[0]", ")"}, {"(", "b", ")"}, {"[", "@", "]"}, {"!", "b", ""}, {"{k:", "b", "}"}, {"not_null(", "b", ")"}, {"(", "@", ")[0]"}}
	dpw := mon.Workload{Name: "pipe-law-for-deeply-nested-steps", N: len(deepD) * len(nestKinds) * 3, Batch: 20,
		Do: func(i int, t *mon.Tally) {
			d, nk, side := deepD[i/3/len(nestKinds)], nestKinds[i/3%len(nestKinds)], i%3
			deep := strings.Repeat(nk.pre, d) + nk.core + strings.Repeat(nk.suf, d)
			A, B := "a", deep
			switch side {
			case 1:
				A, B = deep, "[0]"
			case 2:
				A, B = deep, deep
			}
			doc := docs.J(`{"a":[{"b":[1,2]},2],"b":[[3],4]}`)
			t.Eval()
			ow := apiSearch(A+" | "+B, mon.DeepCopy(doc))
			oa := apiSearch(A, mon.DeepCopy(doc))
			ob := oa
			if !oa.Panicked && oa.Err == nil {
				ob = apiSearch(B, oa.V)
			}
			if ow.Panicked || ob.Panicked || !sameOutcome(ow, ob) {
				r.Violate(&mon.Violation{Workload: "pipe-law-for-deeply-nested-steps", Index: i, API: "Search", Expr: brief(A + " | " + B), Doc: doc,
					Expected: fmt.Sprintf("Search(B, Search(A, d)) with a step nested %d deep: %s", d, brief(ob.String())), Observed: brief(ow.String()), Class: "pipe law for deeply nested steps"})
				return
			}
			t.Nontrivial("dp:" + strconv.Itoa(i))
		}}
	// the pipe law over large lists: a budget, a counter or a buffer that one Search keeps is not shared by the two steps of a pipe in
	// a way that makes the whole fail where each step succeeds (100 000 to 600 000 elements, projections on both sides)
	bigN := []int{100000, 300000, 400000, 600000}
	bigPairs := [][2]string{{"a[*]", "[*]"}, {"a[*].n", "[?@ > `0`]"}, {"a[?n > `0`]", "[*].n"}, {"a[*].n", "length(@)"}, {"a[].n", "[*] | length(@)"}, {"a", "[*].n | [-1]"}, {"a[*]", "[*].n | sum(@)"}}
	blw := mon.Workload{Name: "pipe-law-over-large-lists", N: len(bigN) * len(bigPairs), Serial: true, Batch: 1,
		Do: func(i int, t *mon.Tally) {
			n, pr := bigN[i/len(bigPairs)], bigPairs[i%len(bigPairs)]
			arr := make([]interface{}, n)
			for k := range arr {
				arr[k] = map[string]interface{}{"n": float64(k%7 + 1)}
			}
			doc := map[string]interface{}{"a": arr}
			t.Eval()
			ow := apiSearch(pr[0]+" | "+pr[1], doc)
			oa := apiSearch(pr[0], doc)
			ob := oa
			if !oa.Panicked && oa.Err == nil {
				ob = apiSearch(pr[1], oa.V)
			}
			if ow.Panicked || ob.Panicked || !sameOutcome(ow, ob) {
				r.Violate(&mon.Violation{Workload: "pipe-law-over-large-lists", Index: i, API: "Search", Expr: pr[0] + " | " + pr[1], DocDesc: fmt.Sprintf("{\"a\": a list of %d objects {\"n\": 1..7}}", n),
					Expected: "Search(B, Search(A, d)): " + brief(ob.String()), Observed: brief(ow.String()), Class: "pipe law over large lists"})
				return
			}
			t.Nontrivial("big:" + strconv.Itoa(i))
		}}
	r.Exec(law1, law2, shaped, dead, behind, akPipe, hugew, lpw, ff, hbw, dpw, blw)
}
