package main

import (
	"fmt"
	"strings"

	"verifharness/docs"
	"verifharness/gen"
	"verifharness/mon"
	"verifharness/ref"
)

// C10 — ill-typed, wrong-arity and unknown function calls are errors, never panics.

func init() { register("C10", c10) }

// argument universe: JSON text, or an expression reference
type c10Arg struct {
	json   string
	expref *gen.Expr
	ty     string
}

var c10Args = []c10Arg{
	{json: `null`, ty: "null"}, {json: `true`, ty: "boolean"}, {json: `1`, ty: "number"}, {json: `"a"`, ty: "string"},
	{json: `[1,2]`, ty: "array[number]"}, {json: `["a","b"]`, ty: "array[string]"}, {json: `[1,"a"]`, ty: "array(mixed)"}, {json: `[]`, ty: "array(empty)"},
	{json: `[[1]]`, ty: "array(nested)"}, {json: `{"a":1}`, ty: "object"}, {json: `{}`, ty: "object(empty)"}, {json: `[{"a":1},{"a":2}]`, ty: "array[object]"},
	{expref: gen.Field("a"), ty: "&a"}, {expref: gen.Current(), ty: "&@"},
}

func c10Names() []string {
	return append(ref.FunctionNames(), "foo", "Abs", "length2", "amp")
}

func c10(r *mon.Run) {
	r.Rule = "exhaustive: (26 built-in names + foo, Abs, length2, amp) x argument counts 0..3 (0..4 in thorough; quick covers arity 4 for the variadic functions and 3 fixed-arity representatives) x every argument tuple over a 14-value universe (null, boolean, number, string, array[number], array[string], mixed / empty / nested array, object, empty object, array of objects, &a, &@), arguments written as literals and read from the document; " +
		"by-expression functions x arrays of length 0..3 whose keys are number / string / null / array / object / boolean / missing in every combination; seeded random nestings of ill-typed calls. Oracle: ref.CheckArgs (signature table) + model. Non-trivial = distinct (function, arity, type tuple) that the table rejects."
	r.Exhaustive = true
	r.Floor = 2000
	r.Assumptions = []string{"the signature table ref.Signatures is the JMESPath function specification; an expression reference passed where `any` is declared is left open (only 'no panic' is required there)"}
	names := c10Names()
	A := len(c10Args)
	// arity blocks
	type block struct {
		names []string
		arity int
		start int
	}
	var blocks []block
	total := 0
	pow := func(k int) int {
		p := 1
		for i := 0; i < k; i++ {
			p *= A
		}
		return p
	}
	for ar := 0; ar <= 3; ar++ {
		blocks = append(blocks, block{names, ar, total})
		total += len(names) * pow(ar)
	}
	ar4 := []string{"merge", "not_null", "abs", "contains", "sort_by", "foo"}
	if r.Tier == "thorough" {
		ar4 = names
	}
	blocks = append(blocks, block{ar4, 4, total})
	total += len(ar4) * pow(4)
	decode := func(i int) (string, []int) {
		k := len(blocks) - 1
		for blocks[k].start > i {
			k--
		}
		b := blocks[k]
		o := i - b.start
		p := pow(b.arity)
		name := b.names[o/p]
		o %= p
		idx := make([]int, b.arity)
		for j := b.arity - 1; j >= 0; j-- {
			idx[j] = o % A
			o /= A
		}
		return name, idx
	}
	build := func(name string, idx []int, fromDoc bool) (*gen.Expr, interface{}) {
		doc := map[string]interface{}{"a": float64(7)}
		args := make([]*gen.Expr, len(idx))
		for j, k := range idx {
			a := c10Args[k]
			switch {
			case a.expref != nil:
				args[j] = gen.ExpRef(a.expref)
			case fromDoc:
				key := "p" + string(rune('0'+j))
				doc[key] = docs.J(a.json)
				args[j] = gen.Field(key)
			default:
				args[j] = gen.LitJSON(a.json)
			}
		}
		return gen.Func(name, args...), doc
	}
	exh := mon.Workload{Name: "signature-matrix", N: total * 2, Batch: 4000,
		Describe: func(i int) string {
			name, idx := decode(i / 2)
			tree, doc := build(name, idx, i%2 == 1)
			return gen.Spell(tree) + " on " + ref.Canon(doc)
		},
		Do: func(i int, t *mon.Tally) {
			name, idx := decode(i / 2)
			tree, doc := build(name, idx, i%2 == 1)
			expr := gen.SpellTight(tree)
			cx := &caseCtx{r, t, "signature-matrix", i}
			res, _, _ := cx.runOne(tree, expr, doc)
			tys := make([]string, len(idx))
			for j, k := range idx {
				tys[j] = c10Args[k].ty
			}
			if isErr(res) {
				t.Count("model: rejected (" + string(res.Outcomes[0].Err) + ")")
				t.Nontrivial(name + "(" + strings.Join(tys, ",") + ")")
				t.Set("functions with rejected tuples", name)
			} else if res.DontCare {
				t.Count("model: left open by the specification")
			} else {
				t.Count("model: accepted")
				t.Set("functions with accepted tuples", name)
			}
			if i%30011 == 0 {
				t.Sample(map[string]interface{}{"expression": expr, "document": doc, "expected": expectedString(res)})
			}
		}}
	// by-expression key validation
	keyVals := []string{`1`, `2`, `0`, `"a"`, `"b"`, `""`, `null`, `[1]`, `{"x":1}`, `true`, ``} // `` = key missing; 0 and "" are the extremal keys a scan could stop at
	byFns := []string{"sort_by", "max_by", "min_by"}
	K := len(keyVals)
	nby := len(byFns) * (1 + K + K*K + K*K*K) * 2
	byAt := func(i int) (*gen.Expr, interface{}) {
		lit := i%2 == 0
		i /= 2
		per := 1 + K + K*K + K*K*K
		fn := byFns[i/per]
		o := i % per
		ln := 0
		for blk := 1; o >= blk; ln++ {
			o -= blk
			blk *= K
		}
		arr := make([]interface{}, ln)
		for j := ln - 1; j >= 0; j-- {
			kv := keyVals[o%K]
			o /= K
			el := map[string]interface{}{"i": float64(j)}
			if kv != "" {
				el["k"] = docs.J(kv)
			}
			arr[j] = el
		}
		if lit {
			return gen.Func(fn, gen.LitVal(arr), gen.ExpRef(gen.Field("k"))), nil
		}
		return gen.Func(fn, gen.Field("arr"), gen.ExpRef(gen.Field("k"))), map[string]interface{}{"arr": arr}
	}
	by := mon.Workload{Name: "by-expression-keys", N: nby,
		Describe: func(i int) string { tr, d := byAt(i); return gen.Spell(tr) + " on " + ref.Canon(d) },
		Do: func(i int, t *mon.Tally) {
			tree, doc := byAt(i)
			expr := gen.SpellTight(tree)
			cx := &caseCtx{r, t, "by-expression-keys", i}
			res, _, _ := cx.runBoth(tree, expr, doc)
			if isErr(res) {
				t.Count("by-expression: inconsistent or non-number/string keys (error expected)")
				t.Nontrivial("by:" + expr + ref.Canon(doc))
			} else {
				t.Count("by-expression: consistent keys (value expected)")
			}
		}}
	nr := tierPick(r, 40000, 1000000)
	rnd := mon.Workload{Name: "ill-typed-nested", N: nr,
		Do: func(i int, t *mon.Tally) {
			rng := gen.DeriveN(r.Seed, "c10rand", i)
			g := gen.NewTreeGen(rng)
			g.MaxDepth = 2 + rng.Intn(3)
			g.IllTyped = 2
			tree := g.Expr(0, gen.WAny)
			dg := docs.NewRand(rng)
			doc := dg.TypedDoc(0)
			expr := gen.Spell(tree)
			cx := &caseCtx{r, t, "ill-typed-nested", i}
			res, _, _ := cx.runBoth(tree, expr, doc)
			if isErr(res) {
				t.Count("nested: error expected")
				t.Nontrivial("n:" + expr + ref.Canon(doc))
			}
		}}
	// more than four arguments: 5..9 for every name (variadic functions accept them only if every one is well-typed)
	many := mon.Workload{Name: "many-arguments", N: len(names) * 5 * 3,
		Do: func(i int, t *mon.Tally) {
			name := names[i/15]
			k := 5 + (i/3)%5
			kind := i % 3
			args := make([]*gen.Expr, k)
			for j := range args {
				switch kind {
				case 0:
					args[j] = gen.LitJSON(`{"a":1}`)
				case 1:
					args[j] = gen.LitJSON(`null`)
				default:
					args[j] = gen.LitJSON(`{"a":1}`)
					if j == k-1 || j == k/2 {
						args[j] = gen.LitJSON(`"x"`) // one ill-typed argument late in the list
					}
				}
			}
			tree := gen.Func(name, args...)
			cx := &caseCtx{r, t, "many-arguments", i}
			res, _, _ := cx.runBoth(tree, gen.SpellTight(tree), map[string]interface{}{})
			if isErr(res) {
				t.Nontrivial(fmt.Sprint("many:", name, k, kind))
			}
		}}
	r.Exec(exh, by, many, rnd, sizedWorkload(r, "sized-arrays-ill-typed", true))
}
