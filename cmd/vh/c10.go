package main

import (
	"encoding/json"
	"fmt"
	"reflect"
	"strconv"
	"strings"

	"verifharness/docs"
	"verifharness/gen"
	"verifharness/mon"
	"verifharness/ref"
)

// C10 — ill-typed, wrong-arity and unknown function calls are errors, never panics.

func init() { register("C10", c10) }

// argument universe: JSON text, or an expression reference
type c10Arg struct {
	json   string
	expref *gen.Expr
	ty     string
}

var c10Args = []c10Arg{
	{json: `null`, ty: "null"}, {json: `true`, ty: "boolean"}, {json: `1`, ty: "number"}, {json: `"a"`, ty: "string"},
	{json: `[1,2]`, ty: "array[number]"}, {json: `["a","b"]`, ty: "array[string]"}, {json: `[1,"a"]`, ty: "array(mixed)"}, {json: `[]`, ty: "array(empty)"},
	{json: `[[1]]`, ty: "array(nested)"}, {json: `{"a":1}`, ty: "object"}, {json: `{}`, ty: "object(empty)"}, {json: `[{"a":1},{"a":2}]`, ty: "array[object]"},
	{expref: gen.Field("a"), ty: "&a"}, {expref: gen.Current(), ty: "&@"},
}

func c10Names() []string {
	return append(ref.FunctionNames(), "foo", "Abs", "length2", "amp")
}

func c10(r *mon.Run) {
	var edgeResults mon.Workload
	r.Rule = "exhaustive: (26 built-in names + foo, Abs, length2, amp) x argument counts 0..3 (0..4 in thorough; quick covers arity 4 for the variadic functions and 3 fixed-arity representatives) x every argument tuple over a 14-value universe (null, boolean, number, string, array[number], array[string], mixed / empty / nested array, object, empty object, array of objects, &a, &@), arguments written as literals and read from the document; " +
		"by-expression functions x arrays of length 0..3 whose keys are number / string / null / array / object / boolean / missing in every combination; seeded random nestings of ill-typed calls; the ill-typed half of the sized-array cases (by-expression keys inconsistent at one position of 1...1000 elements); 23 Go values that are not the JSON representation (int, uint8, float32, json.Number, named types, pointers, structs, typed maps, []interface{} holding such values, complex, func, chan, nil *struct, [2]int) in every parameter position of every function, direct and per element of a projection: an error where the position declares a type, never a panic; expression references with 19 kinds of body (paths, calls, multi-selects, operators, literals, projections, a failing call) in every parameter position. Oracle: ref.CheckArgs (signature table) + model. Non-trivial = distinct (function, arity, type tuple) that the table rejects."
	r.Exhaustive = true
	r.Floor = 2000
	r.Assumptions = []string{"the signature table ref.Signatures is the JMESPath function specification; an expression reference passed where `any` is declared is left open (only 'no panic' is required there)"}
	names := c10Names()
	A := len(c10Args)
	// arity blocks
	type block struct {
		names []string
		arity int
		start int
	}
	var blocks []block
	total := 0
	pow := func(k int) int {
		p := 1
		for i := 0; i < k; i++ {
			p *= A
		}
		return p
	}
	for ar := 0; ar <= 3; ar++ {
		blocks = append(blocks, block{names, ar, total})
		total += len(names) * pow(ar)
	}
	ar4 := []string{"merge", "not_null", "abs", "contains", "sort_by", "foo"}
	if r.Tier == "thorough" {
		ar4 = names
	}
	blocks = append(blocks, block{ar4, 4, total})
	total += len(ar4) * pow(4)
	decode := func(i int) (string, []int) {
		k := len(blocks) - 1
		for blocks[k].start > i {
			k--
		}
		b := blocks[k]
		o := i - b.start
		p := pow(b.arity)
		name := b.names[o/p]
		o %= p
		idx := make([]int, b.arity)
		for j := b.arity - 1; j >= 0; j-- {
			idx[j] = o % A
			o /= A
		}
		return name, idx
	}
	build := func(name string, idx []int, fromDoc bool) (*gen.Expr, interface{}) {
		doc := map[string]interface{}{"a": float64(7)}
		args := make([]*gen.Expr, len(idx))
		for j, k := range idx {
			a := c10Args[k]
			switch {
			case a.expref != nil:
				args[j] = gen.ExpRef(a.expref)
			case fromDoc:
				key := "p" + string(rune('0'+j))
				doc[key] = docs.J(a.json)
				args[j] = gen.Field(key)
			default:
				args[j] = gen.LitJSON(a.json)
			}
		}
		return gen.Func(name, args...), doc
	}
	exh := mon.Workload{Name: "signature-matrix", N: total * 2, Batch: 4000,
		Describe: func(i int) string {
			name, idx := decode(i / 2)
			tree, doc := build(name, idx, i%2 == 1)
			return gen.Spell(tree) + " on " + ref.Canon(doc)
		},
		Do: func(i int, t *mon.Tally) {
			name, idx := decode(i / 2)
			tree, doc := build(name, idx, i%2 == 1)
			expr := gen.SpellTight(tree)
			cx := &caseCtx{r, t, "signature-matrix", i}
			res, _, _ := cx.runOne(tree, expr, doc)
			tys := make([]string, len(idx))
			for j, k := range idx {
				tys[j] = c10Args[k].ty
			}
			if isErr(res) {
				t.Count("model: rejected (" + string(res.Outcomes[0].Err) + ")")
				t.Nontrivial(name + "(" + strings.Join(tys, ",") + ")")
				t.Set("functions with rejected tuples", name)
			} else if res.DontCare {
				t.Count("model: left open by the specification")
			} else {
				t.Count("model: accepted")
				t.Set("functions with accepted tuples", name)
			}
			if i%30011 == 0 {
				t.Sample(map[string]interface{}{"expression": expr, "document": doc, "expected": expectedString(res)})
			}
		}}
	// by-expression key validation
	keyVals := []string{`1`, `2`, `0`, `"a"`, `"b"`, `""`, `null`, `[1]`, `{"x":1}`, `true`, ``, `"20"`, `"-0.5"`} // `` = key missing; 0 and "" are the extremal keys a scan could stop at
	byFns := []string{"sort_by", "max_by", "min_by"}
	K := len(keyVals)
	nby := len(byFns) * (1 + K + K*K + K*K*K) * 2
	byAt := func(i int) (*gen.Expr, interface{}) {
		lit := i%2 == 0
		i /= 2
		per := 1 + K + K*K + K*K*K
		fn := byFns[i/per]
		o := i % per
		ln := 0
		for blk := 1; o >= blk; ln++ {
			o -= blk
			blk *= K
		}
		arr := make([]interface{}, ln)
		for j := ln - 1; j >= 0; j-- {
			kv := keyVals[o%K]
			o /= K
			el := map[string]interface{}{"i": float64(j)}
			if kv != "" {
				el["k"] = docs.J(kv)
			}
			arr[j] = el
		}
		if lit {
			return gen.Func(fn, gen.LitVal(arr), gen.ExpRef(gen.Field("k"))), nil
		}
		return gen.Func(fn, gen.Field("arr"), gen.ExpRef(gen.Field("k"))), map[string]interface{}{"arr": arr}
	}
	by := mon.Workload{Name: "by-expression-keys", N: nby,
		Describe: func(i int) string { tr, d := byAt(i); return gen.Spell(tr) + " on " + ref.Canon(d) },
		Do: func(i int, t *mon.Tally) {
			tree, doc := byAt(i)
			expr := gen.SpellTight(tree)
			cx := &caseCtx{r, t, "by-expression-keys", i}
			res, _, _ := cx.runBoth(tree, expr, doc)
			if isErr(res) {
				t.Count("by-expression: inconsistent or non-number/string keys (error expected)")
				t.Nontrivial("by:" + expr + ref.Canon(doc))
			} else {
				t.Count("by-expression: consistent keys (value expected)")
			}
		}}
	nr := tierPick(r, 40000, 1000000)
	rnd := mon.Workload{Name: "ill-typed-nested", N: nr,
		Do: func(i int, t *mon.Tally) {
			rng := gen.DeriveN(r.Seed, "c10rand", i)
			g := gen.NewTreeGen(rng)
			g.MaxDepth = 2 + rng.Intn(3)
			g.IllTyped = 2
			tree := g.Expr(0, gen.WAny)
			dg := docs.NewRand(rng)
			doc := dg.TypedDoc(0)
			expr := gen.Spell(tree)
			cx := &caseCtx{r, t, "ill-typed-nested", i}
			res, _, _ := cx.runBoth(tree, expr, doc)
			if isErr(res) {
				t.Count("nested: error expected")
				t.Nontrivial("n:" + expr + ref.Canon(doc))
			}
		}}
	// more than four arguments: 5..9 for every name (variadic functions accept them only if every one is well-typed)
	many := mon.Workload{Name: "many-arguments", N: len(names) * 5 * 3,
		Do: func(i int, t *mon.Tally) {
			name := names[i/15]
			k := 5 + (i/3)%5
			kind := i % 3
			args := make([]*gen.Expr, k)
			for j := range args {
				switch kind {
				case 0:
					args[j] = gen.LitJSON(`{"a":1}`)
				case 1:
					args[j] = gen.LitJSON(`null`)
				default:
					args[j] = gen.LitJSON(`{"a":1}`)
					if j == k-1 || j == k/2 {
						args[j] = gen.LitJSON(`"x"`) // one ill-typed argument late in the list
					}
				}
			}
			tree := gen.Func(name, args...)
			cx := &caseCtx{r, t, "many-arguments", i}
			res, _, _ := cx.runBoth(tree, gen.SpellTight(tree), map[string]interface{}{})
			if isErr(res) {
				t.Nontrivial(fmt.Sprint("many:", name, k, kind))
			}
		}}
	// Go values that are not the JSON representation (what reaches a function from hand-built maps, struct
	// fields, Decoder.UseNumber): in a position with a declared type they are ill-typed like any other
	// non-member of that type — an error, and the error path itself must cope with them
	type T struct{ A int }
	f, str, bl := 2.5, "p", true
	exotics := []struct {
		name string
		v    interface{}
	}{
		{"int", int(3)}, {"int64", int64(-4)}, {"uint8", uint8(7)}, {"float32", float32(1.5)}, {"json.Number", json.Number("12")}, {"named float", docs.Num(1)}, {"named string", docs.Str("a")},
		{"*float64", &f}, {"*string", &str}, {"*bool", &bl}, {"struct", T{1}}, {"*struct", &T{2}}, {"map[string]int", map[string]int{"a": 1}}, {"map[string]string", map[string]string{"a": "b"}},
		{"[]interface{} holding an int", []interface{}{float64(1), int(2)}}, {"[]interface{} holding a *string", []interface{}{"a", &str}}, {"[]interface{} holding a struct", []interface{}{T{3}}},
		{"complex128", complex(1, 2)}, {"[]byte", []byte("ab")}, {"func", func() {}}, {"chan", make(chan int)}, {"nil *struct", (*T)(nil)}, {"[2]int array", [2]int{1, 2}},
	}
	type njc struct {
		fn  string
		pos int
		n   int
	}
	var njs []njc
	for _, name := range ref.FunctionNames() {
		sg := ref.Signatures[name]
		np := len(sg.Params)
		for p := 0; p < np; p++ {
			njs = append(njs, njc{name, p, np})
		}
		if sg.Variadic {
			njs = append(njs, njc{name, np, np + 1}, njc{name, np + 1, np + 2})
		}
	}
	valid := func(types []string) *gen.Expr {
		switch types[0] {
		case "number":
			return gen.Field("n")
		case "string":
			return gen.Field("s")
		case "array", "array[number]":
			return gen.Field("a")
		case "array[string]":
			return gen.Field("as")
		case "object":
			return gen.Field("o")
		case "expref":
			return gen.ExpRef(gen.Current())
		}
		return gen.Field("n")
	}
	nj := mon.Workload{Name: "non-JSON-arguments", N: len(njs) * len(exotics) * 2,
		Describe: func(i int) string {
			c := njs[i/2/len(exotics)]
			return fmt.Sprint(c.fn, " argument ", c.pos, " of ", c.n, " is a ", exotics[i/2%len(exotics)].name)
		},
		Do: func(i int, t *mon.Tally) {
			c := njs[i/2/len(exotics)]
			ex := exotics[i/2%len(exotics)]
			sg := ref.Signatures[c.fn]
			args := make([]*gen.Expr, c.n)
			declared := func(p int) []string {
				if p >= len(sg.Params) {
					return sg.Params[len(sg.Params)-1]
				}
				return sg.Params[p]
			}
			for p := range args {
				args[p] = valid(declared(p))
			}
			args[c.pos] = gen.Field("x")
			var tree *gen.Expr = gen.Func(c.fn, args...)
			if i%2 == 1 { // per element of a projection
				tree = gen.Chain(gen.Field("rows"), gen.StListStar(), gen.StFunc(c.fn, args...))
			}
			row := map[string]interface{}{"x": ex.v, "n": float64(1), "s": "a", "a": []interface{}{float64(1), float64(2)}, "as": []interface{}{"a"}, "o": map[string]interface{}{"k": float64(1)}}
			var doc interface{} = row
			if i%2 == 1 {
				doc = map[string]interface{}{"rows": []interface{}{row}}
			}
			expr := gen.SpellTight(tree)
			mustErr := true
			isList := reflect.ValueOf(ex.v).Kind() == reflect.Slice // any Go slice is an array (typed slices are converted at the call)
			for _, ty := range declared(c.pos) {
				if ty == "any" || (isList && ty == "array") { // a []interface{} is an array whatever it holds
					mustErr = false
				}
			}
			t.Eval()
			for k, o := range []mon.Observed{apiSearch(expr, doc), apiCompiledSearch(expr, doc)} {
				if o.Panicked || (mustErr && o.Err == nil) {
					exp := "an error (a " + ex.name + " is none of the declared types " + strings.Join(declared(c.pos), "|") + ")"
					if !mustErr {
						exp = "a value or an error, no panic"
					}
					r.Violate(&mon.Violation{Workload: "non-JSON-arguments", Index: i, API: []string{"Search", "Compile+Search"}[k], Expr: expr,
						DocDesc: "x is a Go " + ex.name + ": " + clipStr(mon.Snapshot(ex.v), 200), Expected: exp, Observed: o.String(), Detail: o.Stack, Class: "non-JSON-arguments: " + o.Class()})
					return
				}
			}
			if mustErr {
				t.Count("non-JSON argument in a typed position: error")
				t.Nontrivial(fmt.Sprint("nj:", i))
			} else {
				t.Count("non-JSON argument in an 'any' position: no panic")
			}
		}}
	// expression references of every shape in every parameter position (the matrix above uses &a and &@): where a
	// value is required the call is an error whatever the referenced expression looks like — and the error has to
	// be built from it
	bodies := []*gen.Expr{gen.Field("n"), gen.Current(), gen.Chain(gen.Field("o"), gen.StField("k")), gen.Chain(gen.Field("a"), gen.StIndex(0)), gen.Func("length", gen.Current()), gen.MultiList(gen.Field("n"), gen.Field("s")),
		gen.MultiHash(keyA("x"), []*gen.Expr{gen.Field("n")}), gen.Or(gen.Field("n"), gen.Field("s")), gen.Not(gen.Field("n")), gen.LitJSON("1"), gen.Raw("r"), gen.Chain(gen.Field("a"), gen.StListStar(), gen.StField("k")),
		gen.Cmp("<", gen.Field("n"), gen.LitJSON("2")), gen.Pipe(gen.Field("a"), gen.Chain(nil, gen.StIndex(0))), gen.Func("sort_by", gen.Field("a"), gen.ExpRef(gen.Current())), gen.Chain(gen.Field("a"), gen.StFilter(gen.Current())),
		gen.Chain(gen.Field("a"), gen.StSliceS("1", "", "")), gen.Func("abs", gen.Raw("x")), gen.Chain(gen.Field("o"), gen.StStar())}
	erw := mon.Workload{Name: "expression-references-as-arguments", N: len(njs) * len(bodies) * 6,
		Do: func(i int, t *mon.Tally) {
			c := njs[i/6/len(bodies)]
			body := bodies[i/6%len(bodies)]
			sg := ref.Signatures[c.fn]
			args := make([]*gen.Expr, c.n)
			for p := range args {
				d := sg.Params[len(sg.Params)-1]
				if p < len(sg.Params) {
					d = sg.Params[p]
				}
				args[p] = valid(d)
			}
			args[c.pos] = gen.ExpRef(body)
			if i%6 >= 4 { // the other arguments produced by calls (a call pattern that is recognised and answered directly must still check them all)
				for p := range args {
					if p == c.pos {
						continue
					}
					d := sg.Params[len(sg.Params)-1]
					if p < len(sg.Params) {
						d = sg.Params[p]
					}
					switch d[0] {
					case "array", "array[number]":
						args[p] = gen.Func("keys", gen.Field("o"))
						if d[0] == "array[number]" {
							args[p] = gen.Func("values", gen.Field("o"))
						}
					case "array[string]":
						args[p] = gen.Func("keys", gen.Field("o"))
					case "object":
						args[p] = gen.Func("merge", gen.Field("o"), gen.Field("o"))
					case "string":
						args[p] = gen.Func("to_string", gen.Field("n"))
					case "number":
						args[p] = gen.Func("length", gen.Field("a"))
					}
				}
			}
			var tree *gen.Expr = gen.Func(c.fn, args...)
			row := map[string]interface{}{"n": float64(1), "s": "a", "a": []interface{}{float64(1), float64(2)}, "as": []interface{}{"a"}, "o": map[string]interface{}{"k": float64(1)}}
			var doc interface{} = row
			if i%2 == 1 {
				tree = gen.Chain(gen.Field("rows"), gen.StListStar(), gen.StFunc(c.fn, args...))
				doc = map[string]interface{}{"rows": []interface{}{row, row}}
			}
			cx := &caseCtx{r, t, "expression-references-as-arguments", i}
			res, _, _ := cx.runBoth(tree, gen.SpellTight(tree), doc)
			if isErr(res) {
				t.Count("expression reference where a value is required: error")
				t.Nontrivial(fmt.Sprint("er:", i))
			}
		}}
	// the one key of the other type at every position of arrays long enough for block-wise / merging sorts
	// (24, 41, 61, 100 elements), the other keys descending, ascending or shuffled: no position may escape the
	// "consistently a number or consistently a string" check
	oddLens := []int{24, 41, 61, 100}
	type okc struct{ n, p int }
	var okcs []okc
	for _, n := range oddLens {
		for p := 0; p < n; p++ {
			okcs = append(okcs, okc{n, p})
		}
	}
	oddFns := []string{"sort_by", "max_by", "min_by"}
	oddw := mon.Workload{Name: "odd-key-at-every-position", N: len(okcs) * 3 * 3 * len(oddFns),
		Do: func(i int, t *mon.Tally) {
			k := i
			fn := oddFns[k%len(oddFns)]
			k /= len(oddFns)
			order := k % 3
			k /= 3
			kind := k % 3
			c := okcs[k/3]
			arr := make([]interface{}, c.n)
			for q := range arr {
				v := float64(c.n - q) // descending
				switch order {
				case 1:
					v = float64(q)
				case 2:
					v = float64((q*37 + 11) % c.n)
				}
				var key interface{} = v
				if kind == 1 {
					key = fmt.Sprintf("k%04d", int(v))
				}
				arr[q] = map[string]interface{}{"k": key, "i": float64(q)}
			}
			var odd interface{} = "odd"
			switch kind {
			case 1:
				odd = float64(7)
			case 2:
				odd = nil
			}
			arr[c.p] = map[string]interface{}{"k": odd, "i": float64(c.p)}
			tree := gen.Func(fn, gen.Field("a"), gen.ExpRef(gen.Field("k")))
			cx := &caseCtx{r, t, "odd-key-at-every-position", i}
			res, _, _ := cx.runOne(tree, gen.SpellTight(tree), map[string]interface{}{"a": arr})
			if isErr(res) {
				t.NontrivialDistinct(1)
			}
		}}
	// every kind of failing call in every single-hole context of the grammar and in every context of every
	// context (the contexts of C11): "never a value" holds under nesting - next to an identical twin, behind a
	// pipe that selects, as the argument of a more tolerant function
	var ferrs []*gen.Expr
	for _, e := range c11Errors() {
		if !strings.HasPrefix(e.name, "zero-slice-step") {
			ferrs = append(ferrs, e.e)
		}
	}
	ferrs = append(ferrs, gen.Func("abs", gen.Field("s")), gen.Func("nosuch"), gen.Func("length", gen.Field("a"), gen.Field("a")), gen.Func("max_by", gen.Field("x"), gen.Field("a")), gen.Func("join", gen.Field("a"), gen.Field("x")))
	fctx := c11Contexts()
	fdocs := []interface{}{docs.J(`{"a":1,"s":"str","x":[{"a":1},{"a":2}],"o":{"p":{"a":1},"q":{"a":2}}}`), docs.J(`{"a":"","s":"t","x":[{"a":false},{"a":null}],"o":{"p":null}}`)}
	FC, FE, FD := len(fctx), len(ferrs), len(fdocs)
	inctx := mon.Workload{Name: "failing-calls-in-every-context", N: (FC + FC*FC) * FE * FD, Batch: 4000,
		Do: func(i int, t *mon.Tally) {
			doc := fdocs[i%FD]
			k := i / FD
			e := ferrs[k%FE]
			k /= FE
			var tree *gen.Expr
			if k < FC {
				tree = fctx[k].f(e)
			} else {
				k -= FC
				tree = fctx[k/FC].f(fctx[k%FC].f(e))
			}
			cx := &caseCtx{r, t, "failing-calls-in-every-context", i}
			res, _, _ := cx.runOne(tree, gen.Spell(tree), doc)
			if isErr(res) {
				t.NontrivialDistinct(1)
				t.Count("failing call reached inside a context: error expected")
			}
		}}
	// an ill-typed call that only some elements make (first, middle, last, far into a long array), with a
	// selection applied to the projection: no early exit, first-match short cut or overwritten error may hide it
	lateTrees, lateDocs := c11LateCases()
	latew := mon.Workload{Name: "ill-typed-for-some-elements", N: len(lateTrees) * len(lateDocs),
		Do: func(i int, t *mon.Tally) {
			tree, doc := lateTrees[i/len(lateDocs)], lateDocs[i%len(lateDocs)]
			cx := &caseCtx{r, t, "ill-typed-for-some-elements", i}
			res, _, _ := cx.runOne(tree, gen.Spell(tree), doc)
			if isErr(res) {
				t.NontrivialDistinct(1)
			}
		}}
	// names that are not functions but nearly are: every proper prefix of every built-in name, every name extended by
	// one character, other capitalisation, separators swapped - called with arguments the near neighbour would accept
	seenName := map[string]bool{}
	var nearNames []string
	addName := func(n string) {
		if _, isFn := ref.Signatures[n]; !isFn && n != "" && !seenName[n] && gen.IsUnquotedIdent(n) {
			seenName[n] = true
			nearNames = append(nearNames, n)
		}
	}
	for _, f := range ref.FunctionNames() {
		for k := 1; k < len(f); k++ {
			addName(f[:k])
		}
		for _, ext := range []string{"_", "s", "0", "_by", "x"} {
			addName(f + ext)
		}
		addName(strings.ToUpper(f[:1]) + f[1:])
		addName(strings.ToUpper(f))
		addName(strings.ReplaceAll(f, "_", ""))
		addName("_" + f)
		// long unknown names (whatever compares an unknown name with the known ones works on names of any length)
		for _, ext := range []string{"_descending", "_or_null", "_case_insensitive_with_a_very_long_suffix_0123456789", strings.Repeat("_x", 8), strings.Repeat("y", 15), strings.Repeat("z", 16), strings.Repeat("q", 17), strings.Repeat("w", 31), strings.Repeat("v", 64), strings.Repeat("u", 300)} {
			addName(f + ext)
			addName(f[:1] + ext)
		}
	}
	// names that other implementations, proposals and common sense would give a function: none of them is one of the 26
	for _, n := range strings.Fields("split upper lower trim trim_left trim_right replace items from_items to_items zip group_by find_first find_last pad_left pad_right unique uniq distinct flatten first last head tail range slice substring substr sum_by count size len now env match regex regex_match regex_replace to_object to_bool to_boolean is_null default coalesce if concat format printf lookup get has has_key contains_any index_of insert remove delete filter reduce fold select pluck pick omit entries from_entries let parse_json to_json from_json json_parse json_serialize encode decode base64 md5 sha1 uuid random mod pow sqrt round trunc negate add sub mul div product median mode stddev min_max cumsum diff char_at repeat title capitalize snake_case camel_case words lines chars explode implode strip length_of keys_of values_of sort_desc reverse_sort rsort order_by top bottom limit offset take drop chunk window pairs transpose set_union union intersect difference exclude compact clean to_list to_map to_set to_int to_float int float str string number bool array object typeof type_of is_array is_string is_number exists empty not_empty any all none some every between in_range clamp") {
		addName(n)
	}
	for _, n := range []string{strings.Repeat("a", 15), strings.Repeat("a", 16), strings.Repeat("a", 17), strings.Repeat("m", 32), strings.Repeat("s", 33), strings.Repeat("t", 255), strings.Repeat("k", 256), strings.Repeat("n", 1000), "x", "xx", strings.Repeat("x", 16), strings.Repeat("_", 16), "A", strings.Repeat("Z", 20)} {
		addName(n)
	}
	nearArgs := [][]*gen.Expr{{gen.Field("n")}, {gen.Field("s")}, {gen.Field("a")}, {gen.Field("o")}, {gen.Field("a"), gen.ExpRef(gen.Current())}, {gen.ExpRef(gen.Current()), gen.Field("a")}, {gen.Field("s"), gen.Field("s")}, {gen.Field("a"), gen.Field("n")}, {}, {gen.Field("o"), gen.Field("o")}}
	nearw := mon.Workload{Name: "near-miss-function-names", N: len(nearNames) * len(nearArgs),
		Do: func(i int, t *mon.Tally) {
			tree := gen.Func(nearNames[i/len(nearArgs)], nearArgs[i%len(nearArgs)]...)
			doc := map[string]interface{}{"n": float64(-2), "s": "str", "a": []interface{}{float64(2), float64(1)}, "o": map[string]interface{}{"k": float64(1)}}
			cx := &caseCtx{r, t, "near-miss-function-names", i}
			res, _, _ := cx.runOne(tree, gen.SpellTight(tree), doc)
			if isErr(res) {
				t.NontrivialDistinct(1)
			}
		}}
	// an ill-typed call made AFTER a well-typed call of the same function whose arguments look alike (same kinds, an array that
	// starts with an element of the right kind): whatever a call remembers about arguments it has accepted - per expression, per
	// compiled object, per process - must not excuse the next call from its checks
	type afterCase struct {
		fn   string
		good []interface{}
		pos  int
		bad  interface{}
	}
	goodOf := func(types []string) interface{} {
		switch types[0] {
		case "number":
			return float64(3)
		case "string":
			return "abc"
		case "array[number]":
			return []interface{}{float64(1), float64(2), float64(3)}
		case "array[string]":
			return []interface{}{"a", "b", "c"}
		case "array":
			return []interface{}{float64(1), "a", nil}
		case "object":
			return map[string]interface{}{"a": float64(1), "b": "x"}
		case "boolean":
			return true
		}
		return float64(1) // any
	}
	badOf := func(types []string) []interface{} {
		has := func(ty string) bool {
			for _, x := range types {
				if x == ty || x == "any" {
					return true
				}
			}
			return false
		}
		var out []interface{}
		if has("array[number]") && !has("array") {
			out = append(out, []interface{}{float64(1), "two", float64(3)}, []interface{}{float64(1), nil}, []interface{}{float64(1), float64(2), []interface{}{float64(3)}}, []interface{}{float64(1), true})
		}
		if has("array[string]") && !has("array") {
			out = append(out, []interface{}{"a", float64(2), "c"}, []interface{}{"a", nil}, []interface{}{"a", "b", map[string]interface{}{}})
		}
		for _, c := range []struct {
			ty string
			v  interface{}
		}{{"number", float64(4)}, {"string", "abd"}, {"object", map[string]interface{}{"a": float64(1)}}, {"boolean", false}, {"null", nil}} {
			if !has(c.ty) && !(c.ty == "string" && has("array[string]") && false) {
				out = append(out, c.v)
			}
		}
		if !has("array") && !has("array[number]") && !has("array[string]") {
			out = append(out, []interface{}{float64(1)})
		}
		return out
	}
	var afters []afterCase
	for _, fn := range ref.FunctionNames() {
		sg := ref.Signatures[fn]
		npos := len(sg.Params)
		if sg.Variadic {
			npos += 2
		}
		par := func(p int) []string {
			if p >= len(sg.Params) {
				return sg.Params[len(sg.Params)-1]
			}
			return sg.Params[p]
		}
		good := make([]interface{}, npos)
		for p := 0; p < npos; p++ {
			good[p] = goodOf(par(p))
		}
		for p := 0; p < npos; p++ {
			if par(p)[0] == "expref" {
				continue
			}
			for _, b := range badOf(par(p)) {
				afters = append(afters, afterCase{fn, good, p, b})
			}
		}
	}
	afterForms := 5
	afterw := mon.Workload{Name: "ill-typed-call-after-a-well-typed-call-of-the-same-function", N: len(afters) * afterForms, Batch: 500,
		Do: func(i int, t *mon.Tally) {
			c, form := afters[i/afterForms], i%afterForms
			sg := ref.Signatures[c.fn]
			elem := func(bad bool) map[string]interface{} {
				o := map[string]interface{}{"k": float64(1)}
				for p, g := range c.good {
					o["p"+strconv.Itoa(p)] = mon.DeepCopy(g)
				}
				if bad {
					o["p"+strconv.Itoa(c.pos)] = mon.DeepCopy(c.bad)
				}
				return o
			}
			call := func(prefix string) *gen.Expr {
				args := make([]*gen.Expr, len(c.good))
				for p := range c.good {
					if p < len(sg.Params) && sg.Params[p][0] == "expref" {
						args[p] = gen.ExpRef(gen.Field("k"))
						if c.fn == "map" {
							args[p] = gen.ExpRef(gen.Current())
						}
						continue
					}
					args[p] = gen.Field("p" + strconv.Itoa(p))
					if prefix != "" {
						args[p] = gen.Chain(gen.Field(prefix), gen.StField("p"+strconv.Itoa(p)))
					}
				}
				return gen.Func(c.fn, args...)
			}
			cx := &caseCtx{r, t, "ill-typed-call-after-a-well-typed-call-of-the-same-function", i}
			switch form {
			case 0: // the two calls side by side in one expression, the well-typed one first
				doc := map[string]interface{}{"g": elem(false), "b": elem(true)}
				tree := gen.MultiList(call("g"), call("b"))
				cx.runBoth(tree, gen.SpellTight(tree), doc)
			case 1: // one call node, evaluated for a well-typed element and then for an ill-typed one (and the other way round)
				doc := map[string]interface{}{"x": []interface{}{elem(false), elem(false), elem(true), elem(false)}}
				tree := gen.Chain(gen.Field("x"), gen.StListStar(), gen.Step{K: gen.SFunc, X: call("")})
				cx.runBoth(tree, gen.SpellTight(tree), doc)
			case 2:
				doc := map[string]interface{}{"x": []interface{}{elem(false), elem(true)}}
				tree := gen.Func("map", gen.ExpRef(call("")), gen.Field("x"))
				cx.runBoth(tree, gen.SpellTight(tree), doc)
			default: // one compiled expression (form 3) / the one-shot Search (form 4): a well-typed document, the ill-typed one, the well-typed one again
				tree := call("")
				expr := gen.SpellTight(tree)
				jp, co := apiCompile(expr)
				if co.Panicked || co.Err != nil {
					r.Inconclusive("C10 workload expression does not compile: " + expr)
					return
				}
				for step, bad := range []bool{false, false, true, false, true} {
					d := elem(bad)
					res := ref.RefSet(tree, d, gen.Quirks{})
					var o mon.Observed
					api := "Search (call " + strconv.Itoa(step+1) + " of 5 in a row)"
					if form == 3 {
						o = apiJP(jp, mon.DeepCopy(d))
						api = "Compile+Search (call " + strconv.Itoa(step+1) + " of 5 on one compiled expression)"
					} else {
						o = apiSearch(expr, mon.DeepCopy(d))
					}
					if !cx.judge(tree, expr, d, api, o, res) {
						return
					}
				}
			}
			t.NontrivialDistinct(1)
		}}
	// every argument of every call template replaced by a member of another kind that reaches the function through another
	// construct (parenthesis, pipe, multi-select, not_null, ||, projection, slice, map, to_array ...): the check sees what the
	// construct yields, whatever the construct is
	wbase := c06BaseDoc()
	wcalls := c06Calls(false, wbase)
	wprods := argProducers()
	wfields := []string{"s", "n", "an", "as", "o", "z", "b", "am", "ao"}
	type wcase struct{ call, arg, fld, prod int }
	var wcs []wcase
	for ci, c := range wcalls {
		for ai, a := range c.Items {
			if a.K == gen.KExpRef {
				continue
			}
			for fi := range wfields {
				for pi := range wprods {
					if (ci+ai+fi+pi)%2 == 0 || r.Tier == "thorough" {
						wcs = append(wcs, wcase{ci, ai, fi, pi})
					}
				}
			}
		}
	}
	wprodw := mon.Workload{Name: "ill-typed-arguments-produced-by-other-constructs", N: len(wcs), Batch: 2000,
		Do: func(i int, t *mon.Tally) {
			c := wcs[i]
			tree := gen.Clone(wcalls[c.call])
			tree.Items[c.arg] = wprods[c.prod](gen.Field(wfields[c.fld]))
			cx := &caseCtx{r, t, "ill-typed-arguments-produced-by-other-constructs", i}
			res, _, _ := cx.runOne(tree, gen.Spell(tree), wbase)
			if isErr(res) {
				t.NontrivialDistinct(1)
			}
		}}
	// an expression reference anywhere BELOW an argument (inside a multi-select, a hash, a parenthesis, an operand, an inner call that
	// takes values): it is no value there either - an error, at compile time or at evaluation time, for every function and position
	hidden := []string{"[&a]", "[a, &a]", "{x: &a}", "`1` || &a", "a && &a", "!&a", "(&a)", "a == &a", "[&a][0]", "to_array(&a)", "not_null(a, &a)", "[[&a]]", "{x: [&a]}", "a[?&b]", "a[*].[&b]", "a.{k: &b}", "type(&a)", "[&a, &a]", "&&a", "& &a", "(a, &a)", "a || (&a)", "[?&a]", "*.[&a]"}
	hnames := ref.FunctionNames()
	hidw := mon.Workload{Name: "expression-references-hidden-below-an-argument", N: len(hnames) * len(hidden) * 3, Batch: 500,
		Do: func(i int, t *mon.Tally) {
			fnm, h, pos := hnames[i/3/len(hidden)], hidden[i/3%len(hidden)], i%3
			expr := fnm + "(" + h + ")"
			switch pos {
			case 1:
				expr = fnm + "(a, " + h + ")"
			case 2:
				expr = fnm + "(" + h + ", a)"
			}
			doc := docs.J(`{"a":[{"b":1,"a":2},{"b":2,"a":1}],"b":"s"}`)
			for q, o := range []mon.Observed{apiSearch(expr, doc), apiCompiledSearch(expr, mon.DeepCopy(doc))} {
				t.Eval()
				if o.Panicked || o.Err == nil {
					r.Violate(&mon.Violation{Workload: "expression-references-hidden-below-an-argument", Index: i, API: []string{"Search", "Compile+Search"}[q], Expr: expr, Doc: doc,
						Expected: "an error: an expression reference is allowed only as a whole argument of a function that declares an expression parameter; anywhere below an argument it is no value (and no sentence of the grammar)", Observed: o.String(), Class: "expression reference accepted below an argument"})
					return
				}
			}
			t.NontrivialDistinct(1)
		}}
	// a call on the result of a call that yields null (or another kind) for edge inputs only: avg / max / min of an empty list,
	// max_by / min_by of one, to_number of a string that is no number, not_null of nulls, an index past the end. What "this call
	// always returns a number" lets a type check be skipped for, is not always a number
	{
		f, lit, raw, fn := gen.Field, gen.LitJSON, gen.Raw, gen.Func
		inners := []func() *gen.Expr{
			func() *gen.Expr { return fn("avg", f("ea")) }, func() *gen.Expr { return fn("max", f("ea")) }, func() *gen.Expr { return fn("min", f("ea")) }, func() *gen.Expr { return fn("max_by", f("ea"), gen.ExpRef(f("k"))) },
			func() *gen.Expr { return fn("min_by", f("ea"), gen.ExpRef(f("k"))) }, func() *gen.Expr { return fn("to_number", raw("x")) }, func() *gen.Expr { return fn("to_number", f("s")) }, func() *gen.Expr { return fn("not_null", f("z")) },
			func() *gen.Expr { return fn("not_null", f("z"), f("z")) }, func() *gen.Expr { return gen.Chain(f("ea"), gen.StIndex(0)) }, func() *gen.Expr { return fn("avg", lit("[]")) }, func() *gen.Expr { return fn("max", f("es")) },
			func() *gen.Expr { return fn("avg", f("an")) }, func() *gen.Expr { return fn("max", f("an")) }, func() *gen.Expr { return fn("sum", f("ea")) }, func() *gen.Expr { return fn("to_number", f("n")) }, func() *gen.Expr { return fn("max_by", f("ao"), gen.ExpRef(f("k"))) },
			func() *gen.Expr { return fn("sort", f("ea")) }, func() *gen.Expr { return fn("keys", f("e")) }, func() *gen.Expr { return fn("to_array", f("z")) }, func() *gen.Expr { return fn("merge", f("e")) }, func() *gen.Expr { return fn("join", raw(""), f("ea")) },
			func() *gen.Expr { return fn("reverse", raw("")) }, func() *gen.Expr {
				return fn("avg", gen.Chain(f("ao"), gen.StFilter(gen.Cmp(">", f("k"), lit("99"))), gen.StField("k")))
			}, func() *gen.Expr { return fn("min", gen.Chain(f("ao"), gen.StListStar(), gen.StField("missing"))) },
		}
		outers := []func(x *gen.Expr) *gen.Expr{
			func(x *gen.Expr) *gen.Expr { return fn("abs", x) }, func(x *gen.Expr) *gen.Expr { return fn("ceil", x) }, func(x *gen.Expr) *gen.Expr { return fn("floor", x) }, func(x *gen.Expr) *gen.Expr { return fn("length", x) },
			func(x *gen.Expr) *gen.Expr { return fn("starts_with", x, raw("a")) }, func(x *gen.Expr) *gen.Expr { return fn("ends_with", raw("a"), x) }, func(x *gen.Expr) *gen.Expr { return fn("join", raw(","), x) }, func(x *gen.Expr) *gen.Expr { return fn("join", x, f("es")) },
			func(x *gen.Expr) *gen.Expr { return fn("keys", x) }, func(x *gen.Expr) *gen.Expr { return fn("values", x) }, func(x *gen.Expr) *gen.Expr { return fn("sort", x) }, func(x *gen.Expr) *gen.Expr { return fn("reverse", x) }, func(x *gen.Expr) *gen.Expr { return fn("contains", x, raw("a")) },
			func(x *gen.Expr) *gen.Expr { return fn("sum", x) }, func(x *gen.Expr) *gen.Expr { return fn("avg", x) }, func(x *gen.Expr) *gen.Expr { return fn("max", x) }, func(x *gen.Expr) *gen.Expr { return fn("merge", x) }, func(x *gen.Expr) *gen.Expr { return fn("merge", f("e"), x) },
			func(x *gen.Expr) *gen.Expr { return fn("sort_by", x, gen.ExpRef(f("k"))) }, func(x *gen.Expr) *gen.Expr { return fn("map", gen.ExpRef(f("k")), x) }, func(x *gen.Expr) *gen.Expr { return fn("max_by", x, gen.ExpRef(f("k"))) }, func(x *gen.Expr) *gen.Expr { return fn("to_number", x) },
			func(x *gen.Expr) *gen.Expr { return fn("abs", fn("abs", x)) }, func(x *gen.Expr) *gen.Expr { return fn("sum", gen.MultiList(x, lit("1"))) }, func(x *gen.Expr) *gen.Expr { return gen.MultiList(fn("abs", fn("avg", f("an"))), fn("abs", x)) },
		}
		edgeDoc := docs.J(`{"ea":[],"es":["a","b"],"an":[1,2],"ao":[{"k":1},{"k":2}],"e":{},"z":null,"s":"str","n":-3}`)
		edw := mon.Workload{Name: "calls-on-results-that-are-null-for-edge-inputs", N: len(inners) * len(outers), Batch: 200,
			Do: func(i int, t *mon.Tally) {
				tree := outers[i%len(outers)](inners[i/len(outers)]())
				cx := &caseCtx{r, t, "calls-on-results-that-are-null-for-edge-inputs", i}
				res, _, _ := cx.runBoth(tree, gen.SpellTight(tree), edgeDoc)
				if isErr(res) {
					t.NontrivialDistinct(1)
				}
			}}
		edgeResults = edw
	}
	r.Exec(exh, by, many, rnd, sizedWorkload(r, "sized-arrays-ill-typed", true), nj, erw, oddw, inctx, latew, nearw, afterw, wprodw, hidw, edgeResults)
}
