package main

import (
	"strconv"
	"strings"

	jmespath "github.com/jmespath/go-jmespath"

	"verifharness/docs"
	"verifharness/gen"
	"verifharness/mon"
	"verifharness/ref"
)

// C03 — operator precedence, associativity and projection scope.

func init() { register("C03", c03) }

func c03Spaces() []gen.Space {
	atoms := gen.List(gen.Field("a"), gen.Field("b"), gen.Current(), gen.LitJSON("1"))
	un := []func(*gen.Expr) *gen.Expr{
		func(x *gen.Expr) *gen.Expr { return gen.Not(x) },
		func(x *gen.Expr) *gen.Expr { return gen.Paren(x) },
		func(x *gen.Expr) *gen.Expr { return gen.Func("abs", x) },
		gen.StepFn(gen.StField("a")), gen.StepFn(gen.StIndex(0)), gen.StepFn(gen.StListStar()), gen.StepFn(gen.StFlatten()),
		gen.StepFn(gen.StFilter(gen.Field("b"))), gen.StepFn(gen.StStar()), gen.StepFn(gen.StSlice(gen.I(1), nil, nil)),
		gen.StepFn(gen.StMultiList(gen.Field("b"))), gen.StepFn(gen.StMultiHash(keyA("k"), []*gen.Expr{gen.Field("b")})),
		gen.StepFn(gen.StFunc("f", gen.Current())),
	}
	bin := []func(a, b *gen.Expr) *gen.Expr{
		func(a, b *gen.Expr) *gen.Expr { return gen.Pipe(a, b) },
		func(a, b *gen.Expr) *gen.Expr { return gen.Or(a, b) },
		func(a, b *gen.Expr) *gen.Expr { return gen.And(a, b) },
		func(a, b *gen.Expr) *gen.Expr { return gen.Cmp("==", a, b) },
		func(a, b *gen.Expr) *gen.Expr { return gen.Cmp("<", a, b) },
		func(a, b *gen.Expr) *gen.Expr { return gen.Func("contains", a, b) },
		func(a, b *gen.Expr) *gen.Expr { return gen.Func("max_by", a, gen.ExpRef(b)) },
		func(a, b *gen.Expr) *gen.Expr { return gen.AddStep(a, gen.StFilter(b)) },
		func(a, b *gen.Expr) *gen.Expr { return gen.MultiList(a, b) },
	}
	s0 := atoms
	s1 := gen.Materialize(gen.Union(gen.Map(s0, un...), gen.Product(s0, s0, bin...)))
	s2 := gen.Materialize(gen.Union(gen.Map(s1, un...), gen.Product(s0, s1, bin...), gen.Product(s1, s0, bin...)))
	s3 := gen.Union(gen.Map(s2, un...), gen.Product(s0, s2, bin...), gen.Product(s2, s0, bin...), gen.Product(s1, s1, bin...))
	s4 := gen.Union(gen.Map(s3, un...), gen.Product(s0, s3, bin...), gen.Product(s3, s0, bin...), gen.Product(s1, s2, bin...), gen.Product(s2, s1, bin...))
	return []gen.Space{s0, s1, s2, s3, s4}
}

// addRedundantParens wraps random complete sub-expressions in Paren nodes at
// positions where that cannot change the grouping: operands of binary
// operators, of !, members, arguments, conditions, chain heads.
func addRedundantParens(e *gen.Expr, r *gen.Rand) *gen.Expr {
	c := gen.Clone(e)
	var visit func(x *gen.Expr)
	wrap := func(p **gen.Expr) {
		if *p != nil && (*p).K != gen.KExpRef && r.Chance(1, 3) {
			*p = gen.Paren(*p)
		}
	}
	visit = func(x *gen.Expr) {
		if x == nil {
			return
		}
		switch x.K {
		case gen.KNot, gen.KOr, gen.KAnd, gen.KPipe, gen.KCmp, gen.KParen, gen.KExpRef:
			visit(x.A)
			visit(x.B)
			wrap(&x.A)
			if x.B != nil {
				wrap(&x.B)
			}
		case gen.KMultiList, gen.KMultiHash, gen.KFunc:
			for i := range x.Items {
				visit(x.Items[i])
				wrap(&x.Items[i])
			}
		case gen.KChain:
			visit(x.Head)
			if x.Head != nil {
				wrap(&x.Head)
			}
			for i := range x.Steps {
				s := &x.Steps[i]
				if s.K == gen.SFilter {
					visit(s.X)
					wrap(&s.X)
				} else {
					visit(s.X)
				}
			}
		}
	}
	visit(c)
	if r.Chance(1, 3) {
		c = gen.Paren(c)
	}
	return c
}

func parseSexpr(expr string) (string, mon.Observed) {
	var sx string
	o := mon.Guard(func() (interface{}, error) {
		ast, err := jmespath.NewParser().Parse(expr)
		if err != nil {
			return nil, err
		}
		sx = jmespath.VerifSexpr(ast)
		return nil, nil
	})
	return sx, o
}

// c03Structural: all spellings of one tree must parse to the same AST.
func c03Structural(r *mon.Run, t *mon.Tally, wl string, idx int, tree *gen.Expr) {
	minToks := gen.Tokens(tree, gen.Min)
	min := strings.Join(minToks, " ")
	rng := gen.DeriveN(r.Seed, "c03:"+wl, idx)
	spellings := []struct{ name, s string }{
		{"minimal", min},
		{"fully parenthesised", gen.SpellFull(tree)},
		{"no-space", gen.JoinTight(minToks)},
		{"mixed whitespace", gen.JoinWS(minToks, rng)},
		{"redundant parentheses", gen.Spell(addRedundantParens(tree, rng))},
		{"quoted identifiers", strings.Join(gen.TokensQuoted(tree, gen.Min), " ")},
	}
	var want string
	for k, sp := range spellings {
		t.Eval()
		sx, o := parseSexpr(sp.s)
		if o.Panicked || o.Err != nil {
			r.Violate(&mon.Violation{Workload: wl, Index: idx, API: "Parse", Expr: sp.s, Expected: "the " + sp.name + " spelling of a grammatical tree compiles (minimal spelling: " + min + ")",
				Observed: o.String(), Class: wl + ": " + sp.name + " spelling rejected"})
			return
		}
		if k == 0 {
			want = sx
			continue
		}
		if sx != want {
			r.Violate(&mon.Violation{Workload: wl, Index: idx, API: "Parse", Expr: min,
				Expected: "same AST as its " + sp.name + " spelling " + sp.s + " : " + sx, Observed: want,
				Class: wl + ": minimal vs " + sp.name})
			return
		}
	}
	// non-trivial: at least two operators of different levels and no parentheses
	lv := map[string]bool{}
	paren := false
	for _, tk := range minToks {
		switch tk {
		case "(":
			paren = true
		case "|", "||", "&&", "==", "<", "!", ".", "[", "[?", "[]", "*":
			lv[tk] = true
		}
	}
	if len(lv) >= 2 && !paren {
		t.Nontrivial(min)
		t.Count("trees decided by the precedence table alone (>=2 operator kinds, no parentheses)")
	}
	if idx%40009 == 0 {
		t.Sample(map[string]interface{}{"minimal": min, "full": spellings[1].s, "ast": want})
	}
}

func c03(r *mon.Run) {
	r.Rule = "structural layer (hook VerifSexpr): every operator tree with <= 3 operators (quick; thorough adds a seeded sample of 4-operator trees) over {| || && == < ! .f [0] [*] [] [?c] .* [1:] .[..] .{..} call &-in-call} and atoms {a b @ `1`} is spelled minimally, fully parenthesised, without spaces, with mixed whitespace, with redundant parentheses and with every identifier written as a quoted identifier; all six parses must be the same AST (equal parse => equal result on every document). " +
		"every sampled tree is also wrapped, as a whole and around its first atom, in 1…1000 redundant parentheses (Parse and Compile must give the bare AST). semantic layer: chain1 | chain2 for every chain1 of <= 3 and chain2 of <= 2 steps through all entry points (a pipe ends every projection); chains whose grouping parentheses cannot pin (projection scope) are evaluated on scope-discriminating documents against ref.RefSet. Non-trivial = distinct trees whose minimal spelling has >= 2 operator kinds and no parentheses (only the table decides)."
	r.Exhaustive = true
	r.Floor = 2000
	r.Assumptions = []string{"the minimal speller implements the precedence table stated in C03 (pipe 1 < or 2 < and 3 < comparators 5 < flatten 9 < wildcard 20 < filter 21 < dot 40 < not 45 < bracket 55 < call 60, binary operators left-associative); validated at dev time on the compliance suite (every frozen tree re-parses to the original AST)",
		"only s-expressions produced by the same build are compared with each other"}
	sp := c03Spaces()
	small := gen.Union(sp[0], sp[1], sp[2], sp[3])
	ws := []mon.Workload{{Name: "structural", N: small.Len(), Batch: 5000,
		Describe: func(i int) string { return gen.Spell(small.At(i)) },
		Do:       func(i int, t *mon.Tally) { c03Structural(r, t, "structural", i, small.At(i)) }}}
	if r.Tier == "thorough" {
		s4 := sp[4]
		n := 6000000
		stride := s4.Len() / n
		if stride < 1 {
			stride = 1
		}
		ws = append(ws, mon.Workload{Name: "structural-4ops", N: n, Batch: 5000,
			Describe: func(i int) string { return gen.Spell(s4.At((i*stride + int(r.Seed%uint64(stride))) % s4.Len())) },
			Do: func(i int, t *mon.Tally) {
				c03Structural(r, t, "structural-4ops", i, s4.At((i*stride+int(r.Seed%uint64(stride)))%s4.Len()))
			}})
	}
	nr := tierPick(r, 30000, 600000)
	ws = append(ws, mon.Workload{Name: "structural-random", N: nr,
		Do: func(i int, t *mon.Tally) {
			rng := gen.DeriveN(r.Seed, "c03rand", i)
			g := gen.NewTreeGen(rng)
			g.MaxDepth = 2 + rng.Intn(4)
			g.IllTyped = 0
			c03Structural(r, t, "structural-random", i, g.Expr(0, gen.WAny))
		}})
	// semantic layer: projection scope inside chains
	scopeDocs := []interface{}{
		docs.J(`{"a":[{"a":[{"a":1,"b":[1,2]},{"a":2,"b":[3]}],"b":[[10,11],[12]]},{"a":[{"a":3,"b":[4]}],"b":[[13]]}],"b":[[1,2],[3]]}`),
		docs.J(`{"a":{"x":{"a":{"a":[1,2],"b":{"a":5}},"b":[1]},"y":{"a":{"a":[3],"b":{"a":6}},"b":[2,3]}},"b":{"a":[7]}}`),
		docs.J(`[{"a":[{"a":[[1,2],[3]],"b":1},{"a":[[4]],"b":0}],"b":[{"a":1,"b":true},{"a":2,"b":false}]},{"a":[],"b":[{"a":3,"b":1}]}]`),
		docs.J(`{"a":[[{"a":[1,2],"b":"x"},{"a":[3],"b":""}],[{"a":[4,5],"b":"y"}]],"b":true}`),
		docs.J(`{"a":[{"a":{"a":[{"b":1},{"b":2}]},"b":[[{"a":1}]]},{"a":{"a":[{"b":3}]},"b":[[{"a":2}],[{"a":3}]]}]}`),
	}
	scopeSteps := []gen.Step{gen.StField("a"), gen.StField("b"), gen.StIndex(0), gen.StIndex(-1), gen.StListStar(), gen.StFlatten(),
		gen.StFilter(gen.Field("b")), gen.StStar(), gen.StSlice(nil, gen.I(1), nil), gen.StMultiList(gen.Field("a")), gen.StMultiHash(keyA("a"), []*gen.Expr{gen.Field("b")})}
	K := tierPick(r, 4, 5)
	S := len(scopeSteps)
	cnt, blk := 0, 1
	for n := 1; n <= K; n++ {
		blk *= S
		cnt += blk
	}
	decode := func(i int) *gen.Expr {
		head := i % 2
		i /= 2
		n, block := 1, S
		for i >= block {
			i -= block
			block *= S
			n++
		}
		steps := make([]gen.Step, n)
		for k := n - 1; k >= 0; k-- {
			steps[k] = scopeSteps[i%S]
			i /= S
		}
		if head == 0 {
			return gen.Chain(gen.Field("a"), steps...)
		}
		return gen.Chain(nil, steps...)
	}
	nd := len(scopeDocs)
	ws = append(ws, mon.Workload{Name: "scope-semantic", N: cnt * 2 * nd, Batch: 4000,
		Describe: func(i int) string { return gen.Spell(decode(i/nd)) + " on " + ref.Canon(scopeDocs[i%nd]) },
		Do: func(i int, t *mon.Tally) {
			tree := decode(i / nd)
			doc := scopeDocs[i%nd]
			expr := gen.SpellTight(tree)
			cx := &caseCtx{r, t, "scope-semantic", i}
			res, _, _ := cx.runOne(tree, expr, doc)
			np := 0
			for _, s := range tree.Steps {
				if s.IsProjection() {
					np++
				}
			}
			if np >= 1 && len(tree.Steps) >= 3 && nonNull(res) {
				t.Nontrivial("scope:" + expr + ref.Canon(doc))
				t.Count("scope cases with a projection, >= 3 steps and a non-null expected result")
			}
		}})
	// a pipe ends every projection, however deeply the projections are nested and whatever follows the pipe:
	// chain1 | chain2 through all entry points (a rewrite of the finished tree in Compile shows only there)
	S1 := S + S*S + S*S*S
	S2 := S + S*S
	decodeN := func(i, maxn int) []gen.Step {
		n, block := 1, S
		for i >= block {
			i -= block
			block *= S
			n++
		}
		steps := make([]gen.Step, n)
		for k := n - 1; k >= 0; k-- {
			steps[k] = scopeSteps[i%S]
			i /= S
		}
		return steps
	}
	pipeTree := func(i int) *gen.Expr {
		head := i % 2
		i /= 2
		right := gen.Chain(nil, decodeN(i%S2, 2)...)
		left := decodeN(i/S2, 3)
		if head == 0 {
			return gen.Pipe(gen.Chain(gen.Field("a"), left...), right)
		}
		return gen.Pipe(gen.Chain(nil, left...), right)
	}
	ws = append(ws, mon.Workload{Name: "pipe-ends-projections", N: S1 * S2 * 2, Batch: 4000,
		Describe: func(i int) string { return gen.Spell(pipeTree(i)) + " on " + ref.Canon(scopeDocs[(i/2)%nd]) },
		Do: func(i int, t *mon.Tally) {
			tree := pipeTree(i)
			doc := scopeDocs[(i/2+i/7)%nd]
			expr := gen.SpellTight(tree)
			cx := &caseCtx{r, t, "pipe-ends-projections", i}
			res, _, _ := cx.runBoth(tree, expr, doc)
			if nonNull(res) && gen.HasProjection(tree) {
				t.Nontrivial("pipe:" + expr + ref.Canon(doc))
				t.Count("pipe cases with a projection and a non-null expected result")
			}
		}})
	// redundant parentheses at any depth: (((…e…))) is e, for every entry point
	depths := []int{1, 2, 3, 8, 16, 31, 32, 33, 63, 64, 65, 100, 126, 127, 128, 129, 200, 255, 256, 257, 500, 1000}
	if r.Tier == "thorough" {
		depths = append(depths, 1023, 1024, 1025, 4000, 10000)
	}
	nbase := tierPick(r, 120, 1200)
	ws = append(ws, mon.Workload{Name: "deep-redundant-parentheses", N: nbase * len(depths), Batch: 200,
		Do: func(i int, t *mon.Tally) {
			tree := small.At((i / len(depths) * 7919) % small.Len())
			d := depths[i%len(depths)]
			base := gen.Spell(tree)
			want, o := parseSexpr(base)
			t.Eval()
			if o.Panicked || o.Err != nil {
				return // reported by the structural workload
			}
			toks := gen.Tokens(tree, gen.Min)
			inner := ""
			// parenthesise the whole expression d times, and (second form) its first operand d times when
			// that operand is a plain atom
			forms := []string{strings.Repeat("(", d) + base + strings.Repeat(")", d)}
			if len(toks) > 1 && (toks[0] == "a" || toks[0] == "b" || toks[0] == "@") && toks[1] != "(" {
				inner = strings.Repeat("(", d) + toks[0] + strings.Repeat(")", d) + " " + strings.Join(toks[1:], " ")
				forms = append(forms, inner)
			}
			// every other operand that is a plain atom (not a member name behind a dot, not a function name), d times
			for k := 1; k < len(toks); k++ {
				if (toks[k] == "a" || toks[k] == "b" || toks[k] == "@" || toks[k] == "`1`") && toks[k-1] != "." && (k+1 == len(toks) || toks[k+1] != "(") && (i/len(depths)+k)%3 == 0 {
					forms = append(forms, strings.Join(toks[:k], " ")+" "+strings.Repeat("(", d)+toks[k]+strings.Repeat(")", d)+" "+strings.Join(toks[k+1:], " "))
				}
			}
			// the parenthesised expression inside each bracketing construct: the construct's own AST around that of the bare expression
			wrapped := strings.Repeat("(", d) + base + strings.Repeat(")", d)
			ctxs := [][2]string{{"[", "]"}, {"[ a , ", " ]"}, {"{ k : ", " }"}, {"{ k : a , j : ", " }"}, {"a [? ", " ]"}, {"[? ", " ] . b"}, {"not_null ( ", " )"}, {"not_null ( a , ", " , b )"}, {"map ( & ", " , a )"}, {"[ { k : [? ", " ] } ]"}, {"a [ * ] . [ ", " ]"}, {"a . { k : ", " }"}, {"! ", ""}, {"a || ", " || b"}, {"a | ", ""}}
			cx := ctxs[(i/len(depths))%len(ctxs)]
			if wantC, oc := parseSexpr(cx[0] + "( " + base + " )" + cx[1]); !oc.Panicked && oc.Err == nil {
				f := cx[0] + wrapped + cx[1]
				sx, o := parseSexpr(f)
				if o.Panicked || o.Err != nil || sx != wantC {
					obs := sx
					if o.Panicked || o.Err != nil {
						obs = o.String()
					}
					r.Violate(&mon.Violation{Workload: "deep-redundant-parentheses", Index: i, API: "Parse", Expr: brief(f),
						Expected: "the AST of " + cx[0] + "( " + base + " )" + cx[1] + " (" + strconv.Itoa(d) + " redundant parentheses inside a bracketing construct change nothing): " + wantC, Observed: obs,
						Class: "deep-redundant-parentheses: Parse inside a bracketing construct"})
					return
				}
				if _, co := apiCompile(f); co.Panicked || co.Err != nil {
					r.Violate(&mon.Violation{Workload: "deep-redundant-parentheses", Index: i, API: "Compile", Expr: brief(f),
						Expected: "compiles like " + cx[0] + "( " + base + " )" + cx[1], Observed: co.String(), Class: "deep-redundant-parentheses: Compile inside a bracketing construct"})
					return
				}
				t.Count("deeply parenthesised spellings inside a bracketing construct")
			}
			for _, f := range forms {
				sx, o := parseSexpr(f)
				if o.Panicked || o.Err != nil || sx != want {
					obs := sx
					if o.Panicked || o.Err != nil {
						obs = o.String()
					}
					r.Violate(&mon.Violation{Workload: "deep-redundant-parentheses", Index: i, API: "Parse", Expr: brief(f),
						Expected: "the AST of " + base + " (" + strconv.Itoa(d) + " redundant parentheses change nothing): " + want, Observed: obs,
						Class: "deep-redundant-parentheses: Parse"})
					return
				}
				jp, co := apiCompile(f)
				if co.Panicked || co.Err != nil {
					r.Violate(&mon.Violation{Workload: "deep-redundant-parentheses", Index: i, API: "Compile", Expr: brief(f),
						Expected: "compiles like " + base, Observed: co.String(), Class: "deep-redundant-parentheses: Compile"})
					return
				}
				if got := jmespath.VerifSexpr(jmespath.VerifAST(jp)); got != want {
					r.Violate(&mon.Violation{Workload: "deep-redundant-parentheses", Index: i, API: "Compile", Expr: brief(f),
						Expected: want, Observed: got, Class: "deep-redundant-parentheses: compiled AST"})
					return
				}
			}
			t.Count("deeply parenthesised spellings with the AST of the bare expression")
			t.Nontrivial("deep:" + strconv.Itoa(d) + ":" + base)
		}})
	// white space and redundant parentheses change nothing - also for what recognises an expression from its
	// text (short cuts for "simple" expressions), on every kind of document (JSON, maps holding Go structs,
	// struct roots, pointers) and through every entry point
	pths := [][]string{{"a"}, {"a", ".", "b"}, {"a", ".", "b", ".", "c"}, {"a", "[", "0", "]", ".", "b"}, {"a", ".", "b", "[", "0", "]"}, {"a", ".", "*"}, {"a", "[", "*", "]", ".", "b"}, {"a", "|", "b"}, {"a", ".", "b", "|", "c"},
		{"metadata", ".", "name"}, {"metadata", ".", "labels", ".", "app"}, {"items", "[", "0", "]", ".", "name"}, {"items", "[", "*", "]", ".", "name"}, {"length", "(", "items", ")"}, {"metadata", ".", "Name"}}
	type meta struct {
		Name   string
		Labels map[string]interface{}
	}
	type item struct{ Name string }
	repDocs := []func() interface{}{
		func() interface{} {
			return docs.J(`{"a":{"b":{"c":1}},"metadata":{"name":"web","Name":"Web","labels":{"app":"x"}},"items":[{"name":"i0"}]}`)
		},
		func() interface{} {
			return map[string]interface{}{"a": map[string]interface{}{"b": []interface{}{float64(1)}}, "metadata": meta{Name: "web", Labels: map[string]interface{}{"app": "x"}}, "items": []item{{"i0"}, {"i1"}}}
		},
		func() interface{} {
			return map[string]interface{}{"a": []interface{}{map[string]interface{}{"b": "x"}}, "metadata": &meta{Name: "ptr"}, "items": []*item{{"p0"}, nil}}
		},
		func() interface{} {
			return struct {
				A        map[string]interface{}
				Metadata meta
				Items    []item
			}{map[string]interface{}{"b": map[string]interface{}{"c": true}}, meta{Name: "root"}, []item{{"r0"}}}
		},
	}
	ws = append(ws, mon.Workload{Name: "spellings-on-every-representation", N: len(pths) * len(repDocs),
		Do: func(i int, t *mon.Tally) {
			toks := pths[i/len(repDocs)]
			mk := repDocs[i%len(repDocs)]
			rng := gen.DeriveN(r.Seed, "c03rep", i)
			spellings := []string{gen.JoinTight(toks), strings.Join(toks, " "), gen.JoinWS(toks, rng), "(" + gen.JoinTight(toks) + ")", "( " + strings.Join(toks, " ") + " )"}
			var first string
			for k, sp := range spellings {
				for q, o := range []mon.Observed{apiSearch(sp, mk()), apiCompiledSearch(sp, mk())} {
					t.Eval()
					got := "error"
					if o.Panicked {
						got = "PANIC " + o.Panic
					} else if o.Err == nil {
						got = mon.Snapshot(docs.ToGeneric(o.V, false))
					}
					if k == 0 && q == 0 {
						first = got
						continue
					}
					if got != first {
						r.Violate(&mon.Violation{Workload: "spellings-on-every-representation", Index: i, API: []string{"Search", "Compile+Search"}[q], Expr: sp, DocDesc: clipStr(mon.Snapshot(mk()), 500),
							Expected: "the answer of the no-space spelling " + spellings[0] + " through one-shot Search: " + clipStr(first, 300), Observed: clipStr(got, 300), Class: "spelling or entry point changes the answer"})
						return
					}
				}
			}
			t.Nontrivial("rep:" + spellings[0] + strconv.Itoa(i%len(repDocs)))
		}})
	// long runs of one binary operator (and of mixed ones): a run of n operands groups to the left however long it is - the same
	// syntax tree as the fully parenthesised spelling, and the value the grouping gives on operands that are all false-like
	runOps := []string{"||", "&&", "|", "==", "!=", "<", ".", "||&&", "&&||", "|||"}
	runLens := []int{2, 3, 4, 5, 6, 7, 8, 9, 10, 11, 12, 15, 16, 17, 31, 32, 33, 63, 64, 65, 100, 129}
	runDoc := docs.J(`{"p":"","q":[],"r":{},"s":null,"t":false,"u":0,"a":{"a":{"a":{"a":1}}}}`)
	runNames := []string{"p", "q", "r", "s", "q", "p", "r", "t"}
	ws = append(ws, mon.Workload{Name: "long-runs-of-one-operator", N: len(runOps) * len(runLens) * 3, Batch: 50,
		Do: func(i int, t *mon.Tally) {
			op, n, last := runOps[i/3/len(runLens)], runLens[i/3%len(runLens)], []string{"t", "u", "s"}[i%3]
			var tree *gen.Expr
			for k := 0; k < n; k++ {
				name := runNames[k%len(runNames)]
				if k == n-1 {
					name = last
				}
				if op == "." {
					name = "a"
				}
				leaf := gen.Field(name)
				if tree == nil {
					tree = leaf
					continue
				}
				o := op
				switch op {
				case "||&&":
					o = []string{"||", "&&"}[k%2]
				case "&&||":
					o = []string{"&&", "||"}[k%2]
				case "|||":
					o = []string{"|", "||", "||"}[k%3]
				}
				switch o {
				case "||":
					tree = gen.Or(tree, leaf)
				case "&&":
					// (&& binds tighter than ||: in a mixed run the tree built here is the left-to-right one only where the table says so; the
					// speller parenthesises the rest, which is what makes the two spellings one tree)
					tree = gen.And(tree, leaf)
				case "|":
					tree = gen.Pipe(tree, gen.Current())
				case ".":
					tree = gen.Chain(tree, gen.StField("a"))
				default:
					tree = gen.Cmp(o, tree, leaf)
				}
			}
			c03Structural(r, t, "long-runs-of-one-operator", i, tree)
			cx := &caseCtx{r, t, "long-runs-of-one-operator", i}
			cx.runBoth(tree, gen.Spell(tree), runDoc)
			t.Nontrivial("run:" + strconv.Itoa(i))
		}})
	// operands that are CALLED true, false and null (JMESPath has no keywords: written bare they are member names in every position),
	// and a bare star as the only member of a dotted multi-select: each spelled minimally, fully parenthesised and with white space
	{
		kw := func(n string) *gen.Expr { return &gen.Expr{K: gen.KField, Name: n} }
		names := []string{"true", "false", "null", "not", "and", "or"}
		var kts []*gen.Expr
		for _, x := range names {
			for _, y := range names {
				for _, op := range []string{"==", "!=", "<", "<=", ">", ">="} {
					kts = append(kts, gen.Cmp(op, kw(x), kw(y)), gen.Cmp(op, gen.Field("a"), kw(y)), gen.Cmp(op, kw(x), gen.Field("a")), gen.Chain(gen.Field("a"), gen.StFilter(gen.Cmp(op, gen.Field("b"), kw(y)))),
						gen.Cmp(op, gen.Chain(kw(x), gen.StField("a")), gen.Chain(gen.Field("a"), gen.Step{K: gen.SField, Name: y})), gen.Or(gen.Cmp(op, gen.Field("a"), kw(y)), kw(x)), gen.Not(gen.Cmp(op, kw(x), kw(y))))
				}
				kts = append(kts, gen.Or(kw(x), kw(y)), gen.And(kw(x), kw(y)), gen.Pipe(kw(x), kw(y)), gen.Chain(kw(x), gen.Step{K: gen.SField, Name: y}), gen.MultiList(kw(x), kw(y)), gen.Func("not_null", kw(x), kw(y)),
					gen.MultiHash([]gen.Key{{Name: x}}, []*gen.Expr{kw(y)}), gen.Chain(kw(x), gen.StFilter(kw(y))), gen.Chain(kw(x), gen.StIndex(0), gen.Step{K: gen.SField, Name: y}), gen.Func("sort_by", kw(x), gen.ExpRef(kw(y))))
			}
			kts = append(kts, kw(x), gen.Not(kw(x)), gen.Chain(kw(x), gen.StListStar()), gen.Chain(kw(x), gen.StStar()), gen.Func("length", kw(x)),
				gen.Chain(kw(x), gen.StIndex(0)), gen.Chain(kw(x), gen.StFilter(gen.Current())), gen.Chain(kw(x), gen.StFlatten()), gen.Chain(kw(x), gen.StSliceS("1", "", "")), gen.Chain(gen.Paren(kw(x)), gen.StIndex(0)), gen.Chain(gen.Field("a"), gen.Step{K: gen.SField, Name: x}, gen.StIndex(0)),
				gen.MultiList(kw(x), gen.Chain(kw(x), gen.StIndex(0))), gen.Pipe(kw(x), gen.Chain(nil, gen.StIndex(0))), gen.Or(kw(x), gen.Chain(nil, gen.StIndex(0))))
		}
		// a star in positions where it is an expression of its own
		star := func() *gen.Expr { return gen.Chain(nil, gen.StStar()) }
		kts = append(kts, gen.Chain(gen.Field("a"), gen.StMultiList(star())), gen.Chain(gen.Field("a"), gen.StListStar(), gen.StMultiList(star())), gen.Chain(gen.Field("a"), gen.StMultiList(star(), gen.Field("b"))), gen.Chain(gen.Field("a"), gen.StMultiList(gen.Field("b"), star())),
			gen.MultiList(star()), gen.MultiList(star(), star()), gen.Chain(gen.Field("a"), gen.StMultiHash(keyA("k"), []*gen.Expr{star()})), gen.Func("length", star()), gen.Func("not_null", star(), gen.Field("a")), gen.Or(star(), gen.Field("a")), gen.Cmp("==", star(), star()),
			gen.Chain(gen.Field("a"), gen.StFilter(star())), gen.Pipe(gen.Field("a"), star()), gen.Not(star()), gen.Chain(gen.Field("a"), gen.StMultiList(gen.Chain(nil, gen.StStar(), gen.StField("b")))), gen.Func("map", gen.ExpRef(star()), gen.Field("a")),
			// parenthesised arguments in front of an expression reference
			gen.Func("sort_by", gen.Paren(gen.Field("a")), gen.ExpRef(gen.Field("b"))), gen.Func("map", gen.ExpRef(gen.Paren(gen.Field("a"))), gen.Paren(gen.Field("b"))), gen.Func("max_by", gen.Paren(gen.Or(gen.Field("a"), gen.Field("b"))), gen.ExpRef(gen.Field("b"))),
			gen.Func("not_null", gen.Paren(gen.Field("a")), gen.Func("sort_by", gen.Field("a"), gen.ExpRef(gen.Field("b")))), gen.Func("sort_by", gen.Func("to_array", gen.Paren(gen.Field("a"))), gen.ExpRef(gen.Paren(gen.Field("b")))))
		kwDoc := docs.J(`{"not":[7,8],"and":[[1],2],"or":{"a":[3]},"true":[{"a":1,"true":2},{"a":2,"null":1}],"false":{"a":0,"false":"f"},"null":1,"a":[{"b":1,"true":1},{"b":null,"c":2}],"b":1}`)
		ws = append(ws, mon.Workload{Name: "operands-called-true-false-null-and-bare-stars", N: len(kts), Batch: 100,
			Do: func(i int, t *mon.Tally) {
				c03Structural(r, t, "operands-called-true-false-null-and-bare-stars", i, kts[i])
				cx := &caseCtx{r, t, "operands-called-true-false-null-and-bare-stars", i}
				cx.runBoth(kts[i], gen.Spell(kts[i]), kwDoc)
				t.Nontrivial("kw:" + strconv.Itoa(i))
			}})
	}
	// white space is insignificant BETWEEN tokens only: two expressions that differ in the white space inside a raw string, a quoted
	// identifier or a literal - also behind an escaped delimiter inside it - are different expressions, whichever was searched first
	{
		inner := [][2]string{{"it's late", "it's  late"}, {"a'b c", "a'b\tc"}, {"x 'y' z", "x 'y'  z"}, {"p\"q r", "p\"q  r"}, {"m`n o", "m`n  o"}, {"one two", "one  two"}, {"tail ", "tail  "}, {" lead", "  lead"}, {"a\\' b", "a\\'  b"}, {"nl\nx", "nl\n x"}}
		ws = append(ws, mon.Workload{Name: "white-space-inside-lexemes-is-significant", N: len(inner) * 3 * 2, Batch: 10,
			Do: func(i int, t *mon.Tally) {
				pr := inner[i/6]
				if i%2 == 1 {
					pr = [2]string{pr[1], pr[0]}
				}
				mk := func(sv string) *gen.Expr {
					switch i / 2 % 3 {
					case 0:
						if !gen.RawSpellable(sv) {
							return gen.Cmp("==", gen.Field("title"), gen.LitVal(sv))
						}
						return gen.Cmp("==", gen.Field("title"), gen.Raw(sv))
					case 1:
						return gen.QField(sv)
					default:
						return gen.MultiList(gen.LitVal(sv), gen.LitVal(map[string]interface{}{sv: sv}))
					}
				}
				doc := map[string]interface{}{"title": pr[1], pr[0]: "first", pr[1]: "second"}
				cx := &caseCtx{r, t, "white-space-inside-lexemes-is-significant", i}
				for _, sv := range []string{pr[0], pr[1], pr[0], pr[1]} {
					tree := mk(sv)
					if _, _, ok := cx.runBoth(tree, gen.Spell(tree), doc); !ok {
						return
					}
				}
				t.Nontrivial("wsin:" + strconv.Itoa(i))
			}})
		// a Parser used for an expression that ends inside a raw string / quoted identifier / literal, then for a good one
		bads := []string{"name == 'it\\'s", "'a\\'b\\'", "\"q\\\"r", "`\"x\\`y", "'open", "a.'r\\'", "[ 'x\\'y', 'z\\'"}
		goods := []*gen.Expr{gen.Cmp("==", gen.Field("name"), gen.Raw("bob")), gen.MultiList(gen.Raw("a'b"), gen.Raw("c")), gen.Raw("it's"), gen.QField("k k"), gen.LitJSON(`"lit"`), gen.Func("join", gen.Raw("'"), gen.MultiList(gen.Raw("x"), gen.Raw("y'z")))}
		ws = append(ws, mon.Workload{Name: "a-parser-used-after-an-expression-that-ends-inside-a-lexeme", N: len(bads) * len(goods), Batch: 10,
			Do: func(i int, t *mon.Tally) {
				bad, good := bads[i/len(goods)], goods[i%len(goods)]
				ge := gen.Spell(good)
				want, ow := parseSexpr(ge)
				t.Eval()
				if ow.Panicked || ow.Err != nil {
					return
				}
				var got, again string
				o := mon.Guard(func() (interface{}, error) {
					p := jmespath.NewParser()
					p.Parse(bad)
					a, err := p.Parse(ge)
					if err != nil {
						return nil, err
					}
					got = jmespath.VerifSexpr(a)
					p.Parse(bad)
					p.Parse(bad)
					b, err := p.Parse(ge)
					if err != nil {
						return nil, err
					}
					again = jmespath.VerifSexpr(b)
					return nil, nil
				})
				if o.Panicked || o.Err != nil || got != want || again != want {
					r.Violate(&mon.Violation{Workload: "a-parser-used-after-an-expression-that-ends-inside-a-lexeme", Index: i, API: "Parser.Parse", Expr: bad + "   then   " + ge,
						Expected: "the tree a fresh Parser gives for the second expression: " + want, Observed: got + " / " + again + " " + o.String(), Class: "a reused Parser parses differently after a failed parse"})
					return
				}
				t.Nontrivial("pbad:" + strconv.Itoa(i))
			}})
	}
	// a syntax tree belongs to whoever asked for it: parsing the next expression on the same Parser does not change a tree handed
	// out earlier (every ordered pair of 60 small operator trees, the first tree rendered again after the second parse)
	pairN := 60
	ws = append(ws, mon.Workload{Name: "syntax-trees-handed-out-earlier-stay-what-they-were", N: pairN * pairN, Batch: 200,
		Do: func(i int, t *mon.Tally) {
			t1 := small.At(((i / pairN) * 7919) % small.Len())
			t2 := small.At(((i%pairN)*104729 + 13) % small.Len())
			e1, e2 := gen.Spell(t1), gen.Spell(t2)
			want1, o1 := parseSexpr(gen.SpellFull(t1))
			t.Eval()
			if o1.Panicked || o1.Err != nil {
				return // (reported by the structural workload)
			}
			var got1, got1later, got2 string
			o := mon.Guard(func() (interface{}, error) {
				p := jmespath.NewParser()
				a1, err := p.Parse(e1)
				if err != nil {
					return nil, err
				}
				got1 = jmespath.VerifSexpr(a1)
				a2, err := p.Parse(e2)
				if err != nil {
					return nil, err
				}
				got2 = jmespath.VerifSexpr(a2)
				_, _ = p.Parse("a[")
				got1later = jmespath.VerifSexpr(a1)
				return nil, nil
			})
			want2, _ := parseSexpr(gen.SpellFull(t2))
			if o.Panicked || o.Err != nil || got1 != want1 || got2 != want2 || got1later != want1 {
				r.Violate(&mon.Violation{Workload: "syntax-trees-handed-out-earlier-stay-what-they-were", Index: i, API: "Parser.Parse", Expr: e1 + "   then   " + e2,
					Expected: "the first tree, rendered again after the second parse: " + want1 + "; the second: " + want2, Observed: "first at once: " + got1 + "; first later: " + got1later + "; second: " + got2 + " " + o.String(), Class: "a syntax tree handed out earlier changed (or a reused Parser groups differently)"})
				return
			}
			t.Nontrivial("pair:" + strconv.Itoa(i))
		}})
	// workloads that look for state a PROCESS keeps between one-shot searches run first: a store that stops taking entries once it
	// is full (after a few hundred expressions) would otherwise be full before they start
	for k, w := range ws {
		if w.Name == "white-space-inside-lexemes-is-significant" {
			ws = append(append([]mon.Workload{w}, ws[:k]...), ws[k+1:]...)
			break
		}
	}
	r.Exec(ws...)
}
