// Package docs holds E4 of DESIGN.md: JSON document universes, seeded random
// documents, hostile documents, and (structs.go) the Go-struct family of C18.
package docs

import (
	"encoding/json"
	"strings"

	"verifharness/gen"
)

// J decodes JSON text into a Go JSON value; it panics on bad text (harness bug).
func J(text string) interface{} {
	var v interface{}
	dec := json.NewDecoder(strings.NewReader(text))
	if err := dec.Decode(&v); err != nil {
		panic("docs.J: " + err.Error() + " in " + text)
	}
	return v
}

// Keys is the key alphabet shared by expression and document generators, so
// that look-ups hit.
var Keys = []string{"a", "b", "c", "", "é", "k k"}

// U is the operand universe: every JSON type, emptiness class and one level
// of nesting.
var uTexts = []string{
	`null`, `true`, `false`, `0`, `1`, `-1`, `1.5`, `1e3`,
	`""`, `"a"`, `"b"`, `"0"`, `"false"`, `"é"`, `"[1,2]"`, `"{\"a\":1}"`,
	`[]`, `[0]`, `[null]`, `[[]]`, `[1,"a"]`, `["a","b"]`,
	`{}`, `{"a":null}`, `{"a":1}`, `{"a":{"b":[1,2]}}`,
}

// UTexts returns the JSON texts of the operand universe.
func UTexts() []string { return append([]string(nil), uTexts...) }

// U returns fresh copies of the operand universe values.
func U() []interface{} {
	out := make([]interface{}, len(uTexts))
	for i, t := range uTexts {
		out[i] = J(t)
	}
	return out
}

// Rand generates random JSON values.
type Rand struct {
	R        *gen.Rand
	MaxDepth int
	MaxWidth int
	Keys     []string
	Strings  []string
	Numbers  []float64
}

func NewRand(r *gen.Rand) *Rand {
	return &Rand{R: r, MaxDepth: 4, MaxWidth: 4, Keys: Keys,
		Strings: []string{"", "a", "b", "ab", "0", "é", "😀", "false", "10"},
		Numbers: []float64{0, 1, -1, 2, 3, 1.5, -0.5, 10, 1e3, 16777217, 123456789}}
}

func (g *Rand) Value(depth int) interface{} {
	r := g.R
	k := r.Intn(10)
	if depth >= g.MaxDepth && k >= 6 {
		k = r.Intn(6)
	}
	switch k {
	case 0:
		return nil
	case 1:
		return r.Bool()
	case 2, 3:
		return gen.Pick(r, g.Numbers)
	case 4, 5:
		return gen.Pick(r, g.Strings)
	case 6, 7:
		return g.Array(depth)
	default:
		return g.Object(depth)
	}
}

func (g *Rand) Array(depth int) []interface{} {
	n := g.R.Intn(g.MaxWidth + 1)
	out := make([]interface{}, n)
	for i := range out {
		out[i] = g.Value(depth + 1)
	}
	return out
}

func (g *Rand) Object(depth int) map[string]interface{} {
	n := g.R.Intn(g.MaxWidth + 1)
	out := make(map[string]interface{}, n)
	for i := 0; i < n; i++ {
		out[gen.Pick(g.R, g.Keys)] = g.Value(depth + 1)
	}
	return out
}

// Doc returns a random document that is an object or array at the top more
// often than a scalar.
func (g *Rand) Doc() interface{} {
	switch g.R.Intn(8) {
	case 0:
		return g.Value(0)
	case 1, 2:
		return g.Array(0)
	default:
		return g.Object(0)
	}
}

// CoreDocs is the 40-document universe of C01: every key of the alphabet
// holds each of the six JSON types at least once, at depth 0–2.
func CoreDocs() []interface{} {
	texts := []string{
		`null`, `true`, `0`, `"a"`, `[]`, `{}`, `"[1,2,3]"`, `"{\"a\":{\"b\":1}}"`,
		`[1,2,3]`, `[[1,2],[3]]`, `["a",null,{"a":1}]`, `[{"a":1},{"a":2},{"b":3}]`,
		`{"a":null}`, `{"a":true}`, `{"a":1}`, `{"a":"s"}`, `{"a":[1,2,3]}`, `{"a":{"b":1}}`,
		`{"b":null}`, `{"b":false}`, `{"b":-1.5}`, `{"b":""}`, `{"b":[[1],[2,3]]}`, `{"b":{"a":{"c":[0]}}}`,
		`{"a":1,"b":2,"c":3}`, `{"a":{"a":{"a":1}}}`, `{"a":[{"b":1},{"b":2}],"b":[0,1]}`,
		`{"":1,"é":2,"k k":3}`, `{"":{"":[1]},"é":{"é":"x"}}`, `{"k k":[1,[2,[3]]]}`,
		`{"a":{"b":{"c":null}}}`, `{"a":[null,null]}`, `{"a":"a","b":"b","c":"c"}`,
		`{"a":[],"b":{},"c":""}`, `{"a":false,"b":0,"c":null}`, `{"c":[1,"a",true,null,[],{}]}`,
		`[[],{},"",0,false,null]`, `[{"a":[1,2]},{"a":[3]},{"a":null}]`, `{"a":{"b":[{"c":1},{"c":2}]}}`,
		`{"a":[[1,2],[3,4]],"b":[[5]]}`, `[null]`, `{"a":{"":"empty"},"b":{"k k":1}}`,
	}
	out := make([]interface{}, len(texts))
	for i, t := range texts {
		out[i] = J(t)
	}
	return out
}

// ProjDocs is the projection universe of C02.
func ProjDocs() []interface{} {
	texts := []string{
		`null`, `1`, `"a"`, `[]`, `{}`, `"[1, null, 2]"`, `"{\"a\":[1,2]}"`, `{"a":"[{\"a\":1},[2]]"}`,
		`[null,null]`, `[1,"a",null,[],{}]`, `[{"a":1},{"a":null},{"b":2},{"a":0}]`,
		`[{"a":{"b":1}},{"a":{"b":null}},{"a":{}},{}]`,
		`[[1,2],[3],[]]`, `[[1,[2]],[[3]],4,[null]]`, `[[[1]],[[2,3]],[[]]]`,
		`[{"a":[1,2]},{"a":[3]},{"a":[]},{"a":null}]`,
		`[{"a":[{"b":1},{"b":2}]},{"a":[{"b":3}]}]`,
		`[{"a":[[1,2],[3]],"b":[0]},{"a":[[4]],"b":[]}]`,
		`{"a":[1,2,3]}`, `{"a":[]}`, `{"a":null}`, `{"a":"str"}`, `{"a":{"x":1,"y":2}}`,
		`{"a":[{"a":1,"b":[1,2]},{"a":2,"b":[3]},{"a":null,"b":null}]}`,
		`{"a":{"x":{"b":1},"y":{"b":2}}}`, `{"a":{"x":{"b":{"c":1}},"y":{"b":{"c":2}}}}`,
		`{"a":{"x":null,"y":1}}`, `{"a":{"x":[1,2],"y":[3]}}`,
		`{"x":{"a":1},"y":{"a":null},"z":{"b":1}}`, `{"x":1}`, `{"x":null}`, `{"x":[1],"y":[2,3]}`,
		`{"a":[{"a":[{"a":1}]},{"a":[{"a":2},{"a":3}]}]}`,
		`{"a":[[{"b":1}],[{"b":2},{"b":null}]]}`,
		`{"a":[true,false,null,0,"",[],{}]}`, `{"a":[{"a":true},{"a":false},{"a":""},{"a":"x"},{"a":[]},{"a":[0]}]}`,
		`{"a":{"b":[{"c":[1,2]},{"c":[3]}]},"b":[{"a":1}]}`,
		`[{"a":{"x":1,"y":null}},{"a":{"x":2}}]`,
		`{"a":[1,null,2],"b":[null,1]}`, `[1,null,2,null,3]`, `{"a":[null,"x",null],"b":"x"}`,
	}
	out := make([]interface{}, len(texts))
	for i, t := range texts {
		out[i] = J(t)
	}
	return out
}

// TypedDoc generates a document of the typed family used by the random
// expression generator (gen.TypedKeys): an object whose keys hold values of
// known types, recursively ("o" nests another typed object, "ao" is an
// array of typed objects), so that generated look-ups and function calls
// are mostly well-typed. Some keys are randomly missing or null.
func (g *Rand) TypedDoc(depth int) map[string]interface{} {
	r := g.R
	nums := []float64{0, 1, -1, 2, 3, 1.5, -0.5, 10, 2, 1, 16777217, 123456789}
	strs := []string{"", "a", "b", "ab", "ba", "é", "10", "z", "a"}
	d := map[string]interface{}{}
	put := func(k string, v func() interface{}) {
		switch r.Intn(12) {
		case 0: // missing
		case 1:
			d[k] = nil
		default:
			d[k] = v()
		}
	}
	put("n", func() interface{} { return gen.Pick(r, nums) })
	put("m", func() interface{} { return gen.Pick(r, nums) })
	put("s", func() interface{} { return gen.Pick(r, strs) })
	put("t", func() interface{} { return gen.Pick(r, strs) })
	put("b", func() interface{} { return r.Bool() })
	d["z"] = nil
	long := 0
	if depth == 0 && r.Chance(1, 12) {
		long = 17 + r.Intn(50) // beyond the small-input fast paths of sorting and searching code
	}
	put("an", func() interface{} {
		n := r.Intn(5) + long
		a := make([]interface{}, n)
		for i := range a {
			a[i] = gen.Pick(r, nums)
		}
		return a
	})
	put("as", func() interface{} {
		n := r.Intn(5) + long
		a := make([]interface{}, n)
		for i := range a {
			a[i] = gen.Pick(r, strs)
		}
		return a
	})
	put("am", func() interface{} { return g.Array(g.MaxDepth - 1) })
	put("aa", func() interface{} {
		n := r.Intn(4)
		a := make([]interface{}, n)
		for i := range a {
			if r.Chance(1, 5) {
				a[i] = g.Value(g.MaxDepth)
			} else {
				m := r.Intn(3)
				b := make([]interface{}, m)
				for j := range b {
					b[j] = gen.Pick(r, nums)
				}
				a[i] = b
			}
		}
		return a
	})
	if depth < 2 {
		put("o", func() interface{} { return g.TypedDoc(depth + 1) })
		put("ao", func() interface{} {
			n := r.Intn(4)
			if long > 0 {
				// many small objects (not full typed documents: keeps the document size moderate)
				a := make([]interface{}, long)
				for i := range a {
					a[i] = map[string]interface{}{"n": gen.Pick(r, nums), "s": gen.Pick(r, strs), "m": float64(i % 3), "an": []interface{}{gen.Pick(r, nums)}}
				}
				return a
			}
			a := make([]interface{}, n)
			for i := range a {
				if r.Chance(1, 8) {
					a[i] = g.Value(g.MaxDepth)
				} else {
					a[i] = g.TypedDoc(depth + 1)
				}
			}
			return a
		})
	} else {
		d["o"] = map[string]interface{}{"n": gen.Pick(r, nums), "s": gen.Pick(r, strs)}
		d["ao"] = []interface{}{map[string]interface{}{"n": gen.Pick(r, nums), "s": gen.Pick(r, strs)}, map[string]interface{}{"n": gen.Pick(r, nums), "s": gen.Pick(r, strs)}}
	}
	for _, k := range []string{"a", "c", "x"} {
		if r.Chance(1, 2) {
			d[k] = g.Value(g.MaxDepth - 1)
		}
	}
	return d
}
