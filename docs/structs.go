package docs

import (
	"reflect"
	"unicode"
	"unicode/utf8"

	"verifharness/gen"
)

// The Go-struct document family of C18: leaf structs with string / float64 /
// bool fields; nodes holding leaves by value, by pointer (nil and non-nil),
// typed slices of structs / pointers / strings / float64, and an
// interface{} field. Leaf scalar types are exactly those JSON has, so the
// "equivalent JSON document" is unambiguous.

type Leaf struct {
	S string
	F float64
	B bool
}

// Uni has field names whose first letter is not ASCII (reachable only as quoted identifiers; the
// first letter is still matched after upper-casing it).
type Uni struct {
	Élan  string
	Ñu    float64
	Ωmega bool
	Z     string
}

type Inner struct {
	Name    string
	Num     float64
	Flag    bool
	Leaf    Leaf
	PLeaf   *Leaf
	Tags    []string
	Nums    []float64
	Leaves  []Leaf
	PLeaves []*Leaf
}

type Outer struct {
	ID    string
	Count float64
	On    bool
	In    Inner
	PIn   *Inner
	Ins   []Inner
	PIns  []*Inner
	Strs  []string
	Flts  []float64
	Any   interface{}
	Grid  [][]float64
	Uni   Uni
	PUni  *Uni
}

// Embedding and an unexported field: outside the equivalence family, used by
// the no-panic part only.
type Base struct {
	BaseName string
	BaseNum  float64
}

type WithEmbedded struct {
	*Base
	Leaf
	Title string
	_u    string
	lower float64
}

// StructFieldNames lists every field name of the family (capitalised).
var StructFieldNames = []string{"S", "F", "B", "Name", "Num", "Flag", "Leaf", "PLeaf", "Tags", "Nums", "Leaves", "PLeaves",
	"ID", "Count", "On", "In", "PIn", "Ins", "PIns", "Strs", "Flts", "Any", "Grid", "Uni", "PUni", "Élan", "Ñu", "Ωmega", "Z"}

func lowerFirst(s string) string {
	r, n := utf8.DecodeRuneInString(s)
	return string(unicode.ToLower(r)) + s[n:]
}

// KeyName spells a field name in the chosen capitalisation.
func KeyName(field string, lower bool) string {
	if lower {
		return lowerFirst(field)
	}
	return field
}

// ToGeneric converts a value of the family (or any result built from it) to
// its JSON-equivalent generic form: struct -> map keyed by field name (first
// letter lower-cased if lower), nil pointer -> null, pointer -> pointee,
// typed slice -> []interface{}. Unexported fields are omitted.
func ToGeneric(v interface{}, lower bool) interface{} {
	return toGeneric(reflect.ValueOf(v), lower)
}

func toGeneric(v reflect.Value, lower bool) interface{} {
	if !v.IsValid() {
		return nil
	}
	switch v.Kind() {
	case reflect.Interface, reflect.Ptr:
		if v.IsNil() {
			return nil
		}
		return toGeneric(v.Elem(), lower)
	case reflect.Struct:
		out := map[string]interface{}{}
		for i := 0; i < v.NumField(); i++ {
			f := v.Type().Field(i)
			if f.PkgPath != "" { // unexported
				continue
			}
			if f.Anonymous {
				// promoted fields of an embedded struct
				if sub, ok := toGeneric(v.Field(i), lower).(map[string]interface{}); ok {
					for k, e := range sub {
						if _, has := out[k]; !has {
							out[k] = e
						}
					}
				}
				continue
			}
			out[KeyName(f.Name, lower)] = toGeneric(v.Field(i), lower)
		}
		return out
	case reflect.Slice:
		if v.IsNil() {
			return nil
		}
		out := make([]interface{}, v.Len())
		for i := range out {
			out[i] = toGeneric(v.Index(i), lower)
		}
		return out
	case reflect.Map:
		out := map[string]interface{}{}
		it := v.MapRange()
		for it.Next() {
			out[it.Key().String()] = toGeneric(it.Value(), lower)
		}
		return out
	case reflect.String:
		return v.String()
	case reflect.Float64, reflect.Float32:
		return v.Float()
	case reflect.Bool:
		return v.Bool()
	case reflect.Int, reflect.Int64, reflect.Int32:
		return float64(v.Int())
	}
	return v.Interface()
}

func mkLeaf(r *gen.Rand) Leaf {
	return Leaf{S: gen.Pick(r, []string{"", "a", "b", "é", "ab"}), F: gen.Pick(r, []float64{0, 1, -1, 2.5, 3}), B: r.Bool()}
}

func mkPLeaf(r *gen.Rand) *Leaf {
	if r.Chance(1, 3) {
		return nil
	}
	l := mkLeaf(r)
	return &l
}

func mkInner(r *gen.Rand) Inner {
	in := Inner{Name: gen.Pick(r, []string{"", "x", "y", "né"}), Num: gen.Pick(r, []float64{0, 1, 2, -3.5}), Flag: r.Bool(), Leaf: mkLeaf(r), PLeaf: mkPLeaf(r),
		Tags: []string{}, Nums: []float64{}, Leaves: []Leaf{}, PLeaves: []*Leaf{}}
	for k := r.Intn(4); k > 0; k-- {
		in.Tags = append(in.Tags, gen.Pick(r, []string{"", "t", "u", "é"}))
	}
	for k := r.Intn(4); k > 0; k-- {
		in.Nums = append(in.Nums, gen.Pick(r, []float64{0, 1, 2, -1}))
	}
	for k := r.Intn(3); k > 0; k-- {
		in.Leaves = append(in.Leaves, mkLeaf(r))
	}
	for k := r.Intn(4); k > 0; k-- {
		in.PLeaves = append(in.PLeaves, mkPLeaf(r))
	}
	return in
}

// StructDoc generates one document of the family. form selects how the
// root is presented: 0 Outer by value, 1 *Outer, 2 []Outer, 3 []*Outer
// (with nils), 4 map[string]interface{} holding structs.
func StructDoc(r *gen.Rand, form int) interface{} {
	mk := func() Outer {
		o := Outer{ID: gen.Pick(r, []string{"", "id1", "id2"}), Count: gen.Pick(r, []float64{0, 1, 7}), On: r.Bool(), In: mkInner(r),
			Ins: []Inner{}, PIns: []*Inner{}, Strs: []string{}, Flts: []float64{}, Grid: [][]float64{}}
		if !r.Chance(1, 3) {
			in := mkInner(r)
			o.PIn = &in
		}
		o.Uni = Uni{Élan: gen.Pick(r, []string{"", "é", "x"}), Ñu: gen.Pick(r, []float64{0, 1, 2}), Ωmega: r.Bool(), Z: "z"}
		if r.Bool() {
			u := o.Uni
			u.Z = "pz"
			o.PUni = &u
		}
		for k := r.Intn(3); k > 0; k-- {
			o.Ins = append(o.Ins, mkInner(r))
		}
		for k := r.Intn(4); k > 0; k-- {
			if r.Chance(1, 3) {
				o.PIns = append(o.PIns, nil)
			} else {
				in := mkInner(r)
				o.PIns = append(o.PIns, &in)
			}
		}
		for k := r.Intn(4); k > 0; k-- {
			o.Strs = append(o.Strs, gen.Pick(r, []string{"", "s", "t", "é"}))
		}
		for k := r.Intn(4); k > 0; k-- {
			o.Flts = append(o.Flts, gen.Pick(r, []float64{0, 1.5, -2, 3}))
		}
		for k := r.Intn(3); k > 0; k-- {
			row := []float64{}
			for q := r.Intn(3); q > 0; q-- {
				row = append(row, float64(q))
			}
			o.Grid = append(o.Grid, row)
		}
		switch r.Intn(5) {
		case 0:
			o.Any = nil
		case 1:
			o.Any = "str"
		case 2:
			o.Any = mkLeaf(r)
		case 3:
			o.Any = mkPLeaf(r)
		default:
			o.Any = []interface{}{float64(1), "a", nil}
		}
		return o
	}
	switch form {
	case 0:
		return mk()
	case 1:
		o := mk()
		return &o
	case 2:
		out := []Outer{}
		for k := r.Intn(3) + 1; k > 0; k-- {
			out = append(out, mk())
		}
		return out
	case 3:
		out := []*Outer{}
		for k := r.Intn(4) + 1; k > 0; k-- {
			if r.Chance(1, 4) {
				out = append(out, nil)
			} else {
				o := mk()
				out = append(out, &o)
			}
		}
		return out
	default:
		o := mk()
		// (a nil pointer stored directly in a generic map is not a document "built from nested struct
		// types" and is not part of the family)
		return map[string]interface{}{"Obj": o, "Ptr": &o, "List": []Outer{mk()}, "Leaf": mkLeaf(r)}
	}
}

// EmbeddedDoc builds the embedding / unexported-field documents used by the
// no-panic part.
func EmbeddedDoc(r *gen.Rand, k int) interface{} {
	w := WithEmbedded{Leaf: mkLeaf(r), Title: "t", _u: "hidden", lower: 1}
	if k%2 == 0 {
		w.Base = &Base{BaseName: "bn", BaseNum: 2}
	}
	if k%4 < 2 {
		return w
	}
	return &w
}
