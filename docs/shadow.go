package docs

import (
	"encoding/json"

	"verifharness/gen"
)

// Embedding family: struct types that embed other structs (by value, by
// pointer, two levels deep), with fields shadowed by the embedding struct
// (declared before and after the embedded one) and a name promoted twice at
// the same depth (ambiguous: not a field). Go's selector rules decide what a
// name means; encoding/json applies the same rules when it flattens embedded
// structs, so the JSON form of these documents is JSONForm (Marshal +
// Unmarshal), an oracle independent of the library's reflection code.

type ShBase struct {
	Name string
	ID   float64
	Only string
}

// Shadow declares its own Name AFTER the embedded struct (the usual layout).
type Shadow struct {
	ShBase
	Name string
	Own  float64
}

// ShadowFirst declares its own Name BEFORE the embedded struct.
type ShadowFirst struct {
	Name string
	ShBase
	Own float64
}

// ShadowPtr embeds by pointer (nil or set) and shadows Name.
type ShadowPtr struct {
	*ShBase
	Name string
}

// PlainPtr embeds by pointer and shadows nothing.
type PlainPtr struct {
	*ShBase
	Tag string
}

type ShMid struct {
	ShBase
	ID  float64 // shadows ShBase.ID
	Mid string
}

type ShDeep struct {
	ShMid
	Only string // shadows ShMid.ShBase.Only two levels down
	Deep string
}

type ShA struct {
	Name string
	A    string
}
type ShB struct {
	Name string
	B    string
}

// ShAmb: Name is promoted from ShA and ShB at the same depth: ambiguous, hence no field at all.
type ShAmb struct {
	ShA
	ShB
	C string
}

// shHidden is an embedded type whose *name* is unexported; its exported fields are promoted all the same
// (Go selector rules, reflect.Type.FieldByName and encoding/json agree on that).
type shHidden struct {
	Hid  string
	HidN float64
}

type HiddenPtr struct {
	*shHidden
	Tag string
}

type HiddenVal struct {
	shHidden
	Tag string
}

// HiddenDeep reaches the unexported embedded pointer one level down.
type HiddenDeep struct {
	HiddenPtr
	Deep string
}

// ShadowFieldNames are the names usable in expressions (embedded type names are excluded: they exist
// as Go fields but not in the JSON form).
var ShadowFieldNames = []string{"Name", "ID", "Only", "Own", "Mid", "Deep", "A", "B", "C", "Tag", "Hid", "HidN"}

// ShadowKeys are the top-level keys of ShadowDoc.
var ShadowKeys = []string{"One", "First", "PNil", "PSet", "QNil", "QSet", "Mid", "Deep", "Amb", "Items", "PItems", "QItems", "POne", "HNil", "HSet", "HVal", "HDeep", "HItems"}

// ShadowDoc builds one document of the embedding family. order permutes
// the nil / non-nil pointer elements of the typed slices.
func ShadowDoc(r *gen.Rand, order int) map[string]interface{} {
	nm := func(p string) string { return p + gen.Pick(r, []string{"", "-a", "-b"}) }
	base := func(tag string) ShBase {
		return ShBase{Name: nm("base" + tag), ID: float64(r.Intn(4)), Only: gen.Pick(r, []string{"", "o1", "o2"})}
	}
	one := Shadow{ShBase: base("1"), Name: nm("own1"), Own: float64(r.Intn(3))}
	b2 := base("p")
	items := []Shadow{{ShBase: base("i0"), Name: "own-a", Own: 1}, {ShBase: base("i1"), Name: "", Own: 0}, {ShBase: base("i2"), Name: "own-b", Own: 2}}
	bq1, bq2 := base("q1"), base("q2")
	pset := &ShadowPtr{ShBase: &bq1, Name: "pset"}
	pnil := &ShadowPtr{Name: "pnil"}
	pset2 := &ShadowPtr{ShBase: &bq2, Name: ""}
	qset := PlainPtr{ShBase: &bq1, Tag: "qset"}
	qnil := PlainPtr{Tag: "qnil"}
	pitems := [][]*ShadowPtr{{pnil, pset, pset2}, {pset, pnil, pset2}, {pset, pset2, pnil}, {pnil, pnil, pset}}[order%4]
	qitems := [][]PlainPtr{{qnil, qset}, {qset, qnil}, {qset, qset, qnil}, {qnil, qnil, qset}}[order%4]
	return map[string]interface{}{
		"One":    one,
		"POne":   &one,
		"First":  ShadowFirst{Name: nm("first"), ShBase: base("f"), Own: 5},
		"PNil":   ShadowPtr{Name: nm("np")},
		"PSet":   ShadowPtr{ShBase: &b2, Name: nm("sp")},
		"QNil":   qnil,
		"QSet":   qset,
		"Mid":    ShMid{ShBase: base("m"), ID: 40, Mid: "mid"},
		"Deep":   ShDeep{ShMid: ShMid{ShBase: base("d"), ID: 41, Mid: "dm"}, Only: "deep-only", Deep: "deep"},
		"Amb":    ShAmb{ShA: ShA{Name: "from-a", A: "a"}, ShB: ShB{Name: "from-b", B: "b"}, C: "c"},
		"Items":  items,
		"PItems": pitems,
		"QItems": qitems,
		"HNil":   HiddenPtr{Tag: "hnil"},
		"HSet":   HiddenPtr{shHidden: &shHidden{Hid: nm("hid"), HidN: float64(r.Intn(3))}, Tag: "hset"},
		"HVal":   HiddenVal{shHidden: shHidden{Hid: "by-value", HidN: 7}, Tag: "hval"},
		"HDeep":  HiddenDeep{HiddenPtr: HiddenPtr{shHidden: &shHidden{Hid: "deep-hid", HidN: 8}, Tag: "hd"}, Deep: "hdeep"},
		"HItems": []HiddenPtr{{Tag: "h0"}, {shHidden: &shHidden{Hid: "h1", HidN: 1}, Tag: "h1"}, {shHidden: &shHidden{Hid: "", HidN: 0}, Tag: "h2"}},
	}
}

// JSONForm is the document as encoding/json presents it (embedded structs
// flattened by Go's selector rules, nil embedded pointers contributing
// nothing, pointers dereferenced).
func JSONForm(v interface{}) interface{} {
	b, err := json.Marshal(v)
	if err != nil {
		panic("docs.JSONForm: " + err.Error())
	}
	var out interface{}
	if err := json.Unmarshal(b, &out); err != nil {
		panic("docs.JSONForm: " + err.Error())
	}
	return out
}

// AnonDoc: documents made of anonymous struct types and of function-local
// types that share one name ("T"), with one field name at different
// positions (or absent) in each: anything that identifies a struct type by
// its printed name instead of its reflect.Type confuses them.
func AnonDoc(r *gen.Rand) map[string]interface{} {
	v := func() float64 { return float64(r.Intn(5)) }
	x := struct {
		Name string
		Next struct {
			ID   float64
			Name string
		}
	}{Name: "x-name"}
	x.Next.ID, x.Next.Name = v(), "x-next-name"
	y := struct {
		ID    float64
		Extra string
		Name  string
	}{ID: v(), Extra: "y-extra", Name: "y-name"}
	l := []struct {
		Tag  string
		Name string
	}{{"t0", "l0-name"}, {"t1", "l1-name"}}
	return map[string]interface{}{"X": x, "Y": y, "L": l, "L1": localT1(v()), "L2": localT2(v()), "PX": &x}
}

func localT1(v float64) interface{} {
	type T struct {
		Name string
		V    float64
	}
	return T{Name: "local1-name", V: v}
}

func localT2(v float64) interface{} {
	type T struct {
		V     float64
		Other string
		Name  string
	}
	return T{V: v + 10, Other: "o", Name: "local2-name"}
}

// AnonPaths are the field paths of AnonDoc.
var AnonPaths = []string{"X.Name", "X.Next.Name", "X.Next.ID", "Y.Name", "Y.ID", "Y.Extra", "L[0].Name", "L[*].Tag", "L[*].Name", "L1.Name", "L2.Name", "L1.V", "L2.V", "L2.Other", "PX.Next.Name", "PX.Name"}
