package docs

import (
	"encoding/json"
	"math"
	"reflect"
	"strconv"
)

// Typify returns the Go-typed-slice form of a JSON value: every array whose
// elements (after typifying them) all have one Go type becomes a slice of
// that type ([]float64, []string, []bool, []map[string]interface{}, [][]float64,
// [][][]string, …); empty arrays take the type of their siblings when these
// agree; everything else stays generic. Objects stay map[string]interface{}
// (typed maps are not part of the typed-data family of C18). ToGeneric is
// the inverse.
func Typify(v interface{}) interface{} {
	switch t := v.(type) {
	case map[string]interface{}:
		out := make(map[string]interface{}, len(t))
		for k, e := range t {
			out[k] = Typify(e)
		}
		return out
	case []interface{}:
		if len(t) == 0 {
			return []interface{}{}
		}
		elems := make([]interface{}, len(t))
		var typ reflect.Type
		same := true
		for i, e := range t {
			elems[i] = Typify(e)
			if elems[i] == nil {
				same = false
				continue
			}
			if s, ok := elems[i].([]interface{}); ok && len(s) == 0 {
				continue // decided by the siblings
			}
			et := reflect.TypeOf(elems[i])
			if typ == nil {
				typ = et
			} else if typ != et {
				same = false
			}
		}
		if !same || typ == nil {
			return elems
		}
		out := reflect.MakeSlice(reflect.SliceOf(typ), len(elems), len(elems))
		for i, e := range elems {
			if s, ok := e.([]interface{}); ok && len(s) == 0 {
				if typ.Kind() != reflect.Slice {
					return elems
				}
				out.Index(i).Set(reflect.MakeSlice(typ, 0, 0))
				continue
			}
			out.Index(i).Set(reflect.ValueOf(e))
		}
		return out.Interface()
	}
	return v
}

// Str and Num are named scalar types (documents handed over by programs that
// define their own types).
type (
	Str string
	Num float64
)

// ExoticModes names the leaf representations produced by Exotic.
var ExoticModes = []string{"json.Number (decoder.UseNumber)", "int / float32 / uint8", "pointers to scalars", "named string and float types", "pointers to pointers and to containers"}

// Exotic returns v with its scalar leaves in a non-canonical Go
// representation (what a caller gets from json.Decoder.UseNumber, from
// hand-built maps, or from SDK-style pointer fields). The value is built
// freshly on every call (no sharing between calls).
func Exotic(v interface{}, mode int) interface{} {
	switch t := v.(type) {
	case map[string]interface{}:
		out := make(map[string]interface{}, len(t))
		for k, e := range t {
			out[k] = Exotic(e, mode)
		}
		if mode == 4 {
			return &out
		}
		return out
	case []interface{}:
		out := make([]interface{}, len(t))
		for i, e := range t {
			out[i] = Exotic(e, mode)
		}
		if mode == 4 {
			return &out
		}
		return out
	case float64:
		switch mode {
		case 0:
			return json.Number(strconv.FormatFloat(t, 'g', -1, 64))
		case 1:
			if t == math.Trunc(t) && math.Abs(t) < 1e9 {
				if t >= 0 && t < 200 && int(t)%3 == 0 {
					return uint8(t)
				}
				return int(t)
			}
			return float32(t)
		case 2:
			return &t
		case 3:
			return Num(t)
		case 4:
			p := &t
			return &p
		}
	case string:
		switch mode {
		case 2:
			return &t
		case 3:
			return Str(t)
		case 4:
			p := &t
			return &p
		}
	case bool:
		switch mode {
		case 2:
			return &t
		case 4:
			p := &t
			return &p
		}
	}
	return v
}
