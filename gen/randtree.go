package gen

import "strconv"

// Type hints used by the random generator: what a sub-expression should
// probably evaluate to, so that function calls are well-typed most of the
// time (and deliberately ill-typed some of the time).
type Want uint8

const (
	WAny Want = iota
	WNumber
	WString
	WBool
	WArray // any array
	WArrNum
	WArrStr
	WArrObj
	WArrArr
	WObject
	WNull
)

// TypedKeys maps a type hint to the document keys that hold such a value in
// the typed document family (docs.TypedDoc). Objects nested under "o" and
// the elements of "ao" carry the same keys, so look-ups hit at every depth.
var TypedKeys = map[Want][]string{
	WNumber: {"n", "m"},
	WString: {"s", "t"},
	WBool:   {"b"},
	WNull:   {"z"},
	WArrNum: {"an"},
	WArrStr: {"as"},
	WArrObj: {"ao"},
	WArrArr: {"aa"},
	WArray:  {"an", "as", "ao", "aa", "am"},
	WObject: {"o"},
}

// TreeGen generates random expression trees.
type TreeGen struct {
	R        *Rand
	MaxDepth int
	// fragment switches
	Funcs       bool
	Proj        bool
	Logic       bool
	Multi       bool
	Pipes       bool
	IllTyped    int      // one in IllTyped type hints is ignored (0 = never)
	ExtraKeys   []string // untyped keys mixed in (a b c "" é "k k")
	HostileInts bool     // extreme integers in indices and slices
	// function names to draw from (nil = all 26)
	FuncNames []string
}

func NewTreeGen(r *Rand) *TreeGen {
	return &TreeGen{R: r, MaxDepth: 5, Funcs: true, Proj: true, Logic: true, Multi: true, Pipes: true, IllTyped: 12,
		ExtraKeys: []string{"a", "c", "x"}}
}

var litByWant = map[Want][]string{
	WNumber: {"0", "1", "-1", "2", "1.5", "10", "-0.5", "3", "16777217", "123456789"},
	WString: {`"a"`, `"b"`, `""`, `"ab"`, `"é"`, `"10"`},
	WBool:   {"true", "false"},
	WNull:   {"null"},
	WArrNum: {"[]", "[1]", "[3,1,2]", "[1,1,0]", "[-1,2.5]"},
	WArrStr: {"[]", `["a"]`, `["b","a","c"]`, `["é","e","z"]`},
	WArrObj: {"[]", `[{"n":1,"s":"a"},{"n":0,"s":"b"}]`, `[{"n":2,"s":"x","an":[1]},{"n":2,"s":"a"},{"n":1,"s":"y"}]`},
	WArrArr: {"[[]]", "[[1,2],[3]]", `[[1],["a"],[[2]]]`},
	WArray:  {"[]", `[1,"a",null]`, "[[1],2]", `[{"n":1}]`},
	WObject: {"{}", `{"n":1,"s":"a"}`, `{"n":2,"o":{"n":3}}`, `{"an":[1,2],"as":["x"]}`},
}

var anyWants = []Want{WNumber, WString, WBool, WArrNum, WArrStr, WArrObj, WArrArr, WObject, WNull}

func (g *TreeGen) pickWant() Want { return Pick(g.R, anyWants) }

func (g *TreeGen) resolve(w Want) Want {
	if g.IllTyped > 0 && g.R.Chance(1, g.IllTyped) {
		return g.pickWant()
	}
	switch w {
	case WAny:
		return g.pickWant()
	case WArray:
		return Pick(g.R, []Want{WArrNum, WArrStr, WArrObj, WArrArr, WArray})
	}
	return w
}

// Int returns an index/slice integer text.
func (g *TreeGen) Int() string {
	if g.HostileInts && g.R.Chance(1, 4) {
		return Pick(g.R, []string{"2147483647", "-2147483648", "9223372036854775807", "-9223372036854775808", "9223372036854775806",
			"-9223372036854775807", "4294967296", "100000", "-100000"})
	}
	return strconv.Itoa(g.R.Intn(7) - 3)
}

func (g *TreeGen) fieldFor(w Want) *Expr {
	if keys, ok := TypedKeys[w]; ok && !g.R.Chance(1, 10) {
		return Field(Pick(g.R, keys))
	}
	if len(g.ExtraKeys) > 0 && g.R.Chance(1, 2) {
		return Field(Pick(g.R, g.ExtraKeys))
	}
	return Field(Pick(g.R, TypedKeys[g.pickWant()]))
}

func (g *TreeGen) literalFor(w Want) *Expr {
	if lits, ok := litByWant[w]; ok {
		return LitJSON(Pick(g.R, lits))
	}
	return LitJSON(Pick(g.R, litByWant[g.pickWant()]))
}

func (g *TreeGen) atom(w Want) *Expr {
	switch g.R.Intn(10) {
	case 0, 1, 2, 3, 4:
		return g.fieldFor(w)
	case 5, 6:
		if w == WString && g.R.Bool() {
			return Raw(Pick(g.R, []string{"a", "", "b", "ab", "é", "x y", "x  y", "x\ty", "it's", "o'k'"}))
		}
		return g.literalFor(w)
	case 7:
		return Current()
	default:
		// a short path
		return Chain(g.fieldFor(WObject), StField(Pick(g.R, TypedKeys[g.keyWant(w)])))
	}
}

func (g *TreeGen) keyWant(w Want) Want {
	if _, ok := TypedKeys[w]; ok {
		return w
	}
	return g.pickWant()
}

// Expr generates an expression that probably evaluates to w.
func (g *TreeGen) Expr(depth int, w Want) *Expr {
	w = g.resolve(w)
	if depth >= g.MaxDepth || g.R.Chance(1, 4) {
		return g.atom(w)
	}
	d := depth + 1
	// weights: atom, chain, func, logic, cmp/not, multi, pipe, paren
	ws := []int{3, 4, 0, 0, 0, 0, 0, 1}
	if g.Funcs {
		ws[2] = 5
	}
	if g.Logic {
		ws[3] = 2
		ws[4] = 1
		if w == WBool {
			ws[4] = 5
		}
	}
	if g.Multi && (w == WObject || w == WArray || w == WArrNum || w == WArrStr || w == WArrObj || w == WArrArr) {
		ws[5] = 3
	}
	if g.Pipes {
		ws[6] = 1
	}
	switch g.R.Weighted(ws) {
	case 0:
		return g.atom(w)
	case 1:
		return g.chain(d, w)
	case 2:
		return g.call(d, w)
	case 3:
		if g.R.Bool() {
			return Or(g.Expr(d, w), g.Expr(d, w))
		}
		return And(g.Expr(d, WAny), g.Expr(d, w))
	case 4:
		if g.R.Chance(1, 3) {
			return Not(g.Expr(d, WAny))
		}
		op := Pick(g.R, []string{"==", "!=", "<", "<=", ">", ">="})
		if op == "==" || op == "!=" {
			t := g.pickWant()
			return Cmp(op, g.Expr(d, t), g.Expr(d, t))
		}
		return Cmp(op, g.Expr(d, WNumber), g.Expr(d, WNumber))
	case 5:
		return g.multi(d, w)
	case 6:
		return Pipe(g.Expr(d, WObject), g.Expr(d, w))
	default:
		return Paren(g.Expr(d, w))
	}
}

func (g *TreeGen) multi(d int, w Want) *Expr {
	if w == WObject {
		n := 1 + g.R.Intn(3)
		var keys []Key
		var vals []*Expr
		names := g.R.Perm(4)
		if g.R.Chance(1, 5) {
			// a repeated key is grammatical (the later member wins)
			names[n-1] = names[0]
		}
		for i := 0; i < n; i++ {
			k := []string{"n", "s", "x", "an"}[names[i]]
			keys = append(keys, Key{Name: k, Quoted: g.R.Chance(1, 5)})
			kw := WAny
			switch k {
			case "n":
				kw = WNumber
			case "s":
				kw = WString
			case "an":
				kw = WArrNum
			}
			vals = append(vals, g.Expr(d, kw))
		}
		return MultiHash(keys, vals)
	}
	elem := WAny
	switch w {
	case WArrNum:
		elem = WNumber
	case WArrStr:
		elem = WString
	case WArrObj:
		elem = WObject
	case WArrArr:
		elem = WArray
	}
	n := 1 + g.R.Intn(3)
	items := make([]*Expr, n)
	for i := range items {
		items[i] = g.Expr(d, elem)
	}
	return MultiList(items...)
}

// Steps generates chain steps that take a value of type `from` towards w.
func (g *TreeGen) chain(d int, w Want) *Expr {
	r := g.R
	if !g.Proj || r.Chance(1, 3) {
		// plain navigation: object path / index
		switch r.Intn(3) {
		case 0:
			return Chain(g.Expr(d, WObject), StField(Pick(r, TypedKeys[g.keyWant(w)])))
		case 1:
			src := WArray
			switch w {
			case WNumber:
				src = WArrNum
			case WString:
				src = WArrStr
			case WObject:
				src = WArrObj
			case WArray, WArrNum, WArrStr:
				src = WArrArr
			}
			return Chain(g.Expr(d, src), StIndexS(g.Int()))
		default:
			if g.Funcs && r.Chance(1, 2) {
				// a dotted path ending in a function call: obj.key.f(@ …)
				fn := Pick(r, []string{"type", "to_string", "not_null", "length", "to_array", "to_number"})
				args := []*Expr{Current()}
				if fn == "not_null" {
					args = append(args, Raw("n/a"))
				}
				return Chain(g.Expr(d, WObject), StField(Pick(r, TypedKeys[g.pickWant()])), StFunc(fn, args...))
			}
			return Chain(g.Expr(d, WArrObj), StIndexS(g.Int()), StField(Pick(r, TypedKeys[g.keyWant(w)])))
		}
	}
	// projections
	var head *Expr
	var steps []Step
	switch r.Intn(7) {
	case 0: // list projection over objects
		head = g.Expr(d, WArrObj)
		steps = append(steps, StListStar())
		steps = append(steps, g.rhs(d, w)...)
	case 1: // filter
		head = g.Expr(d, WArrObj)
		steps = append(steps, StFilter(g.Expr(d, WBool)))
		steps = append(steps, g.rhs(d, w)...)
	case 2: // slice
		head = g.Expr(d, WArray)
		var sl [3]string
		for i := range sl {
			if r.Bool() {
				sl[i] = g.Int()
			}
		}
		if sl[2] == "0" && !r.Chance(1, 6) {
			sl[2] = "-1"
		}
		steps = append(steps, StSliceS(sl[0], sl[1], sl[2]))
		if r.Chance(1, 3) {
			steps = append(steps, g.rhs(d, w)...)
		}
	case 3: // flatten
		head = g.Expr(d, WArrArr)
		steps = append(steps, StFlatten())
		if r.Chance(1, 3) {
			steps = append(steps, g.rhs(d, w)...)
		}
	case 4: // object wildcard
		head = g.Expr(d, WObject)
		steps = append(steps, StStar())
		if r.Chance(1, 2) {
			steps = append(steps, g.rhs(d, w)...)
		}
	case 5: // nested projection
		head = g.Expr(d, WArrObj)
		steps = append(steps, StListStar(), StField("ao"), StListStar())
		steps = append(steps, g.rhs(d, w)...)
	default: // projection then flatten then more
		head = g.Expr(d, WArrObj)
		steps = append(steps, StListStar(), StField(Pick(r, []string{"an", "as", "ao", "aa"})), StFlatten())
		if r.Chance(1, 2) {
			steps = append(steps, g.rhs(d, w)...)
		}
	}
	if r.Chance(1, 6) {
		// bare form: apply to the current node
		return Chain(nil, steps...)
	}
	e := Chain(head, steps...)
	if r.Chance(1, 5) {
		// close the projection and index into it
		return Chain(Paren(e), StIndexS(g.Int()))
	}
	return e
}

// rhs generates a short right-hand side evaluated against an element.
func (g *TreeGen) rhs(d int, w Want) []Step {
	r := g.R
	var steps []Step
	n := 1 + r.Intn(2)
	for i := 0; i < n; i++ {
		switch r.Intn(8) {
		case 0, 1, 2, 3:
			steps = append(steps, StField(Pick(r, TypedKeys[g.keyWant(g.resolve(w))])))
		case 4:
			steps = append(steps, StIndexS(g.Int()))
		case 5:
			if g.Multi {
				steps = append(steps, StMultiList(g.Expr(d+1, WAny), g.Expr(d+1, WAny)))
			} else {
				steps = append(steps, StField("n"))
			}
		case 6:
			if g.Funcs {
				f := g.call(d+1, w)
				if f.K == KFunc {
					steps = append(steps, Step{K: SFunc, X: f})
					break
				}
			}
			steps = append(steps, StField("o"))
		default:
			if g.Multi {
				steps = append(steps, StMultiHash([]Key{{Name: "x"}, {Name: "y"}}, []*Expr{g.Expr(d+1, WAny), g.Expr(d+1, WAny)}))
			} else {
				steps = append(steps, StField("s"))
			}
		}
	}
	return steps
}

type fnTemplate struct {
	name     string
	ret      Want
	args     []Want // WAny etc.; expref positions are marked by exprefAt
	expref   int    // index of the expression-reference argument, -1 none
	erBody   Want   // what the expref body should evaluate to
	variadic bool
}

var fnTemplates = []fnTemplate{
	{"abs", WNumber, []Want{WNumber}, -1, 0, false},
	{"avg", WNumber, []Want{WArrNum}, -1, 0, false},
	{"ceil", WNumber, []Want{WNumber}, -1, 0, false},
	{"contains", WBool, []Want{WArray, WAny}, -1, 0, false},
	{"contains", WBool, []Want{WString, WString}, -1, 0, false},
	{"ends_with", WBool, []Want{WString, WString}, -1, 0, false},
	{"floor", WNumber, []Want{WNumber}, -1, 0, false},
	{"join", WString, []Want{WString, WArrStr}, -1, 0, false},
	{"keys", WArrStr, []Want{WObject}, -1, 0, false},
	{"length", WNumber, []Want{WArray}, -1, 0, false},
	{"length", WNumber, []Want{WString}, -1, 0, false},
	{"length", WNumber, []Want{WObject}, -1, 0, false},
	{"map", WArray, []Want{WAny, WArrObj}, 0, WAny, false},
	{"map", WArrNum, []Want{WAny, WArrObj}, 0, WNumber, false},
	{"max", WNumber, []Want{WArrNum}, -1, 0, false},
	{"max", WString, []Want{WArrStr}, -1, 0, false},
	{"max_by", WObject, []Want{WArrObj, WAny}, 1, WNumber, false},
	{"max_by", WObject, []Want{WArrObj, WAny}, 1, WString, false},
	{"merge", WObject, []Want{WObject}, -1, 0, true},
	{"min", WNumber, []Want{WArrNum}, -1, 0, false},
	{"min", WString, []Want{WArrStr}, -1, 0, false},
	{"min_by", WObject, []Want{WArrObj, WAny}, 1, WNumber, false},
	{"min_by", WObject, []Want{WArrObj, WAny}, 1, WString, false},
	{"not_null", WAny, []Want{WAny}, -1, 0, true},
	{"reverse", WArray, []Want{WArray}, -1, 0, false},
	{"reverse", WString, []Want{WString}, -1, 0, false},
	{"sort", WArrNum, []Want{WArrNum}, -1, 0, false},
	{"sort", WArrStr, []Want{WArrStr}, -1, 0, false},
	{"sort_by", WArrObj, []Want{WArrObj, WAny}, 1, WNumber, false},
	{"sort_by", WArrObj, []Want{WArrObj, WAny}, 1, WString, false},
	{"starts_with", WBool, []Want{WString, WString}, -1, 0, false},
	{"sum", WNumber, []Want{WArrNum}, -1, 0, false},
	{"to_array", WArray, []Want{WAny}, -1, 0, false},
	{"to_string", WString, []Want{WAny}, -1, 0, false},
	{"to_number", WNumber, []Want{WString}, -1, 0, false},
	{"to_number", WNumber, []Want{WAny}, -1, 0, false},
	{"type", WString, []Want{WAny}, -1, 0, false},
	{"values", WArray, []Want{WObject}, -1, 0, false},
}

func wantCompatible(ret, w Want) bool {
	if ret == w || ret == WAny {
		return true
	}
	if w == WArray && (ret == WArrNum || ret == WArrStr || ret == WArrObj || ret == WArrArr) {
		return true
	}
	if ret == WArray && (w == WArrNum || w == WArrStr || w == WArrObj || w == WArrArr) {
		return true
	}
	return false
}

func (g *TreeGen) call(d int, w Want) *Expr {
	r := g.R
	var cands []fnTemplate
	for _, t := range fnTemplates {
		if !wantCompatible(t.ret, w) {
			continue
		}
		if g.FuncNames != nil {
			ok := false
			for _, n := range g.FuncNames {
				if n == t.name {
					ok = true
				}
			}
			if !ok {
				continue
			}
		}
		cands = append(cands, t)
	}
	if len(cands) == 0 {
		return g.atom(w)
	}
	t := Pick(r, cands)
	var args []*Expr
	for i, aw := range t.args {
		if i == t.expref {
			args = append(args, ExpRef(g.Expr(d+1, t.erBody)))
			continue
		}
		args = append(args, g.Expr(d, aw))
	}
	if t.variadic {
		for k := r.Intn(3); k > 0; k-- {
			args = append(args, g.Expr(d, t.args[len(t.args)-1]))
		}
	}
	if g.IllTyped > 0 && r.Chance(1, g.IllTyped*2) {
		// wrong arity
		if len(args) > 0 && r.Bool() {
			args = args[:len(args)-1]
		} else {
			args = append(args, g.Expr(d, WAny))
		}
	}
	name := t.name
	if g.IllTyped > 0 && r.Chance(1, g.IllTyped*6) {
		name = Pick(r, []string{"foo", "Abs", "length2"})
	}
	return Func(name, args...)
}

// FnTemplate is the exported view of one typed call template.
type FnTemplate struct {
	Name     string
	Ret      Want
	Args     []Want
	ExprefAt int  // index of the expression-reference argument, -1 = none
	ErBody   Want // what the expression-reference body should evaluate to
	Variadic bool
}

// FnTemplates lists the typed call templates (every built-in function with
// each of its principal argument-type combinations).
func FnTemplates() []FnTemplate {
	out := make([]FnTemplate, len(fnTemplates))
	for i, t := range fnTemplates {
		out[i] = FnTemplate{t.name, t.ret, append([]Want(nil), t.args...), t.expref, t.erBody, t.variadic}
	}
	return out
}
