package gen

// Rand is a splitmix64 stream. Every random choice in the harness comes from
// one of these, seeded from (VERIF_SEED, property, workload, worker).
type Rand struct{ s uint64 }

func NewRand(seed uint64) *Rand { return &Rand{s: seed} }

// Derive makes an independent stream for a named sub-workload.
func Derive(seed uint64, labels ...string) *Rand {
	h := seed*0x9e3779b97f4a7c15 + 0x1234567
	for _, l := range labels {
		for i := 0; i < len(l); i++ {
			h = (h ^ uint64(l[i])) * 0x100000001b3
		}
		h = (h ^ 0xff) * 0x100000001b3
	}
	r := &Rand{s: h}
	r.Uint64()
	return r
}

// DeriveN is Derive plus a numeric label.
func DeriveN(seed uint64, label string, n int) *Rand {
	r := Derive(seed, label)
	r.s += uint64(n) * 0xd1342543de82ef95
	r.Uint64()
	return r
}

func (r *Rand) Uint64() uint64 {
	r.s += 0x9e3779b97f4a7c15
	z := r.s
	z = (z ^ (z >> 30)) * 0xbf58476d1ce4e5b9
	z = (z ^ (z >> 27)) * 0x94d049bb133111eb
	return z ^ (z >> 31)
}

// Intn returns a value in [0, n). n must be > 0.
func (r *Rand) Intn(n int) int {
	if n <= 0 {
		panic("Rand.Intn: n <= 0")
	}
	return int(r.Uint64() % uint64(n))
}

func (r *Rand) Bool() bool { return r.Uint64()&1 == 1 }

// Chance returns true with probability num/den.
func (r *Rand) Chance(num, den int) bool { return r.Intn(den) < num }

func (r *Rand) Float() float64 { return float64(r.Uint64()>>11) / (1 << 53) }

// Pick returns a random element.
func Pick[T any](r *Rand, xs []T) T { return xs[r.Intn(len(xs))] }

// Weighted returns an index chosen with the given weights.
func (r *Rand) Weighted(w []int) int {
	t := 0
	for _, x := range w {
		t += x
	}
	k := r.Intn(t)
	for i, x := range w {
		if k < x {
			return i
		}
		k -= x
	}
	return len(w) - 1
}

// Perm returns a random permutation of 0..n-1.
func (r *Rand) Perm(n int) []int {
	p := make([]int, n)
	for i := range p {
		p[i] = i
	}
	for i := n - 1; i > 0; i-- {
		j := r.Intn(i + 1)
		p[i], p[j] = p[j], p[i]
	}
	return p
}
