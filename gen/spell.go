package gen

import "strings"

// SpellMode selects how many parentheses a spelling carries.
type SpellMode uint8

const (
	Min  SpellMode = iota // only the parentheses the precedence table of C03 makes necessary (plus explicit Paren nodes)
	Full                  // every complete sub-expression used as an operand is parenthesised
)

// Tokens spells a tree as a sequence of lexemes.
func Tokens(e *Expr, mode SpellMode) []string {
	sp := &speller{mode: mode}
	sp.expr(e)
	return sp.out
}

// Spell spells a tree with single spaces between lexemes.
func Spell(e *Expr) string { return strings.Join(Tokens(e, Min), " ") }

// SpellFull is the fully parenthesised spelling, single spaces.
func SpellFull(e *Expr) string { return strings.Join(Tokens(e, Full), " ") }

// SpellTight writes no whitespace where two neighbouring lexemes cannot merge.
func SpellTight(e *Expr) string { return JoinTight(Tokens(e, Min)) }

// JoinTight joins lexemes with no space wherever that is safe.
func JoinTight(toks []string) string {
	var sb strings.Builder
	for i, t := range toks {
		if i > 0 && !abut(toks[i-1], t) {
			sb.WriteByte(' ')
		}
		sb.WriteString(t)
	}
	return sb.String()
}

// JoinWS joins lexemes with seeded runs of the four whitespace characters
// (possibly empty where safe), and optional leading/trailing whitespace.
func JoinWS(toks []string, r *Rand) string {
	const ws = " \t\n\r"
	var sb strings.Builder
	run := func(min int) {
		n := min
		if r.Chance(1, 2) {
			n += r.Intn(3)
		}
		for k := 0; k < n; k++ {
			sb.WriteByte(ws[r.Intn(4)])
		}
	}
	if r.Chance(1, 4) {
		run(1)
	}
	for i, t := range toks {
		if i > 0 {
			if abut(toks[i-1], t) {
				run(0)
			} else {
				run(1)
			}
		}
		sb.WriteString(t)
	}
	if r.Chance(1, 4) {
		run(1)
	}
	return sb.String()
}

func abut(a, b string) bool { return CanAbut(a, b) }

// AbutSafe is the concurrency-safe form (no cache).
func AbutSafe(a, b string) bool { return CanAbut(a, b) }

type speller struct {
	mode     SpellMode
	quoteAll bool // spell every identifier (fields, dotted names, hash keys) as a quoted identifier
	out      []string
}

// TokensQuoted is Tokens with every identifier written as a quoted identifier
// (function names stay unquoted: they are not identifiers of the data). The
// parse must be the same as for the unquoted spelling.
func TokensQuoted(e *Expr, mode SpellMode) []string {
	sp := &speller{mode: mode, quoteAll: true}
	sp.expr(e)
	return sp.out
}

func (sp *speller) emit(t ...string) { sp.out = append(sp.out, t...) }

func binLevel(e *Expr) int {
	switch e.K {
	case KPipe:
		return BPPipe
	case KOr:
		return BPOr
	case KAnd:
		return BPAnd
	case KCmp:
		return BPCmp
	}
	return 100
}

func binOp(e *Expr) string {
	switch e.K {
	case KPipe:
		return "|"
	case KOr:
		return "||"
	case KAnd:
		return "&&"
	case KCmp:
		return e.Op
	}
	panic("binOp")
}

func isAtomic(e *Expr) bool {
	switch e.K {
	case KField, KLiteral, KRaw, KCurrent, KMultiList, KMultiHash, KFunc, KParen:
		return true
	}
	return false
}

// rightOpen: the spelling of e ends inside a projection's right-hand side (or
// an expression reference) that would absorb steps written after it.
func rightOpen(e *Expr) bool {
	switch e.K {
	case KChain:
		return HasTopProjection(e) || (len(e.Steps) == 0 && e.Head != nil && rightOpen(e.Head))
	case KNot:
		return rightOpen(e.A)
	case KExpRef:
		return true
	}
	return false
}

func (sp *speller) paren(e *Expr) {
	sp.emit("(")
	sp.expr(e)
	sp.emit(")")
}

// operand spells e in a position where any complete expression is allowed
// (member, argument, condition, parenthesis body).
func (sp *speller) free(e *Expr) {
	if sp.mode == Full && e.K != KExpRef {
		sp.paren(e)
		return
	}
	sp.expr(e)
}

func (sp *speller) expr(e *Expr) {
	switch e.K {
	case KField:
		if e.Quoted || sp.quoteAll {
			if e.QSrc != "" {
				sp.emit(`"` + e.QSrc + `"`)
			} else {
				sp.emit(QuotedLexeme(e.Name))
			}
		} else {
			sp.emit(e.Name)
		}
	case KLiteral:
		sp.emit(LiteralLexeme(e.Lit))
	case KRaw:
		if e.RawSrc != "" {
			sp.emit("'" + e.RawSrc + "'")
		} else {
			sp.emit(RawLexeme(e.Val.(string)))
		}
	case KCurrent:
		sp.emit("@")
	case KParen:
		sp.paren(e.A)
	case KExpRef:
		sp.emit("&")
		if sp.mode == Full {
			sp.paren(e.A)
		} else {
			sp.expr(e.A)
		}
	case KNot:
		sp.emit("!")
		a := e.A
		need := false
		switch a.K {
		case KPipe, KOr, KAnd, KCmp, KExpRef:
			need = true
		case KChain:
			need = Exposure(a) <= BPNot
		}
		if need || sp.mode == Full {
			sp.paren(a)
		} else {
			sp.expr(a)
		}
	case KPipe, KOr, KAnd, KCmp:
		lvl := binLevel(e)
		if sp.mode == Full || binLevel(e.A) < lvl || e.A.K == KExpRef {
			sp.paren(e.A)
		} else {
			sp.expr(e.A)
		}
		sp.emit(binOp(e))
		if sp.mode == Full || binLevel(e.B) <= lvl || e.B.K == KExpRef {
			sp.paren(e.B)
		} else {
			sp.expr(e.B)
		}
	case KMultiList:
		sp.multiList(e, false)
	case KMultiHash:
		sp.multiHash(e)
	case KFunc:
		sp.call(e)
	case KChain:
		sp.chain(e)
	default:
		panic("spell: unknown kind")
	}
}

func (sp *speller) multiList(e *Expr, afterDot bool) {
	sp.emit("[")
	for i, it := range e.Items {
		if i > 0 {
			sp.emit(",")
		}
		if sp.mode == Min && len(e.Items) == 1 && isBareStar(it) && !afterDot {
			// "[*]" would be the list wildcard, not a one-member multi-select (behind a dot it is the multi-select: the grammar has
			// no list wildcard there)
			sp.paren(it)
			continue
		}
		sp.free(it)
	}
	sp.emit("]")
}

func isBareStar(e *Expr) bool {
	return e.K == KChain && e.Head == nil && len(e.Steps) == 1 && e.Steps[0].K == SStar
}

func (sp *speller) multiHash(e *Expr) {
	sp.emit("{")
	for i, it := range e.Items {
		if i > 0 {
			sp.emit(",")
		}
		k := e.Keys[i]
		if k.Quoted || sp.quoteAll || !IsUnquotedIdent(k.Name) {
			sp.emit(QuotedLexeme(k.Name))
		} else {
			sp.emit(k.Name)
		}
		sp.emit(":")
		sp.free(it)
	}
	sp.emit("}")
}

func (sp *speller) call(e *Expr) {
	sp.emit(e.Name, "(")
	for i, it := range e.Items {
		if i > 0 {
			sp.emit(",")
		}
		sp.free(it)
	}
	sp.emit(")")
}

// headNeedsParen: must the head of chain e be parenthesised so that the
// steps apply to the whole head?
func (sp *speller) headNeedsParen(e *Expr) bool {
	h := e.Head
	if len(e.Steps) == 0 {
		return false
	}
	switch h.K {
	case KPipe, KOr, KAnd, KCmp, KExpRef, KChain:
		return true
	case KNot:
		// "!x.b" is (!x).b, "!x[0]" is !(x[0]); and a projection left open at
		// the end of x would swallow the steps.
		if rightOpen(h) {
			return true
		}
		return StepBP(e.Steps[0]) > BPNot
	}
	return false
}

func (sp *speller) chain(e *Expr) {
	first := true
	if e.Head != nil {
		if sp.headNeedsParen(e) || (sp.mode == Full && len(e.Steps) > 0) {
			sp.paren(e.Head)
		} else {
			sp.expr(e.Head)
		}
		first = false
	}
	for _, s := range e.Steps {
		sp.step(s, first)
		first = false
	}
}

func (sp *speller) step(s Step, bare bool) {
	dot := func() {
		if !bare {
			sp.emit(".")
		}
	}
	switch s.K {
	case SField:
		dot()
		if s.Quoted || sp.quoteAll || !IsUnquotedIdent(s.Name) {
			sp.emit(QuotedLexeme(s.Name))
		} else {
			sp.emit(s.Name)
		}
	case SMultiList:
		dot()
		sp.multiList(s.X, true)
	case SMultiHash:
		dot()
		sp.multiHash(s.X)
	case SFunc:
		dot()
		sp.call(s.X)
	case SStar:
		dot()
		sp.emit("*")
	case SIndex:
		sp.emit("[", s.Num, "]")
	case SSlice:
		sp.emit("[")
		if s.Sl[0] != nil {
			sp.emit(*s.Sl[0])
		}
		sp.emit(":")
		if s.Sl[1] != nil {
			sp.emit(*s.Sl[1])
		}
		if s.Sl[2] != nil || s.Colons == 2 {
			sp.emit(":")
			if s.Sl[2] != nil {
				sp.emit(*s.Sl[2])
			}
		}
		sp.emit("]")
	case SListStar:
		sp.emit("[", "*", "]")
	case SFlatten:
		sp.emit("[]")
	case SFilter:
		sp.emit("[?")
		sp.free(s.X)
		sp.emit("]")
	}
}
