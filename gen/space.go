package gen

// Space is a finite, lazily indexable set of expression trees. Enumerations
// are built from combinators so that case i of a workload can be produced
// from its index alone (needed for batch replay) without materialising the
// set.
type Space interface {
	Len() int
	At(i int) *Expr
}

type listSpace []*Expr

func (l listSpace) Len() int       { return len(l) }
func (l listSpace) At(i int) *Expr { return l[i] }

// List is an explicit set.
func List(es ...*Expr) Space { return listSpace(es) }

type unionSpace struct {
	parts []Space
	offs  []int
}

// Union is the disjoint union (concatenation).
func Union(parts ...Space) Space {
	u := &unionSpace{parts: parts, offs: make([]int, len(parts)+1)}
	for i, p := range parts {
		u.offs[i+1] = u.offs[i] + p.Len()
	}
	return u
}

func (u *unionSpace) Len() int { return u.offs[len(u.parts)] }
func (u *unionSpace) At(i int) *Expr {
	lo, hi := 0, len(u.parts)
	for hi-lo > 1 {
		m := (lo + hi) / 2
		if u.offs[m] <= i {
			lo = m
		} else {
			hi = m
		}
	}
	return u.parts[lo].At(i - u.offs[lo])
}

type mapSpace struct {
	in Space
	fs []func(*Expr) *Expr
}

// Map applies each of fs to each element of in (|in| × |fs| trees).
func Map(in Space, fs ...func(*Expr) *Expr) Space { return &mapSpace{in, fs} }

func (m *mapSpace) Len() int { return m.in.Len() * len(m.fs) }
func (m *mapSpace) At(i int) *Expr {
	return m.fs[i%len(m.fs)](m.in.At(i / len(m.fs)))
}

type prodSpace struct {
	a, b Space
	fs   []func(a, b *Expr) *Expr
}

// Product combines every pair with each of fs.
func Product(a, b Space, fs ...func(a, b *Expr) *Expr) Space { return &prodSpace{a, b, fs} }

func (p *prodSpace) Len() int { return p.a.Len() * p.b.Len() * len(p.fs) }
func (p *prodSpace) At(i int) *Expr {
	f := p.fs[i%len(p.fs)]
	i /= len(p.fs)
	return f(p.a.At(i/p.b.Len()), p.b.At(i%p.b.Len()))
}

// Materialize turns a small space into a list.
func Materialize(s Space) Space {
	l := make(listSpace, s.Len())
	for i := range l {
		l[i] = s.At(i)
	}
	return l
}

// AddStep returns x extended by a chain step: a chain (not wrapped in Paren)
// gets the step appended, anything else becomes the head of a new chain.
func AddStep(x *Expr, s Step) *Expr {
	if x.K == KChain {
		steps := make([]Step, len(x.Steps)+1)
		copy(steps, x.Steps)
		steps[len(x.Steps)] = s
		return &Expr{K: KChain, Head: x.Head, Steps: steps}
	}
	return Chain(x, s)
}

// StepFn makes a Map function from a step.
func StepFn(s Step) func(*Expr) *Expr {
	return func(x *Expr) *Expr { return AddStep(x, s) }
}
