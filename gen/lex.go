package gen

import "fmt"

// A small maximal-munch reference lexer written from the JMESPath grammar.
// It is used (a) to compute which neighbouring lexemes may be written
// without a space between them, (b) to calibrate the grammar recogniser on
// the compliance suite's expression strings. It never decides a verdict
// about the library's lexer.

type TokType uint8

const (
	TIdent TokType = iota
	TQuoted
	TNumber
	TRaw
	TLiteral
	TCurrent
	TStar
	TDot
	TLbracket
	TRbracket
	TFilter  // [?
	TFlatten // []
	TLparen
	TRparen
	TLbrace
	TRbrace
	TComma
	TColon
	TPipe
	TOr
	TAnd
	TNot
	TExpref // &
	TCmp    // == != < <= > >=
	NTokTypes
)

var tokNames = [...]string{"ident", "quoted", "number", "raw", "literal", "@", "*", ".", "[", "]", "[?", "[]",
	"(", ")", "{", "}", ",", ":", "|", "||", "&&", "!", "&", "cmp"}

func (t TokType) String() string { return tokNames[t] }

type Tok struct {
	T    TokType
	Text string
	Pos  int
}

func isIdStart(c byte) bool { return c == '_' || (c|0x20 >= 'a' && c|0x20 <= 'z') }
func isDigit(c byte) bool   { return c >= '0' && c <= '9' }

// RefLex tokenises s, or returns an error.
func RefLex(s string) ([]Tok, error) {
	var out []Tok
	i := 0
	n := len(s)
	emit := func(t TokType, from, to int) { out = append(out, Tok{t, s[from:to], from}) }
	delim := func(from int, q byte) (int, error) { // s[from] == q; returns index after the closing q
		j := from + 1
		for j < n {
			if s[j] == '\\' && j+1 < n {
				j += 2
				continue
			}
			if s[j] == q {
				return j + 1, nil
			}
			j++
		}
		return 0, fmt.Errorf("unclosed %c at %d", q, from)
	}
	for i < n {
		c := s[i]
		switch {
		case c == ' ' || c == '\t' || c == '\n' || c == '\r':
			i++
		case isIdStart(c):
			j := i + 1
			for j < n && (isIdStart(s[j]) || isDigit(s[j])) {
				j++
			}
			emit(TIdent, i, j)
			i = j
		case isDigit(c) || c == '-':
			j := i + 1
			for j < n && isDigit(s[j]) {
				j++
			}
			if c == '-' && j == i+1 {
				return nil, fmt.Errorf("lone - at %d", i)
			}
			emit(TNumber, i, j)
			i = j
		case c == '"' || c == '\'' || c == '`':
			j, err := delim(i, c)
			if err != nil {
				return nil, err
			}
			t := TQuoted
			if c == '\'' {
				t = TRaw
			} else if c == '`' {
				t = TLiteral
			}
			emit(t, i, j)
			i = j
		case c == '[':
			if i+1 < n && s[i+1] == '?' {
				emit(TFilter, i, i+2)
				i += 2
			} else if i+1 < n && s[i+1] == ']' {
				emit(TFlatten, i, i+2)
				i += 2
			} else {
				emit(TLbracket, i, i+1)
				i++
			}
		case c == '|':
			if i+1 < n && s[i+1] == '|' {
				emit(TOr, i, i+2)
				i += 2
			} else {
				emit(TPipe, i, i+1)
				i++
			}
		case c == '&':
			if i+1 < n && s[i+1] == '&' {
				emit(TAnd, i, i+2)
				i += 2
			} else {
				emit(TExpref, i, i+1)
				i++
			}
		case c == '<' || c == '>':
			if i+1 < n && s[i+1] == '=' {
				emit(TCmp, i, i+2)
				i += 2
			} else {
				emit(TCmp, i, i+1)
				i++
			}
		case c == '=':
			if i+1 < n && s[i+1] == '=' {
				emit(TCmp, i, i+2)
				i += 2
			} else {
				return nil, fmt.Errorf("lone = at %d", i)
			}
		case c == '!':
			if i+1 < n && s[i+1] == '=' {
				emit(TCmp, i, i+2)
				i += 2
			} else {
				emit(TNot, i, i+1)
				i++
			}
		default:
			var t TokType
			switch c {
			case '.':
				t = TDot
			case '*':
				t = TStar
			case ',':
				t = TComma
			case ':':
				t = TColon
			case '{':
				t = TLbrace
			case '}':
				t = TRbrace
			case ']':
				t = TRbracket
			case '(':
				t = TLparen
			case ')':
				t = TRparen
			case '@':
				t = TCurrent
			default:
				return nil, fmt.Errorf("unknown character %q at %d", c, i)
			}
			emit(t, i, i+1)
			i++
		}
	}
	return out, nil
}

// CanAbut reports whether lexemes a and b may be written with nothing
// between them, i.e. a+b lexes as exactly a then b.
func CanAbut(a, b string) bool {
	toks, err := RefLex(a + b)
	if err != nil || len(toks) != 2 {
		return false
	}
	return toks[0].Text == a && toks[1].Text == b
}
