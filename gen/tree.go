// Package gen holds E1 of DESIGN.md: JMESPath expression trees in the
// specification's abstract syntax, their spellings, enumerators and seeded
// random generators. Workloads are generated as trees and then spelled; the
// harness never parses JMESPath text itself.
package gen

import (
	"encoding/json"
	"math/big"
	"strconv"
)

type Kind uint8

const (
	KField Kind = iota
	KLiteral
	KRaw
	KCurrent
	KNot
	KOr
	KAnd
	KPipe
	KCmp
	KMultiList
	KMultiHash
	KFunc
	KExpRef
	KParen
	KChain
)

var kindNames = [...]string{"Field", "Literal", "Raw", "Current", "Not", "Or", "And", "Pipe", "Cmp",
	"MultiList", "MultiHash", "Func", "ExpRef", "Paren", "Chain"}

func (k Kind) String() string { return kindNames[k] }

// Key is the key of a multi-select-hash member.
type Key struct {
	Name   string
	Quoted bool
}

// Expr is a node of an expression tree.
type Expr struct {
	K      Kind
	Name   string      // Field, Func
	Quoted bool        // Field: spell as a quoted identifier
	Lit    string      // Literal: JSON text to put between backticks (before ` escaping)
	Val    interface{} // Literal: decoded JSON value; Raw: the string
	Op     string      // Cmp: == != < <= > >=
	A, B   *Expr       // unary / binary operands; ExpRef, Paren, Not use A
	Items  []*Expr     // MultiList members, MultiHash values, Func arguments
	Keys   []Key       // MultiHash keys
	Head   *Expr       // Chain: nil for the bare forms
	Steps  []Step      // Chain
	RawSrc string      // Raw: optional explicit spelling of the body (between the quotes); "" = derive from Val
	QSrc   string      // Field quoted: optional explicit spelling of the body between the double quotes
}

type StepKind uint8

const (
	SField     StepKind = iota // .name  ."name"
	SMultiList                 // .[e, …]
	SMultiHash                 // .{k: e, …}
	SFunc                      // .f(args)
	SStar                      // .*   (bare chain: *)
	SIndex                     // [n]
	SSlice                     // [a:b:c]
	SListStar                  // [*]
	SFlatten                   // []
	SFilter                    // [?cond]
)

var stepNames = [...]string{".field", ".[list]", ".{hash}", ".func()", ".*", "[n]", "[a:b:c]", "[*]", "[]", "[?]"}

func (k StepKind) String() string { return stepNames[k] }

// Step is one step of a chain.
type Step struct {
	K      StepKind
	Name   string     // SField
	Quoted bool       // SField
	X      *Expr      // SMultiList/SMultiHash/SFunc: the node; SFilter: the condition
	Num    string     // SIndex: decimal integer text
	Sl     [3]*string // SSlice: decimal integer texts, nil = absent
	Colons int        // SSlice: 1 or 2 colons when the step is absent ("[a:b]" vs "[a:b:]"); 0 = minimal
}

// IsProjection reports whether the step starts a projection.
func (s Step) IsProjection() bool {
	switch s.K {
	case SStar, SSlice, SListStar, SFlatten, SFilter:
		return true
	}
	return false
}

// ---- constructors ---------------------------------------------------------

func Field(name string) *Expr  { return &Expr{K: KField, Name: name, Quoted: !IsUnquotedIdent(name)} }
func QField(name string) *Expr { return &Expr{K: KField, Name: name, Quoted: true} }
func Current() *Expr           { return &Expr{K: KCurrent} }
func Raw(s string) *Expr       { return &Expr{K: KRaw, Val: s} }
func Not(a *Expr) *Expr        { return &Expr{K: KNot, A: a} }
func Or(a, b *Expr) *Expr      { return &Expr{K: KOr, A: a, B: b} }
func And(a, b *Expr) *Expr     { return &Expr{K: KAnd, A: a, B: b} }
func Pipe(a, b *Expr) *Expr    { return &Expr{K: KPipe, A: a, B: b} }
func Cmp(op string, a, b *Expr) *Expr {
	return &Expr{K: KCmp, Op: op, A: a, B: b}
}
func MultiList(items ...*Expr) *Expr { return &Expr{K: KMultiList, Items: items} }
func MultiHash(keys []Key, vals []*Expr) *Expr {
	return &Expr{K: KMultiHash, Keys: keys, Items: vals}
}
func Func(name string, args ...*Expr) *Expr { return &Expr{K: KFunc, Name: name, Items: args} }
func ExpRef(a *Expr) *Expr                  { return &Expr{K: KExpRef, A: a} }
func Paren(a *Expr) *Expr                   { return &Expr{K: KParen, A: a} }
func Chain(head *Expr, steps ...Step) *Expr { return &Expr{K: KChain, Head: head, Steps: steps} }

// LitJSON builds a literal from JSON text. It panics on invalid JSON (a
// generator bug, never an observation about the library).
func LitJSON(text string) *Expr {
	var v interface{}
	if err := json.Unmarshal([]byte(text), &v); err != nil {
		panic("gen.LitJSON: invalid JSON " + strconv.Quote(text) + ": " + err.Error())
	}
	return &Expr{K: KLiteral, Lit: text, Val: v}
}

// LitVal builds a literal from a Go JSON value using the compact encoder.
func LitVal(v interface{}) *Expr {
	return &Expr{K: KLiteral, Lit: EncodeJSON(v, EncMinimal, nil), Val: v}
}

func StField(name string) Step {
	return Step{K: SField, Name: name, Quoted: !IsUnquotedIdent(name)}
}
func StQField(name string) Step { return Step{K: SField, Name: name, Quoted: true} }
func StIndex(n int64) Step      { return Step{K: SIndex, Num: strconv.FormatInt(n, 10)} }
func StIndexS(n string) Step    { return Step{K: SIndex, Num: n} }
func StStar() Step              { return Step{K: SStar} }
func StListStar() Step          { return Step{K: SListStar} }
func StFlatten() Step           { return Step{K: SFlatten} }
func StFilter(c *Expr) Step     { return Step{K: SFilter, X: c} }
func StMultiList(items ...*Expr) Step {
	return Step{K: SMultiList, X: MultiList(items...)}
}
func StMultiHash(keys []Key, vals []*Expr) Step {
	return Step{K: SMultiHash, X: MultiHash(keys, vals)}
}
func StFunc(name string, args ...*Expr) Step { return Step{K: SFunc, X: Func(name, args...)} }

// StSlice builds a slice step; nil = absent.
func StSlice(a, b, c *int64) Step {
	var s Step
	s.K = SSlice
	for i, p := range []*int64{a, b, c} {
		if p != nil {
			t := strconv.FormatInt(*p, 10)
			s.Sl[i] = &t
		}
	}
	return s
}

// StSliceS builds a slice step from decimal texts; "" = absent.
func StSliceS(a, b, c string) Step {
	var s Step
	s.K = SSlice
	for i, p := range []string{a, b, c} {
		if p != "" {
			t := p
			s.Sl[i] = &t
		}
	}
	return s
}

func I(n int64) *int64 { return &n }

// BigOf parses decimal integer text.
func BigOf(s string) *big.Int {
	b, ok := new(big.Int).SetString(s, 10)
	if !ok {
		panic("gen.BigOf: not an integer: " + strconv.Quote(s))
	}
	return b
}

// IsUnquotedIdent reports whether s matches [A-Za-z_][A-Za-z0-9_]*.
func IsUnquotedIdent(s string) bool {
	if s == "" {
		return false
	}
	for i := 0; i < len(s); i++ {
		c := s[i]
		switch {
		case c >= 'a' && c <= 'z', c >= 'A' && c <= 'Z', c == '_':
		case c >= '0' && c <= '9':
			if i == 0 {
				return false
			}
		default:
			return false
		}
	}
	return true
}

// Walk calls f on every expression node of the tree (pre-order), including
// nodes held by chain steps.
func Walk(e *Expr, f func(*Expr)) {
	if e == nil {
		return
	}
	f(e)
	Walk(e.A, f)
	Walk(e.B, f)
	for _, it := range e.Items {
		Walk(it, f)
	}
	Walk(e.Head, f)
	for _, s := range e.Steps {
		Walk(s.X, f)
	}
}

// Size is the number of operator nodes + steps (a rough complexity measure).
func Size(e *Expr) int {
	n := 0
	Walk(e, func(x *Expr) {
		switch x.K {
		case KField, KLiteral, KRaw, KCurrent:
		default:
			n++
		}
		n += len(x.Steps)
	})
	return n
}

// HasProjection reports whether any chain in the tree has a projection step.
func HasProjection(e *Expr) bool {
	found := false
	Walk(e, func(x *Expr) {
		for _, s := range x.Steps {
			if s.IsProjection() {
				found = true
			}
		}
	})
	return found
}

// Clone makes a deep copy of the tree structure (literal values are shared:
// they are never mutated by the harness).
func Clone(e *Expr) *Expr {
	if e == nil {
		return nil
	}
	c := *e
	c.A = Clone(e.A)
	c.B = Clone(e.B)
	c.Head = Clone(e.Head)
	if e.Items != nil {
		c.Items = make([]*Expr, len(e.Items))
		for i, it := range e.Items {
			c.Items[i] = Clone(it)
		}
	}
	if e.Keys != nil {
		c.Keys = append([]Key(nil), e.Keys...)
	}
	if e.Steps != nil {
		c.Steps = make([]Step, len(e.Steps))
		for i, s := range e.Steps {
			c.Steps[i] = s
			c.Steps[i].X = Clone(s.X)
		}
	}
	return &c
}
