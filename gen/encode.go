package gen

import (
	"math"
	"sort"
	"strconv"
	"strings"
	"unicode/utf8"
)

// EncMode selects one of the harness's own JSON string encoders. They are
// written here from RFC 8259 and share nothing with encoding/json.
type EncMode uint8

const (
	EncMinimal EncMode = iota // escape only what JSON requires
	EncAllU                   // \uXXXX for every non-ASCII and control code point (surrogate pairs for astral)
	EncMixed                  // per character: raw, short escape (\n \/ \b \f …) or \uXXXX, chosen by the PRNG
)

const hexd = "0123456789abcdef"

func u4(sb *strings.Builder, r rune, upper bool) {
	sb.WriteString(`\u`)
	for sh := 12; sh >= 0; sh -= 4 {
		c := hexd[(r>>uint(sh))&0xf]
		if upper && c >= 'a' {
			c -= 32
		}
		sb.WriteByte(c)
	}
}

func uEsc(sb *strings.Builder, r rune, upper bool) {
	if r >= 0x10000 {
		r -= 0x10000
		u4(sb, 0xd800+(r>>10), upper)
		u4(sb, 0xdc00+(r&0x3ff), upper)
		return
	}
	u4(sb, r, upper)
}

var shortEsc = map[rune]string{'"': `\"`, '\\': `\\`, '/': `\/`, '\b': `\b`, '\f': `\f`, '\n': `\n`, '\r': `\r`, '\t': `\t`}

// EncodeString spells s (valid UTF-8) as a JSON string including the quotes.
func EncodeString(s string, mode EncMode, r *Rand) string {
	var sb strings.Builder
	sb.WriteByte('"')
	for _, c := range s {
		must := c < 0x20 || c == '"' || c == '\\'
		switch mode {
		case EncMinimal:
			if must {
				if e, ok := shortEsc[c]; ok && c != '/' {
					sb.WriteString(e)
				} else {
					uEsc(&sb, c, false)
				}
			} else {
				sb.WriteRune(c)
			}
		case EncAllU:
			if must || c >= 0x7f {
				uEsc(&sb, c, true)
			} else {
				sb.WriteRune(c)
			}
		case EncMixed:
			e, hasShort := shortEsc[c]
			choice := r.Intn(3)
			switch {
			case choice == 0 && !must:
				sb.WriteRune(c)
			case choice <= 1 && hasShort:
				sb.WriteString(e)
			default:
				uEsc(&sb, c, r.Intn(2) == 0)
			}
		}
	}
	sb.WriteByte('"')
	return sb.String()
}

// FormatNumber spells a finite float64 as a JSON number that reads back to
// the same float64 (shortest round-trip digits; integers without exponent
// when small).
func FormatNumber(f float64) string {
	if math.IsNaN(f) || math.IsInf(f, 0) {
		panic("gen.FormatNumber: non-finite")
	}
	if f == 0 {
		if math.Signbit(f) {
			return "-0"
		}
		return "0"
	}
	if f == math.Trunc(f) && math.Abs(f) < 1e15 {
		return strconv.FormatFloat(f, 'f', -1, 64)
	}
	s := strconv.FormatFloat(f, 'g', -1, 64)
	// strconv may produce "1e+21"; that is valid JSON.
	return s
}

// EncodeJSON spells a Go JSON value (nil, bool, float64, string,
// []interface{}, map[string]interface{}) as JSON text. Object members are
// written in sorted key order. ws, if non-nil, inserts random JSON
// whitespace between structural tokens.
func EncodeJSON(v interface{}, mode EncMode, r *Rand) string {
	var sb strings.Builder
	encodeJSON(&sb, v, mode, r, false)
	return sb.String()
}

// EncodeJSONSpaced is EncodeJSON with random insignificant whitespace.
func EncodeJSONSpaced(v interface{}, mode EncMode, r *Rand) string {
	var sb strings.Builder
	encodeJSON(&sb, v, mode, r, true)
	return sb.String()
}

func jws(sb *strings.Builder, r *Rand, spaced bool) {
	if !spaced {
		return
	}
	n := r.Intn(3)
	for i := 0; i < n; i++ {
		sb.WriteByte(" \t\n\r"[r.Intn(4)])
	}
}

func encodeJSON(sb *strings.Builder, v interface{}, mode EncMode, r *Rand, spaced bool) {
	jws(sb, r, spaced)
	switch t := v.(type) {
	case nil:
		sb.WriteString("null")
	case bool:
		if t {
			sb.WriteString("true")
		} else {
			sb.WriteString("false")
		}
	case float64:
		sb.WriteString(FormatNumber(t))
	case string:
		sb.WriteString(EncodeString(t, mode, r))
	case []interface{}:
		sb.WriteByte('[')
		for i, e := range t {
			if i > 0 {
				sb.WriteByte(',')
			}
			encodeJSON(sb, e, mode, r, spaced)
		}
		jws(sb, r, spaced)
		sb.WriteByte(']')
	case map[string]interface{}:
		keys := make([]string, 0, len(t))
		for k := range t {
			keys = append(keys, k)
		}
		sort.Strings(keys)
		sb.WriteByte('{')
		for i, k := range keys {
			if i > 0 {
				sb.WriteByte(',')
			}
			jws(sb, r, spaced)
			sb.WriteString(EncodeString(k, mode, r))
			jws(sb, r, spaced)
			sb.WriteByte(':')
			encodeJSON(sb, t[k], mode, r, spaced)
		}
		jws(sb, r, spaced)
		sb.WriteByte('}')
	default:
		panic("gen.EncodeJSON: not a JSON value")
	}
	jws(sb, r, spaced)
}

// LiteralLexeme wraps JSON text in backticks, writing ` as \`.
func LiteralLexeme(jsonText string) string {
	return "`" + strings.Replace(jsonText, "`", "\\`", -1) + "`"
}

// RawSpellable reports whether s can be written as a raw string literal:
// valid UTF-8 is not required, but no backslash may stand directly before a
// quote or at the end (C14).
func RawSpellable(s string) bool {
	if strings.HasSuffix(s, `\`) || strings.Contains(s, `\'`) {
		return false
	}
	return true
}

// RawLexeme spells s as a raw string literal: ' is written \'.
func RawLexeme(s string) string {
	return "'" + strings.Replace(s, "'", `\'`, -1) + "'"
}

// QuotedLexeme spells an identifier as a quoted identifier (minimal escapes).
func QuotedLexeme(s string) string { return EncodeString(s, EncMinimal, nil) }

// ValidUTF8 is a convenience re-export.
func ValidUTF8(s string) bool { return utf8.ValidString(s) }
