package gen

// Grouping of chain steps: how far a projection's right-hand side extends.
//
// This is the precedence table of C03 applied to a *list of steps* (not to
// text): from loosest to tightest
//
//	pipe 1 < or 2 < and 3 < comparators 5 < flatten 9 < wildcard 20 < filter 21
//	< dot 40 < not 45 < brace 50 < bracket 55 < call 60
//
// A projection's right-hand side is parsed with the power of the projecting
// operator and so extends over every following step that binds tighter than
// that power; a flatten (9 < the stop threshold 10) always ends it.

const (
	BPPipe    = 1
	BPOr      = 2
	BPAnd     = 3
	BPCmp     = 5
	BPFlatten = 9
	BPStar    = 20
	BPFilter  = 21
	BPDot     = 40
	BPNot     = 45
	BPBracket = 55
)

// Quirks switches on, one by one, documented deviations of an
// implementation from the strict rule. They are used only to attribute a
// disagreement to an entry of known_findings.json (DESIGN §2.5); with the
// zero value the grouping is the strict one.
type Quirks struct {
	// DotStarRHS40: an object wildcard written after a dot (a.*…) parses its
	// right-hand side with the dot's power, so the projection ends after
	// the first following dot step: a.*.b.c == (a.*.b).c
	DotStarRHS40 bool
	// MultiSelectEndsRHS: a multi-select written directly after the dot that
	// starts a projection's right-hand side ends that right-hand side:
	// a[*].[b][0] == (a[*].[b])[0]
	MultiSelectEndsRHS bool
}

func (q Quirks) Any() bool { return q.DotStarRHS40 || q.MultiSelectEndsRHS }

// StepBP is the left binding power of a step (the power it needs to exceed
// to be taken into the expression on its left).
func StepBP(s Step) int {
	switch s.K {
	case SField, SMultiList, SMultiHash, SFunc, SStar:
		return BPDot
	case SIndex, SSlice, SListStar:
		return BPBracket
	case SFilter:
		return BPFilter
	case SFlatten:
		return BPFlatten
	}
	panic("StepBP")
}

// RHSPower is the power with which the right-hand side of a projecting step
// is parsed. nud is true when the step is the first thing of an expression
// (a bare form or the start of a right-hand side).
func RHSPower(s Step, nud bool, q Quirks) int {
	switch s.K {
	case SListStar, SSlice:
		return BPStar
	case SStar:
		if !nud && q.DotStarRHS40 {
			return BPDot
		}
		return BPStar
	case SFilter:
		return BPFilter
	case SFlatten:
		return BPFlatten
	}
	panic("RHSPower: not a projection")
}

// Span returns j such that steps[i:j] are taken by an operator loop running
// with power p (every step binding tighter than p, each projection together
// with its right-hand side).
func Span(steps []Step, i, p int, q Quirks) int {
	for i < len(steps) {
		s := steps[i]
		if StepBP(s) <= p {
			break
		}
		i++
		if s.IsProjection() {
			i = RHSSpan(steps, i, RHSPower(s, false, q), q)
		}
	}
	return i
}

// RHSSpan returns j such that steps[i:j] form the right-hand side of a
// projection whose operator has power p.
func RHSSpan(steps []Step, i, p int, q Quirks) int {
	if i >= len(steps) {
		return i
	}
	s := steps[i]
	switch s.K {
	case SFlatten:
		return i // stops every projection
	case SMultiList, SMultiHash:
		if q.MultiSelectEndsRHS {
			return i + 1
		}
		return Span(steps, i+1, p, q)
	case SField, SFunc, SIndex:
		return Span(steps, i+1, p, q)
	case SStar, SSlice, SListStar, SFilter:
		j := RHSSpan(steps, i+1, RHSPower(s, true, q), q)
		return Span(steps, j, p, q)
	}
	panic("RHSSpan")
}

// Exposure is the loosest binding power among the steps of a chain that are
// not swallowed by a projection's right-hand side, i.e. the power an
// enclosing prefix operator must be weaker than to take the whole chain.
// A bare chain's first step is a prefix form and does not count.
func Exposure(e *Expr) int {
	lvl := 100
	steps := e.Steps
	i := 0
	for i < len(steps) {
		s := steps[i]
		nud := i == 0 && e.Head == nil
		if !nud && StepBP(s) < lvl {
			lvl = StepBP(s)
		}
		i++
		if s.IsProjection() {
			i = RHSSpan(steps, i, RHSPower(s, nud, Quirks{}), Quirks{})
		}
	}
	return lvl
}

// HasTopProjection reports whether a chain has a projection step (whose
// right-hand side could swallow steps written after the chain).
func HasTopProjection(e *Expr) bool {
	for _, s := range e.Steps {
		if s.IsProjection() {
			return true
		}
	}
	return false
}
