//go:build verif

// Package fuzzt holds the coverage-guided stage of C05 and C17 (thorough
// tier): Go's native fuzzer drives Compile / Search with mutations of a seed
// corpus; the monitors are the same as in cmd/vh (no panic; the Compile
// contract). Its inputs are not seed-reproducible, so it only ever ADDS
// crashers, each saved by the fuzzer as a file that the driver turns into a
// replay file.
package fuzzt

import (
	"encoding/json"
	"os"
	"path/filepath"
	"sort"
	"strconv"
	"strings"
	"testing"

	jmespath "github.com/jmespath/go-jmespath"
)

func seeds(f *testing.F) {
	repo := os.Getenv("VERIF_REPO")
	if repo == "" {
		repo = "/repo"
	}
	var files []string
	filepath.Walk(filepath.Join(repo, "fuzz", "testdata"), func(p string, info os.FileInfo, err error) error {
		if err == nil && !info.IsDir() {
			files = append(files, p)
		}
		return nil
	})
	sort.Strings(files)
	for _, p := range files {
		if b, err := os.ReadFile(p); err == nil && len(b) < 2048 {
			f.Add(string(b))
		}
	}
	if b, err := os.ReadFile("../testdata/compliance_trees.json"); err == nil {
		var cs []struct {
			Expr string `json:"expr"`
		}
		if json.Unmarshal(b, &cs) == nil {
			for _, c := range cs {
				f.Add(c.Expr)
			}
		}
	}
	for _, s := range []string{"a\u0080", "[1::9223372036854775807]", "@(x)", "merge('a')", "contains([[1]], [1])", "sort_by([[1]], &@)", "a.*.b.c", "'a\\'b'", "`\"\\``", "\"\\ud83d\\ude00\""} {
		f.Add(s)
	}
}

var fuzzDocs = func() []interface{} {
	texts := []string{`null`, `1`, `"a"`, `[1,"a",null,[2],{"a":1}]`,
		`{"a":{"a":[1,2],"b":"x"},"b":[{"a":1},{"a":"s"}],"foo":"bar","":null,"c":[[1,2],[3]]}`,
		`{"foo":{"bar":{"baz":[0,1,2,3,4]}},"a":[{"b":1,"c":"x"},{"b":2,"c":"y"}],"s":"héllo"}`}
	out := make([]interface{}, len(texts))
	for i, t := range texts {
		json.Unmarshal([]byte(t), &out[i])
	}
	return out
}()

// FuzzCompileSearch: C05 — never panic (a panic crashes the fuzz worker and is reported).
func FuzzCompileSearch(f *testing.F) {
	seeds(f)
	f.Fuzz(func(t *testing.T, expr string) {
		if len(expr) > 65536 {
			return
		}
		jp, err := jmespath.Compile(expr)
		if err != nil {
			return
		}
		for _, d := range fuzzDocs {
			jp.Search(d)
		}
		jmespath.Search(expr, fuzzDocs[4])
	})
}

// FuzzCompileContract: C17 — the Compile / MustCompile / SyntaxError contract.
func FuzzCompileContract(f *testing.F) {
	seeds(f)
	f.Fuzz(func(t *testing.T, expr string) {
		if len(expr) > 65536 {
			return
		}
		jp, err := jmespath.Compile(expr)
		if (jp == nil) == (err == nil) {
			t.Fatalf("C17: Compile(%q) returned expression nil=%v together with error %v", expr, jp == nil, err)
		}
		panicked, msg := func() (p bool, m string) {
			defer func() {
				if r := recover(); r != nil {
					p, m = true, toString(r)
				}
			}()
			jmespath.MustCompile(expr)
			return
		}()
		if panicked != (err != nil) {
			t.Fatalf("C17: MustCompile(%q) panicked=%v but Compile error=%v", expr, panicked, err)
		}
		if err == nil {
			return
		}
		if !strings.Contains(msg, strconv.Quote(expr)) && !strings.Contains(msg, expr) {
			t.Fatalf("C17: MustCompile panic %q does not name the expression %q", msg, expr)
		}
		if se, ok := err.(jmespath.SyntaxError); ok {
			if se.Expression != expr {
				t.Fatalf("C17: SyntaxError.Expression %q differs from the input %q", se.Expression, expr)
			}
			if se.Offset < 0 || se.Offset > len(expr) {
				t.Fatalf("C17: SyntaxError.Offset %d outside [0, %d] for %q", se.Offset, len(expr), expr)
			}
			if got, want := se.HighlightLocation(), expr+"\n"+strings.Repeat(" ", se.Offset)+"^"; got != want {
				t.Fatalf("C17: HighlightLocation %q, want %q", got, want)
			}
		}
	})
}

func toString(r interface{}) string {
	switch v := r.(type) {
	case string:
		return v
	case error:
		return v.Error()
	}
	return ""
}
