#!/bin/bash
# tools/sweep.sh <tier> <seed>... : runs every registered check at each seed, prints one line per run.
cd "$(dirname "$0")/.."
tier="$1"; shift
for seed in "$@"; do
  for p in C01 C02 C03 C04 C05 C06 C07 C08 C09 C10 C11 C12 C13 C14 C15 C16 C17 C18 C19; do
    s=$(date +%s)
    out=$(VERIF_SEED=$seed ./check $p $tier 2>&1); rc=$?
    e=$(date +%s)
    echo "seed=$seed $p tier=$tier rc=$rc wall=$((e-s))s viol=$(echo "$out" | grep -c '^VIOLATION') inconcl=$(echo "$out" | grep -c '^INCONCLUSIVE') :: $(echo "$out" | grep '^SUMMARY' | cut -c1-160)"
    if [ $rc -ne 0 ]; then echo "$out" | grep -A4 '^VIOLATION' | head -30; fi
  done
done
