#!/bin/bash
# Runs the repository's own test suite with the verif guard OFF (baseline_off_cmd).
export GOFLAGS=-mod=mod GOPROXY=off GOSUMDB=off GOTOOLCHAIN=local
cd "${VERIF_REPO:-/repo}" || exit 2
go build ./... && go test -vet=off -count=1 -timeout 25m ./... 
