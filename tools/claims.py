# Table read by tools/mkmanifest.py. One claim() per property that has a registered check.
NOTES = ("All checks are runtime monitors over executions of the real library built from /repo's working tree "
         "(go build -tags verif; -race for C06/C12/C13). VERIF_SEED seeds every random choice; exhaustive parts do not depend on it. "
         "A green run means: held on the executions listed in the evidence file, not 'verified'. See DESIGN.md.")
NOT_CLAIMED = {}

claim("C08",
      "reference-model monitor (CPython slice model in unbounded integers) over an exhaustive window enumeration + boundary values; panic guard",
      "Every slice expression the workload spells is executed through Search / Compile+Search and its result compared with an independent big-integer model of Python slicing; exhaustive for all (len, start, stop, step) in a window around [-len-3, len+3] for len up to 6 (quick) / 10 (thorough), plus 64-bit boundary values in every position, values beyond 64 bits, every non-array operand and typed Go slices. Exploration level: unbounded integers are sampled at the boundaries, not enumerated.",
      "Trusted: ref.PySliceIndices (checked against a table frozen from CPython 3), the Go toolchain, recover() for panics. A compile error is accepted for integers outside int64.",
      "DESIGN.md §4 C08")
