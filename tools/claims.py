# Table read by tools/mkmanifest.py. One claim() per property that has a registered check.
NOTES = ("All checks are runtime monitors over executions of the real library built from /repo's working tree "
         "(go build -tags verif; -race for C06/C12/C13). VERIF_SEED seeds every random choice; exhaustive parts do not depend on it. "
         "A green run means: held on the executions listed in the evidence file, not 'verified'. See DESIGN.md.")
NOT_CLAIMED = {}

claim("C08",
      "reference-model monitor (CPython slice model in unbounded integers) over an exhaustive window enumeration + boundary values; panic guard",
      "Every slice expression the workload spells is executed through Search / Compile+Search and its result compared with an independent big-integer model of Python slicing; exhaustive for all (len, start, stop, step) in a window around [-len-3, len+3] for len up to 6 (quick) / 10 (thorough), plus 64-bit boundary values in every position, values beyond 64 bits, every non-array operand and typed Go slices. Exploration level: unbounded integers are sampled at the boundaries, not enumerated.",
      "Trusted: ref.PySliceIndices (checked against a table frozen from CPython 3), the Go toolchain, recover() for panics. A compile error is accepted for integers outside int64.",
      "DESIGN.md §4 C08")

claim("C01",
      "reference-model monitor (independent evaluator, result-set oracle) over an exhaustive enumeration of small core-fragment trees x a 40-document universe, plus seeded random deep trees; panic guard",
      "Every core-fragment tree with <= 2 operator nodes (3 in thorough) is spelled and run through Search and Compile+Search on every document of a universe in which each key holds each JSON type; each result is compared (value and Go dynamic type) with an independent model of the specification that was calibrated on the official compliance results. Exploration: larger expressions are sampled with a fixed seed, not enumerated.",
      "Trusted: the reference evaluator /verif/ref (pinned by setup self-tests to the 768 applicable official compliance results), the tree speller (validated by re-parse on the compliance suite).",
      "DESIGN.md §4 C01")
claim("C02",
      "reference-model monitor with member-order nondeterminism as a result set; exhaustive chains of projection steps x a 35-document universe; seeded random nested projections",
      "All chains of up to 3 (quick) / 4 (thorough) steps over 16 step kinds, 3 heads and 6 terminators are evaluated on 35 documents built to expose phantom entries, kept nulls, wrong flatten depth, wrong filter truthiness and wrong projection scope; the oracle allows exactly the results the specification allows (every member order for object wildcards, content exact).",
      "Trusted: /verif/ref chain semantics (binding-power rule of C03, calibrated on the compliance suite). Cases with more than 2000 member-order combinations are counted as skipped, not judged.",
      "DESIGN.md §4 C02")
claim("C03",
      "metamorphic parse monitor via hook (AST s-expression of minimal vs fully parenthesised vs whitespace vs redundant-parenthesis spellings) + reference-model monitor for chain-internal scope",
      "For every operator tree with <= 3 operators (plus samples of larger ones) the five spellings must produce identical ASTs in the same build - equal parse implies equal result on every document, which covers the 'all documents' quantifier; projection scope inside chains, which parentheses cannot express, is decided semantically on scope-discriminating documents against the model.",
      "Trusted: the minimal speller's precedence table (the one stated in C03), VerifSexpr (hook, compares only parses of the same build).",
      "DESIGN.md §4 C03")
claim("C04",
      "language-membership monitor: Compile vs an ABNF recogniser over every token sequence up to length 4 (quick) / 5 (thorough) over a 26-lexeme alphabet, mutated grammatical spellings beyond; AST well-formedness via hook; whitespace renderings",
      "Exhaustive comparison of Compile's accept/reject decision with a memoised recogniser of the published ABNF for all 475 254 (quick) / 12 356 630 (thorough) sequences, plus single-token mutations of random grammatical spellings up to 36 tokens; every accepted grammatical sequence is re-compiled without spaces and with mixed whitespace and must give the same AST, and no compiled AST may contain an empty node.",
      "Trusted: ref.Accepts = the ABNF (calibrated on the compliance suite: 724 accepted, 93 rejected). Lexeme-internal validity (JSON inside literals) is out of scope here (C05/C14/C17).",
      "DESIGN.md §4 C04")
