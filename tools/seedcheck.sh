#!/bin/bash
# tools/seedcheck.sh <Cxx> <i> [extra checks...]
# Confirms a seeded change written by a sub-agent (/tmp/wt/<Cxx>-out/m<i>.diff + demo) and runs the
# property's check against it:
#   1. patch applies to a scratch copy of /repo; the repository's own suite passes with it
#   2. the demonstration fails with the change and passes without it
#   3. ./check <Cxx> quick (then thorough if quick is silent) against the scratch copy (VERIF_REPO)
# Keeps the change as /verif/seeded/<Cxx>-m<i>/ {patch.diff, demo, meta.json} when 1 and 2 hold.
set -u
export GOFLAGS=-mod=mod GOPROXY=off GOSUMDB=off GOTOOLCHAIN=local
P="$1"; I="$2"; shift 2; EXTRA="$*"
SRC=${SEED_SRC:-/tmp/wt/$P-out}
patch=$SRC/m$I.diff
demo=$(ls $SRC/m${I}_demo_test.go $SRC/m${I}_demo.sh 2>/dev/null | head -1)
[ -f "$patch" ] || { echo "no patch $patch"; exit 2; }
work=$(mktemp -d /tmp/seedcheck.XXXXXX)
mut=$work/mut/go-jmespath; clean=$work/clean/go-jmespath
mkdir -p $mut $clean
rsync -a --exclude .git /repo/ $mut/; rsync -a --exclude .git /repo/ $clean/
status() { echo "[$P-m$I] $*"; }
if ! (cd $mut && patch -p1 -s < $patch); then status "PATCH DOES NOT APPLY"; rm -rf $work; exit 2; fi
suite=FAIL
(cd $mut && go build ./... && go test -vet=off -count=1 ./... > $work/suite.out 2>&1) && suite=PASS
status "suite with change: $suite"
demo_mut=unknown; demo_clean=unknown
if [ -n "$demo" ]; then
  case "$demo" in
  *.go)
    cp "$demo" $mut/zz_demo_test.go; cp "$demo" $clean/zz_demo_test.go
    flags=""; grep -q -i 'race' $SRC/README.md 2>/dev/null && [ "$P" = C12 -o "$P" = C06 -o "$P" = C17 ] && flags="-race"
    (cd $mut && timeout 300 go test $flags -vet=off -count=1 -run "TestDemoM$I" . > $work/demo_mut.out 2>&1) && demo_mut=PASS || demo_mut=FAIL
    (cd $clean && timeout 300 go test $flags -vet=off -count=1 -run "TestDemoM$I" . > $work/demo_clean.out 2>&1) && demo_clean=PASS || demo_clean=FAIL
    rm -f $mut/zz_demo_test.go $clean/zz_demo_test.go ;;
  *.sh)
    (cd $mut && go build -o $work/jpgo_mut ./cmd/jpgo); (cd $clean && go build -o $work/jpgo_clean ./cmd/jpgo)
    (bash "$demo" $work/jpgo_mut > $work/demo_mut.out 2>&1) && demo_mut=PASS || demo_mut=FAIL
    (bash "$demo" $work/jpgo_clean > $work/demo_clean.out 2>&1) && demo_clean=PASS || demo_clean=FAIL ;;
  esac
fi
status "demo with change: $demo_mut (want FAIL); demo on clean tree: $demo_clean (want PASS)"
results=""
detected_by=""
for c in $P $EXTRA; do
  for tier in quick thorough; do
    out=$(VERIF_REPO=$mut /verif/check $c $tier 2>&1); rc=$?
    nv=$(echo "$out" | grep -c '^VIOLATION')
    first=$(echo "$out" | grep -m1 -A3 '^VIOLATION' | tr '\n' ' ' | cut -c1-600)
    status "check $c $tier: rc=$rc violation_lines=$nv :: $first"
    results="$results{\"check\":\"$c\",\"tier\":\"$tier\",\"exit\":$rc,\"violation_lines\":$nv},"
    if [ $rc -eq 1 ]; then detected_by="$detected_by $c($tier)"; break; fi
    [ "$c" != "$P" ] && break   # extra checks: quick only
    [ -n "${QUICK_ONLY:-}" ] && break
  done
done
if [ "$suite" = PASS ] && [ "$demo_mut" = FAIL ] && [ "$demo_clean" = PASS ]; then
  dst=/verif/seeded/$P-m$I
  mkdir -p $dst
  cp $patch $dst/patch.diff
  # demo Go files are stored with a .txt suffix so that Go tooling run on /verif does not pick them up
  rm -f $dst/m${I}_demo*
  if [ -n "$demo" ]; then case "$demo" in *.go) cp "$demo" "$dst/$(basename "$demo").txt";; *) cp "$demo" $dst/;; esac; fi
  python3 - "$P" "$I" "$SRC" "$dst" "$detected_by" "[${results%,}]" <<'EOF'
import json,sys,re
P,I,SRC,dst,det,results=sys.argv[1:7]
readme=open(SRC+'/README.md').read() if __import__('os').path.exists(SRC+'/README.md') else ''
meta={"id":"%s-m%s"%(P,I),"breaks_property":P,
 "written_by":"independent sub-agent given only the property text and a scratch worktree",
 "confirmed":{"repository_suite_with_change":"PASS","demonstration_with_change":"FAIL","demonstration_on_clean_tree":"PASS"},
 "what_it_needs_to_manifest":"see readme_excerpt",
 "checks_run":json.loads(results),"detected_by":det.split(),
 "how_run":"tools/seedcheck.sh %s %s (scratch copy of /repo + patch, VERIF_REPO=<copy> ./check ...)"%(P,I),
 "readme_excerpt":readme[:6000]}
json.dump(meta,open(dst+'/meta.json','w'),indent=1)
EOF
  status "KEPT as $dst (detected by:${detected_by:- NOTHING})"
else
  status "NOT KEPT (suite=$suite demo_mut=$demo_mut demo_clean=$demo_clean)"
  tail -5 $work/suite.out $work/demo_mut.out $work/demo_clean.out 2>/dev/null | cut -c1-300
fi
rm -rf $work
rm -f /verif/replays/*.json
