#!/bin/bash
# tools/mutant.sh <patch-file|-> "<checks>" [tier]
# Applies a patch to a scratch copy of /repo (outside /repo and /verif), confirms that the
# repository's own suite still passes there, runs the listed checks against the copy
# (VERIF_REPO) and removes the copy. With "-" the patch is read from stdin.
set -u
export GOFLAGS=-mod=mod GOPROXY=off GOSUMDB=off GOTOOLCHAIN=local
patch="$1"; checks="$2"; tier="${3:-quick}"
ROOT="$(cd "$(dirname "$0")/.." && pwd)"
dir=$(mktemp -d /tmp/mutant.XXXXXX)/go-jmespath
mkdir -p "$dir"
rsync -a --exclude .git /repo/ "$dir"/
if [ "$patch" = "-" ]; then patch=/dev/stdin; fi
if ! (cd "$dir" && patch -p1 -s < "$patch"); then echo "PATCH FAILED"; rm -rf "$(dirname "$dir")"; exit 2; fi
if (cd "$dir" && go build ./... && go test -vet=off -count=1 ./... >/tmp/mutant-suite.out 2>&1); then echo "suite: PASS"; else echo "suite: FAIL (not a useful mutant)"; tail -5 /tmp/mutant-suite.out; fi
for c in $checks; do
  out=$(VERIF_REPO="$dir" "$ROOT/check" "$c" "$tier" 2>&1); rc=$?
  nv=$(echo "$out" | grep -c '^VIOLATION')
  echo "check $c: rc=$rc violations_lines=$nv :: $(echo "$out" | grep -m1 -A3 '^VIOLATION' | tr '\n' ' ' | cut -c1-400)"
done
rm -rf "$(dirname "$dir")"
rm -f "$ROOT"/replays/*.json
