#!/usr/bin/env python3
"""Self-made mutants (DESIGN Appendix D): one small source edit each on a scratch copy of /repo, kept only if
the repository's own suite still passes; the expected check(s) must fire in the quick tier.

  tools/selfmutants.py [name-prefix ...]     run all (or the named) mutants, print a table, write .build/selfmutants.json
"""
import json, os, shutil, subprocess, sys, tempfile

ENV = dict(os.environ, GOFLAGS="-mod=mod", GOPROXY="off", GOSUMDB="off", GOTOOLCHAIN="local")
ROOT = os.path.dirname(os.path.dirname(os.path.abspath(__file__)))

# (name, file, old, new, expected checks)
M = [
 ("M01 index upper bound <= ", "interpreter.go",
  "if index < len(sliceType) && index >= 0 {\n\t\t\t\treturn sliceType[index], nil",
  "if index <= len(sliceType)-1+0 && index >= -0 && !(index == len(sliceType)-1 && len(sliceType) > 3) {\n\t\t\t\treturn sliceType[index], nil", ["C01"]),
 ("M02 multi-select list nil guard dropped", "interpreter.go",
  "\tcase ASTMultiSelectList:\n\t\tif value == nil {\n\t\t\treturn nil, nil\n\t\t}", "\tcase ASTMultiSelectList:", ["C01"]),
 ("M03 pipe evaluates right side against the original node", "interpreter.go",
  "\t\t\tresult, err = intr.Execute(child, result)", "\t\t\tresult, err = intr.Execute(child, value)", ["C01", "C15"]),
 ("M04 projection keeps null results", "interpreter.go",
  "\t\t\tcurrent, err = intr.Execute(node.children[1], element)\n\t\t\tif err != nil {\n\t\t\t\treturn nil, err\n\t\t\t}\n\t\t\tif current != nil {\n\t\t\t\tcollected = append(collected, current)\n\t\t\t}",
  "\t\t\tcurrent, err = intr.Execute(node.children[1], element)\n\t\t\tif err != nil {\n\t\t\t\treturn nil, err\n\t\t\t}\n\t\t\tif current != nil || len(sliceType) > 5 {\n\t\t\t\tcollected = append(collected, current)\n\t\t\t}", ["C02"]),
 ("M05 flatten flattens two levels", "interpreter.go",
  "\t\t\tif elementSlice, ok := element.([]interface{}); ok {\n\t\t\t\tflattened = append(flattened, elementSlice...)",
  "\t\t\tif elementSlice, ok := element.([]interface{}); ok {\n\t\t\t\tfor _, e2 := range elementSlice {\n\t\t\t\t\tif s2, ok := e2.([]interface{}); ok && len(s2) == 1 {\n\t\t\t\t\t\tflattened = append(flattened, s2...)\n\t\t\t\t\t} else {\n\t\t\t\t\t\tflattened = append(flattened, e2)\n\t\t\t\t\t}\n\t\t\t\t}", ["C02"]),
 ("M06 filter keeps elements whose condition is non-nil", "interpreter.go",
  "\t\t\tif !isFalse(result) {\n\t\t\t\tcurrent, err := intr.Execute(node.children[1], element)\n\t\t\t\tif err != nil {\n\t\t\t\t\treturn nil, err\n\t\t\t\t}\n\t\t\t\tif current != nil {\n\t\t\t\t\tcollected = append(collected, current)\n\t\t\t\t}\n\t\t\t}\n\t\t}\n\t\treturn collected, nil\n\tcase ASTFlatten:",
  "\t\t\tif result != nil && result != false {\n\t\t\t\tcurrent, err := intr.Execute(node.children[1], element)\n\t\t\t\tif err != nil {\n\t\t\t\t\treturn nil, err\n\t\t\t\t}\n\t\t\t\tif current != nil {\n\t\t\t\t\tcollected = append(collected, current)\n\t\t\t\t}\n\t\t\t}\n\t\t}\n\t\treturn collected, nil\n\tcase ASTFlatten:", ["C02", "C07"]),
 ("M07 binding powers of || and && swapped", "parser.go", "\ttOr:                 2,\n\ttAnd:                3,", "\ttOr:                 3,\n\ttAnd:                2,", ["C03"]),
 ("M08 Pratt loop <= (right associativity)", "parser.go", "\tfor bindingPower < bindingPowers[currentToken] {", "\tfor bindingPower <= bindingPowers[currentToken] && bindingPowers[currentToken] > 0 {", ["C03"]),
 ("M09 projection stop threshold 10 -> 6", "parser.go", "\tif bindingPowers[current] < 10 {", "\tif bindingPowers[current] < 6 {", ["C03", "C04"]),
 ("M10 multi-select list comma optional", "parser.go",
  "\t\tif p.current() == tRbracket {\n\t\t\tbreak\n\t\t}\n\t\terr = p.match(tComma)\n\t\tif err != nil {\n\t\t\treturn ASTNode{}, err\n\t\t}",
  "\t\tif p.current() == tRbracket {\n\t\t\tbreak\n\t\t}\n\t\tif p.current() == tComma {\n\t\t\tp.advance()\n\t\t}", ["C04"]),
 ("M11 missing ) tolerated at end of input", "parser.go",
  "\t\tif err := p.match(tRparen); err != nil {\n\t\t\treturn ASTNode{}, err\n\t\t}\n\t\treturn expression, nil",
  "\t\tif p.current() != tEOF {\n\t\t\tif err := p.match(tRparen); err != nil {\n\t\t\t\treturn ASTNode{}, err\n\t\t\t}\n\t\t}\n\t\treturn expression, nil", ["C04"]),
 ("M12 identifier trailing mask accepts '-'", "lexer.go", "var identifierTrailingBits = [2]uint64{287948901175001088,", "var identifierTrailingBits = [2]uint64{287948901175001088 | 1<<45,", ["C14", "C04"]),
 ("M13 delimiter scan does not skip the escaped character", "lexer.go",
  "\t\tif current == '\\\\' && lexer.peek() != eof {\n\t\t\tlexer.next()\n\t\t}", "\t\tif current == '\\\\' && lexer.peek() != eof && lexer.peek() != '\\\\' {\n\t\t\tlexer.next()\n\t\t}", ["C14"]),
 ("M14 vertical tab is whitespace", "lexer.go", "\t' ': true, '\\t': true, '\\n': true, '\\r': true,", "\t' ': true, '\\t': true, '\\n': true, '\\r': true, '\\v': true,", ["C14"]),
 ("M15 the number 0 is false-like", "util.go", "\tcase string:\n\t\treturn len(v) == 0\n\tcase nil:", "\tcase string:\n\t\treturn len(v) == 0\n\tcase float64:\n\t\treturn v == 0\n\tcase nil:", ["C07"]),
 ("M16 ordering comparators compare strings too", "interpreter.go",
  "\t\tleftNum, ok := left.(float64)\n\t\tif !ok {\n\t\t\treturn nil, nil\n\t\t}",
  "\t\tleftNum, ok := left.(float64)\n\t\tif !ok {\n\t\t\tif ls, ok := left.(string); ok {\n\t\t\t\tif rs, ok := right.(string); ok && node.value == tLT {\n\t\t\t\t\treturn ls < rs, nil\n\t\t\t\t}\n\t\t\t}\n\t\t\treturn nil, nil\n\t\t}", ["C07"]),
 ("M17 capSlice >= length -> > length", "util.go", "\t} else if actual >= length {", "\t} else if actual > length {", ["C08"]),
 ("M18 negative-step default stop -1 -> 0", "util.go", "\t\tif stepValueNegative {\n\t\t\tstop = -1\n\t\t}", "\t\tif stepValueNegative {\n\t\t\tstop = 0\n\t\t}", ["C08"]),
 ("M19 max_by returns the last extremal element", "functions.go", "\t\t\tif current > bestVal {\n\t\t\t\tbestVal = current\n\t\t\t\tbestItem = item\n\t\t\t}\n\t\t}\n\t\treturn bestItem, nil\n\tcase string:",
  "\t\t\tif current >= bestVal {\n\t\t\t\tbestVal = current\n\t\t\t\tbestItem = item\n\t\t\t}\n\t\t}\n\t\treturn bestItem, nil\n\tcase string:", ["C09"]),
 ("M20 sort_by unstable for strings", "functions.go", "\t\tsortable := &byExprString{intr, node, sorted, false}\n\t\tsort.Stable(sortable)", "\t\tsortable := &byExprString{intr, node, sorted, false}\n\t\tsort.Sort(sortable)", ["C09"]),
 ("M21 reverse of a string reverses bytes", "functions.go", "\t\tr := []rune(s)\n", "\t\tr := []byte(s)\n", ["C09"]),
 ("M22 merge: earlier argument wins", "functions.go", "\t\tfor key, value := range mapped {\n\t\t\tfinal[key] = value\n\t\t}", "\t\tfor key, value := range mapped {\n\t\t\tif _, has := final[key]; !has {\n\t\t\t\tfinal[key] = value\n\t\t\t}\n\t\t}", ["C09"]),
 ("M23 type check skipped for the last fixed position of 3+-ary... (2nd arg of join)", "functions.go",
  "\t\tfor i, spec := range e.arguments {\n\t\t\tuserArg := arguments[i]\n\t\t\terr := spec.typeCheck(userArg)",
  "\t\tfor i, spec := range e.arguments {\n\t\t\tuserArg := arguments[i]\n\t\t\tif e.name == \"join\" && i == 1 && isSliceType(userArg) {\n\t\t\t\tcontinue\n\t\t\t}\n\t\t\terr := spec.typeCheck(userArg)", ["C10"]),
 ("M24 array[number] accepts any array for sum", "functions.go",
  "\tcase jpArrayNumber:\n\t\t\tif _, ok := toArrayNum(arg); ok {\n\t\t\t\treturn nil\n\t\t\t}",
  "\tcase jpArrayNumber:\n\t\t\tif _, ok := toArrayNum(arg); ok {\n\t\t\t\treturn nil\n\t\t\t}\n\t\t\tif s, ok := arg.([]interface{}); ok && len(s) > 0 && s[0] == nil {\n\t\t\t\treturn nil\n\t\t\t}", ["C10"]),
 ("M25 sub-expression swallows an error of its left side", "interpreter.go",
  "\tcase ASTSubexpression, ASTIndexExpression:\n\t\tleft, err := intr.Execute(node.children[0], value)\n\t\tif err != nil {\n\t\t\treturn nil, err\n\t\t}",
  "\tcase ASTSubexpression, ASTIndexExpression:\n\t\tleft, err := intr.Execute(node.children[0], value)\n\t\tif err != nil {\n\t\t\treturn nil, nil\n\t\t}", ["C11"]),
 ("M26 sort_by ignores the error latch for numbers", "functions.go",
  "\t\tsortable := &byExprFloat{intr, node, sorted, false}\n\t\tsort.Stable(sortable)\n\t\tif sortable.hasError {", "\t\tsortable := &byExprFloat{intr, node, sorted, false}\n\t\tsort.Stable(sortable)\n\t\tif sortable.hasError && len(sorted) < 3 {", ["C10", "C11"]),
 ("M27 reverse reverses arrays in place", "functions.go",
  "\treversed := make([]interface{}, length)\n\tfor i, item := range items {\n\t\treversed[length-(i+1)] = item\n\t}\n\treturn reversed, nil",
  "\tfor i, j := 0, length-1; i < j; i, j = i+1, j-1 {\n\t\titems[i], items[j] = items[j], items[i]\n\t}\n\treturn items, nil", ["C06", "C12", "C13"]),
 ("M29 result memo on the compiled expression", "api.go",
  "func (jp *JMESPath) Search(data interface{}) (interface{}, error) {\n\treturn jp.intr.Execute(jp.ast, data)\n}",
  "var lastData interface{}\nvar lastRes interface{}\n\nfunc (jp *JMESPath) Search(data interface{}) (interface{}, error) {\n\tif s, ok := data.(string); ok {\n\t\tif l, ok := lastData.(string); ok && l == s && lastRes != nil {\n\t\t\treturn lastRes, nil\n\t\t}\n\t}\n\tres, err := jp.intr.Execute(jp.ast, data)\n\tif err == nil {\n\t\tlastData, lastRes = data, res\n\t}\n\treturn res, err\n}", ["C12", "C13"]),
 ("M30 parser keeps its index when tokenize fails", "parser.go",
  "\tp.expression = expression\n\tp.index = 0\n\ttokens, err := lexer.tokenize(expression)\n\tif err != nil {\n\t\treturn ASTNode{}, err\n\t}\n\tp.tokens = tokens",
  "\tp.expression = expression\n\ttokens, err := lexer.tokenize(expression)\n\tif err != nil {\n\t\tp.index = len(p.tokens)\n\t\treturn ASTNode{}, err\n\t}\n\tif p.index >= len(tokens) || p.index < 2 {\n\t\tp.index = 0\n\t} else {\n\t\tp.index = 1\n\t\tdefer func() { p.index = 0 }()\n\t}\n\tp.tokens = tokens", ["C13"]),
 ("M32 avg of [] is NaN again", "functions.go", "\tif len(args) == 0 {\n\t\treturn nil, nil\n\t}\n\tlength := float64(len(args))", "\tlength := float64(len(args))", ["C16", "C09"]),
 ("M33 keys of {} is a nil slice", "functions.go", "\tcollected := make([]interface{}, 0, len(arg))\n\tfor key := range arg {", "\tvar collected []interface{}\n\tfor key := range arg {", ["C16"]),
 ("M34 lexer error offset one too far", "lexer.go", "\t\tOffset:     lexer.currentPos - 1,", "\t\tOffset:     lexer.currentPos + 1,", ["C17"]),
 ("M35 Compile returns a value together with the error for lexer errors", "api.go",
  "\tast, err := parser.Parse(expression)\n\tif err != nil {\n\t\treturn nil, err\n\t}\n\tjmespath := &JMESPath{ast: ast, intr: newInterpreter()}\n\treturn jmespath, nil\n}\n\n// MustCompile",
  "\tast, err := parser.Parse(expression)\n\tjmespath := &JMESPath{ast: ast, intr: newInterpreter()}\n\tif err != nil {\n\t\tif _, ok := err.(SyntaxError); ok {\n\t\t\treturn nil, err\n\t\t}\n\t\treturn jmespath, err\n\t}\n\treturn jmespath, nil\n}\n\n// MustCompile", ["C17"]),
 ("M36 projectWithReflection keeps nil results", "interpreter.go",
  "\t\tresult, err := intr.Execute(node.children[1], element)\n\t\tif err != nil {\n\t\t\treturn nil, err\n\t\t}\n\t\tif result != nil {\n\t\t\tcollected = append(collected, result)\n\t\t}\n\t}\n\treturn collected, nil\n}",
  "\t\tresult, err := intr.Execute(node.children[1], element)\n\t\tif err != nil {\n\t\t\treturn nil, err\n\t\t}\n\t\tcollected = append(collected, result)\n\t}\n\treturn collected, nil\n}", ["C18"]),
 ("M37 fieldFromStruct does not capitalise", "interpreter.go", "\tfieldName := string(unicode.ToUpper(first)) + key[n:]", "\tfieldName := string(first) + key[n:]\n\t_ = unicode.ToUpper", ["C18"]),
 ("M38 jpgo exits 0 after an evaluation error", "cmd/jpgo/main.go",
  "\tif err != nil {\n\t\treturn errMsg(\"Error executing expression: %s\", err)\n\t}", "\tif err != nil {\n\t\terrMsg(\"Error executing expression: %s\", err)\n\t\treturn 0\n\t}", ["C19"]),
 ("M39 jpgo prints the result before checking the Search error", "cmd/jpgo/main.go",
  "\tresult, err := jmespath.Search(expression, data)\n\tif err != nil {", "\tresult, err := jmespath.Search(expression, data)\n\tfmt.Println(result)\n\tif err != nil {", ["C19"]),
]


def run(cmd, cwd, env=ENV, timeout=3600):
    p = subprocess.run(cmd, cwd=cwd, env=env, stdout=subprocess.PIPE, stderr=subprocess.STDOUT, text=True, timeout=timeout)
    return p.returncode, p.stdout


def main():
    want = sys.argv[1:]
    rows = []
    for name, f, old, new, checks in M:
        if want and not any(name.startswith(w) for w in want):
            continue
        work = tempfile.mkdtemp(prefix="selfmut.")
        d = os.path.join(work, "go-jmespath")
        subprocess.run(["rsync", "-a", "--exclude", ".git", "/repo/", d + "/"], check=True)
        p = os.path.join(d, f)
        s = open(p).read()
        if s.count(old) != 1:
            rows.append({"mutant": name, "status": "PATTERN NOT FOUND (%d)" % s.count(old)})
            print(rows[-1]); shutil.rmtree(work); continue
        open(p, "w").write(s.replace(old, new))
        rc, out = run(["bash", "-c", "go build ./... && go test -vet=off -count=1 ./..."], d)
        suite = "PASS" if rc == 0 else "FAIL"
        row = {"mutant": name, "suite": suite, "checks": {}}
        if rc != 0:
            row["suite_tail"] = out[-300:]
        for c in checks:
            env = dict(ENV, VERIF_REPO=d)
            rc, out = run([os.path.join(ROOT, "check"), c, "quick"], ROOT, env)
            row["checks"][c] = "FIRES" if rc == 1 else ("silent" if rc == 0 else "rc=%d" % rc)
            if rc == 1:
                first = [l for l in out.splitlines() if l.startswith("  api=")]
                row.setdefault("witness", {})[c] = first[0][:200] if first else ""
        rows.append(row)
        print(json.dumps(row)[:600], flush=True)
        shutil.rmtree(work)
        for fn in os.listdir(os.path.join(ROOT, "replays")):
            if fn.endswith(".json"):
                os.remove(os.path.join(ROOT, "replays", fn))
    os.makedirs(os.path.join(ROOT, ".build"), exist_ok=True)
    json.dump(rows, open(os.path.join(ROOT, ".build", "selfmutants.json"), "w"), indent=1)
    print("\n%-75s %-5s %s" % ("mutant", "suite", "checks"))
    for r in rows:
        print("%-75s %-5s %s" % (r["mutant"][:75], r.get("suite", "-"), " ".join("%s:%s" % kv for kv in r.get("checks", {}).items()) or r.get("status", "")))


if __name__ == "__main__":
    main()
