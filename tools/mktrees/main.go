//go:build verif

// Command mktrees is a dev-time calibration tool (DESIGN §3.x). It converts
// the real parser's AST of every compliance-suite expression into a gen
// tree, checks that the tree's minimal spelling re-parses to the same AST,
// and freezes (tree, given, official result) into testdata so that the
// reference model can be pinned to the spec authors' expectations without
// touching /repo afterwards.
package main

import (
	"encoding/json"
	"fmt"
	"os"
	"path/filepath"
	"sort"
	"strconv"
	"strings"

	jmespath "github.com/jmespath/go-jmespath"

	"verifharness/gen"
	"verifharness/ref"
)

type suite struct {
	Given interface{} `json:"given"`
	Cases []struct {
		Expression string      `json:"expression"`
		Result     interface{} `json:"result"`
		Error      string      `json:"error"`
	} `json:"cases"`
}

type Frozen struct {
	File   string      `json:"file"`
	Expr   string      `json:"expr"`
	Tree   *gen.Expr   `json:"tree,omitempty"`
	Given  interface{} `json:"given"`
	Result interface{} `json:"result"`
	Error  string      `json:"error,omitempty"`
	Note   string      `json:"note,omitempty"`
}

var wrapAlways bool

func nt(n jmespath.ASTNode) string               { return jmespath.VerifNodeType(n) }
func kids(n jmespath.ASTNode) []jmespath.ASTNode { return jmespath.VerifChildren(n) }

func isOpenProj(n jmespath.ASTNode) bool {
	switch nt(n) {
	case "ASTProjection", "ASTFilterProjection", "ASTValueProjection":
		return true
	}
	return false
}

func cmpOp(v interface{}) string {
	switch fmt.Sprint(v) {
	case "tEQ":
		return "=="
	case "tNE":
		return "!="
	case "tLT":
		return "<"
	case "tLTE":
		return "<="
	case "tGT":
		return ">"
	case "tGTE":
		return ">="
	}
	panic("cmpOp " + fmt.Sprint(v))
}

func conv(n jmespath.ASTNode) *gen.Expr {
	c := kids(n)
	switch nt(n) {
	case "ASTField":
		return gen.Field(jmespath.VerifValue(n).(string))
	case "ASTLiteral":
		v := jmespath.VerifValue(n)
		// normalise through JSON so that the value is a plain JSON value
		b, _ := json.Marshal(v)
		var w interface{}
		json.Unmarshal(b, &w)
		return gen.LitVal(w)
	case "ASTCurrentNode":
		return gen.Current()
	case "ASTNotExpression":
		return gen.Not(conv(c[0]))
	case "ASTOrExpression":
		return gen.Or(conv(c[0]), conv(c[1]))
	case "ASTAndExpression":
		return gen.And(conv(c[0]), conv(c[1]))
	case "ASTPipe":
		return gen.Pipe(conv(c[0]), conv(c[1]))
	case "ASTComparator":
		return gen.Cmp(cmpOp(jmespath.VerifValue(n)), conv(c[0]), conv(c[1]))
	case "ASTMultiSelectList":
		items := []*gen.Expr{}
		for _, k := range c {
			items = append(items, conv(k))
		}
		return gen.MultiList(items...)
	case "ASTMultiSelectHash":
		var keys []gen.Key
		var vals []*gen.Expr
		for _, k := range c {
			name := jmespath.VerifValue(k).(string)
			keys = append(keys, gen.Key{Name: name, Quoted: !gen.IsUnquotedIdent(name)})
			vals = append(vals, conv(kids(k)[0]))
		}
		return gen.MultiHash(keys, vals)
	case "ASTFunctionExpression":
		args := []*gen.Expr{}
		for _, k := range c {
			args = append(args, conv(k))
		}
		return gen.Func(jmespath.VerifValue(n).(string), args...)
	case "ASTExpRef":
		return gen.ExpRef(conv(c[0]))
	}
	h, s := toChain(n)
	if len(s) == 0 {
		if h == nil {
			return gen.Current() // bare identity cannot be spelled; never reached for real parses
		}
		return h
	}
	return gen.Chain(h, s...)
}

func headOf(l jmespath.ASTNode, nextIsFlatten bool) (*gen.Expr, []gen.Step) {
	if isOpenProj(l) && !nextIsFlatten && wrapAlways {
		return gen.Paren(conv(l)), nil
	}
	return toChain(l)
}

func asStep(h *gen.Expr) gen.Step {
	switch h.K {
	case gen.KField:
		return gen.Step{K: gen.SField, Name: h.Name, Quoted: h.Quoted}
	case gen.KMultiList:
		return gen.Step{K: gen.SMultiList, X: h}
	case gen.KMultiHash:
		return gen.Step{K: gen.SMultiHash, X: h}
	case gen.KFunc:
		return gen.Step{K: gen.SFunc, X: h}
	}
	panic("asStep: cannot follow a dot: " + h.K.String())
}

func rhsSteps(r jmespath.ASTNode) []gen.Step {
	h, s := toChain(r)
	if h == nil {
		return s
	}
	return append([]gen.Step{asStep(h)}, s...)
}

func sliceStep(n jmespath.ASTNode) gen.Step {
	parts := jmespath.VerifValue(n).([]*int)
	var st gen.Step
	st.K = gen.SSlice
	for i, p := range parts {
		if p != nil {
			t := strconv.Itoa(*p)
			st.Sl[i] = &t
		}
	}
	return st
}

func toChain(n jmespath.ASTNode) (*gen.Expr, []gen.Step) {
	c := kids(n)
	switch nt(n) {
	case "ASTIdentity":
		return nil, nil
	case "ASTSubexpression":
		h, s := headOf(c[0], false)
		hr, sr := toChain(c[1])
		if hr == nil {
			if len(sr) == 0 || sr[0].K != gen.SStar {
				panic("subexpression rhs without head")
			}
			return h, append(s, sr...)
		}
		s = append(s, asStep(hr))
		return h, append(s, sr...)
	case "ASTIndexExpression":
		h, s := headOf(c[0], false)
		if nt(c[1]) == "ASTIndex" {
			return h, append(s, gen.StIndex(int64(jmespath.VerifValue(c[1]).(int))))
		}
		return h, append(s, sliceStep(c[1]))
	case "ASTProjection":
		l := c[0]
		switch {
		case nt(l) == "ASTFlatten":
			h, s := headOf(kids(l)[0], true)
			s = append(s, gen.StFlatten())
			return h, append(s, rhsSteps(c[1])...)
		case nt(l) == "ASTIndexExpression" && nt(kids(l)[1]) == "ASTSlice":
			h, s := headOf(kids(l)[0], false)
			s = append(s, sliceStep(kids(l)[1]))
			return h, append(s, rhsSteps(c[1])...)
		}
		h, s := headOf(l, false)
		s = append(s, gen.StListStar())
		return h, append(s, rhsSteps(c[1])...)
	case "ASTFilterProjection":
		h, s := headOf(c[0], false)
		s = append(s, gen.StFilter(conv(c[2])))
		return h, append(s, rhsSteps(c[1])...)
	case "ASTValueProjection":
		h, s := headOf(c[0], false)
		s = append(s, gen.StStar())
		return h, append(s, rhsSteps(c[1])...)
	}
	return conv(n), nil
}

func sexpr(e string) (string, error) {
	ast, err := jmespath.NewParser().Parse(e)
	if err != nil {
		return "", err
	}
	return jmespath.VerifSexpr(ast), nil
}

func tokTypes(s string) string {
	toks, err := gen.RefLex(s)
	if err != nil {
		return "lexerr"
	}
	var parts []string
	for _, t := range toks {
		n := t.T.String()
		switch t.T {
		case gen.TQuoted:
			n = "ident"
		case gen.TRaw:
			n = "literal"
		}
		parts = append(parts, n)
	}
	return strings.Join(parts, " ")
}

func main() {
	dir := "/repo/compliance"
	files, _ := filepath.Glob(dir + "/*.json")
	sort.Strings(files)
	var out []Frozen
	stats := map[string]int{}
	for _, f := range files {
		b, err := os.ReadFile(f)
		if err != nil {
			panic(err)
		}
		var suites []suite
		if err := json.Unmarshal(b, &suites); err != nil {
			panic(f + ": " + err.Error())
		}
		for _, su := range suites {
			for _, cs := range su.Cases {
				fr := Frozen{File: filepath.Base(f), Expr: cs.Expression, Given: su.Given, Result: cs.Result, Error: cs.Error}
				ast, err := jmespath.NewParser().Parse(cs.Expression)
				if err != nil {
					stats["unparsable (no tree)"]++
					fr.Note = "not parsed by the implementation: " + err.Error()
					out = append(out, fr)
					continue
				}
				want := jmespath.VerifSexpr(ast)
				var tree *gen.Expr
				ok := false
				for _, wa := range []bool{false, true} {
					wrapAlways = wa
					func() {
						defer func() {
							if r := recover(); r != nil {
								fr.Note = fmt.Sprint("convert: ", r)
							}
						}()
						tree = conv(ast)
					}()
					if tree == nil {
						break
					}
					got, err := sexpr(gen.Spell(tree))
					if err == nil && got == want {
						ok = true
						break
					}
				}
				if !ok {
					stats["NOT ROUND-TRIPPED"]++
					fmt.Printf("NOT ROUND-TRIPPED %s: %q -> %q\n", fr.File, cs.Expression, func() string {
						if tree == nil {
							return fr.Note
						}
						return gen.Spell(tree)
					}())
					continue
				}
				if a, b := tokTypes(cs.Expression), tokTypes(gen.Spell(tree)); a != b {
					stats["token sequence differs (review)"]++
					fr.Note = "spelling differs in token types from the original: " + gen.Spell(tree)
					fmt.Printf("REVIEW %s: %q spelled %q\n", fr.File, cs.Expression, gen.Spell(tree))
				}
				fr.Tree = tree
				// model verdict
				res := ref.RefSet(tree, su.Given, gen.Quirks{})
				switch {
				case cs.Error != "":
					if len(res.Outcomes) == 1 && res.Outcomes[0].Err != "" {
						stats["error case: model agrees"]++
					} else {
						stats["ERROR CASE: MODEL DISAGREES"]++
						fmt.Printf("MODEL-DISAGREES(error %s) %s: %q model=%v dontcare=%v\n", cs.Error, fr.File, cs.Expression, res.Outcomes, res.DontCare)
					}
				default:
					hit := false
					for _, o := range res.Outcomes {
						if o.Err == "" && ref.Match(o.V, cs.Result) {
							hit = true
						}
					}
					if hit {
						stats["value case: model agrees"]++
					} else if res.DontCare || res.Skipped != "" {
						stats["value case: model dont-care/skipped"]++
						fmt.Printf("DONTCARE %s: %q (%s)\n", fr.File, cs.Expression, res.Skipped)
					} else {
						stats["VALUE CASE: MODEL DISAGREES"]++
						fmt.Printf("MODEL-DISAGREES %s: %q official=%s model=%v\n", fr.File, cs.Expression, ref.Canon(cs.Result), res.Outcomes)
					}
				}
				out = append(out, fr)
			}
		}
	}
	keys := make([]string, 0, len(stats))
	for k := range stats {
		keys = append(keys, k)
	}
	sort.Strings(keys)
	for _, k := range keys {
		fmt.Printf("%-45s %d\n", k, stats[k])
	}
	b, _ := json.MarshalIndent(out, "", " ")
	if len(os.Args) > 1 {
		os.WriteFile(os.Args[1], b, 0o644)
		fmt.Println("wrote", os.Args[1], len(out), "cases")
	}
}
