#!/bin/bash
# tools/seedsome.sh <parallelism> <property>... : tools/seedall.sh restricted to the seeded changes of the listed properties.
P="$1"; shift
cd "$(dirname "$0")/.."
for p in "$@"; do tools/seedall.sh "$P" "$p"; done
