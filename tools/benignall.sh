#!/bin/bash
# tools/benignall.sh [parallelism]: runs every behaviour-preserving change kept in seeded/benign/ through every quick check.
ROOT="$(cd "$(dirname "$0")/.." && pwd)"
P="${1:-2}"
for b in B1 B2 B3 B4 B5 B6; do for i in 1 2 3; do echo "$b $i"; done; done | xargs -P "$P" -L 1 sh -c '"'"$ROOT"'/tools/benigncheck.sh" $0 $1'
