#!/bin/bash
# tools/benigncheck.sh <Bk> <i> : applies a behaviour-preserving change written by a sub-agent
# (/tmp/wt/<Bk>-out/b<i>.diff) to a scratch copy of /repo, confirms build + suite, and runs EVERY quick check
# against it. Any VIOLATION is a false-alarm candidate to be adjudicated by hand (either the change is not
# behaviour-preserving after all, or the check demands more than the property states).
set -u
export GOFLAGS=-mod=mod GOPROXY=off GOSUMDB=off GOTOOLCHAIN=local
B="$1"; I="$2"
ROOT="$(cd "$(dirname "$0")/.." && pwd)"
patch="$ROOT/seeded/benign/$B-b$I.diff"
[ -f "$patch" ] || { echo "no patch $patch"; exit 2; }
work=$(mktemp -d /tmp/benign.XXXXXX); mut=$work/go-jmespath; mkdir -p $mut
rsync -a --exclude .git /repo/ $mut/
if ! (cd $mut && patch -p1 -s < $patch); then echo "[$B-b$I] PATCH DOES NOT APPLY"; rm -rf $work; exit 2; fi
(cd $mut && go build ./... && go build -tags verif ./... && go test -vet=off -count=1 ./... > $work/suite.out 2>&1) && echo "[$B-b$I] build+suite: PASS" || { echo "[$B-b$I] build+suite: FAIL"; tail -5 $work/suite.out; }
for c in C01 C02 C03 C04 C05 C06 C07 C08 C09 C10 C11 C12 C13 C14 C15 C16 C17 C18 C19; do
  out=$(VERIF_REPO=$mut "$ROOT/check" $c quick 2>&1); rc=$?
  if [ $rc -ne 0 ]; then
    echo "[$B-b$I] $c rc=$rc :: $(echo "$out" | grep -m2 -A3 -E '^VIOLATION|BUILD FAILED' | tr '\n' ' ' | cut -c1-700)"
  else
    echo "[$B-b$I] $c silent"
  fi
done
rm -rf $work; rm -f "$ROOT"/replays/*.json
