#!/bin/bash
# tools/seedall.sh [parallelism] [pattern]
# Re-runs the quick tier of the property's own check (plus the extra checks recorded in meta.json's
# detected_by) against every kept seeded change in /verif/seeded/*/patch.diff, on scratch copies of /repo.
# Prints one line per change: "<id> caught-by: ..." or "<id> MISSED".
set -u
P="${1:-3}"; PAT="${2:-C}"
ROOT="$(cd "$(dirname "$0")/.." && pwd)"; export ROOT
cd "$ROOT"
one() {
  d="$1"; id=$(basename "$d"); prop=${id%%-*}
  extra=$(python3 -c "
import json,sys,re
m=json.load(open('$d/meta.json'))
s=set(re.sub(r'\(.*','',x) for x in m.get('detected_by',[]))
s.discard('$prop'); print(' '.join(sorted(s)))")
  out=$("$ROOT/tools/mutant.sh" "$ROOT/$d/patch.diff" "$prop $extra" 2>&1)
  by=$(echo "$out" | grep '^check ' | grep 'rc=1' | sed 's/^check \([A-Z0-9]*\):.*/\1/' | tr '\n' ' ')
  if echo "$out" | grep -q "PATCH FAILED"; then echo "$id PATCH-FAILED"; elif [ -n "$by" ]; then echo "$id caught-by: $by"; else echo "$id MISSED :: $(echo "$out" | grep '^check ' | cut -c1-120 | tr '\n' ' ')"; fi
}
export -f one
ls -d seeded/${PAT}*-m* | xargs -P "$P" -I{} bash -c 'one {}'
