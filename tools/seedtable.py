#!/usr/bin/env python3
"""Prints the markdown table of seeded changes from /verif/seeded/*/meta.json."""
import json, glob, os, re
rows=[]
for m in sorted(glob.glob(os.path.join(os.path.dirname(os.path.dirname(os.path.abspath(__file__))),'seeded','*','meta.json'))):
    d=json.load(open(m))
    rd=d.get('readme_excerpt','')
    i=d['id'].split('-m')[1]
    # find the heading of this mutant's section
    what=''
    for line in rd.splitlines():
        if re.search(r'(?i)\b(mutant|m)\s*%s\b'%i, line) and len(line)<200:
            what=line.strip('# *').strip(); break
    rows.append((d['id'], what[:110], ' '.join(d.get('detected_by',[])) or 'NOTHING'))
print('| id | change (agent\'s heading) | caught by |'); print('|---|---|---|')
for r in rows: print('| %s | %s | %s |'%r)
print('\n%d seeded changes'%len(rows))
