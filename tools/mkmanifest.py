#!/usr/bin/env python3
"""Regenerates /verif/MANIFEST.json from the table below (kept next to the code so the
manifest stays valid and current). Usage: tools/mkmanifest.py"""
import json, os, subprocess
ROOT = os.path.dirname(os.path.dirname(os.path.abspath(__file__)))

# id -> (technique, level text, level note, design ref)
CLAIMED = {}
def claim(pid, technique, text, note, ref):
    CLAIMED[pid] = (technique, text, note, ref)

exec(open(os.path.join(ROOT, "tools", "claims.py")).read())

props = [json.loads(l) for l in open(os.path.join(ROOT, "properties.jsonl"))]
checks, na = [], []
for p in props:
    pid = p["id"]
    if pid in CLAIMED:
        technique, text, note, ref = CLAIMED[pid]
        checks.append({
            "property_id": pid,
            "quick_cmd": "./check %s quick" % pid,
            "thorough_cmd": "./check %s thorough" % pid,
            "evidence_file": "/verif/evidence/%s.json" % pid,
            "replay_cmd_template": "./check %s --replay {path}" % pid,
            "engine": "vh",
            "level_claimed": {"category": "exploration", "text": text, "design_ref": ref},
            "level_note": note,
            "technique": technique,
        })
    else:
        na.append({"property_id": pid, "reason": NOT_CLAIMED.get(pid, "check not built yet in this session (design: DESIGN.md §4 %s); nothing is claimed for it" % pid)})

hooks_commits = subprocess.run(["git", "-C", "/repo", "log", "--format=%h", "--", "verif_hooks.go"], capture_output=True, text=True).stdout.split()
m = {
    "version": 1,
    "setup_cmd": "./setup.sh",
    "hooks": {
        "guard": "verif",
        "enable": "go build -tags verif (Go build tag; the only guarded file is /repo/verif_hooks.go, add-only: VerifSexpr, VerifAST, VerifNodeType, VerifChildren, VerifValue)",
        "baseline_off_cmd": "/verif/tools/repotest.sh",
        "source_commits": hooks_commits,
        "add_only": True,
    },
    "engines": [
        {"name": "vh", "path": "/verif/cmd/vh", "serves_properties": sorted(CLAIMED), "kind_free_text": "runtime monitoring harness: seeded/exhaustive workloads driven through the public API of the current /repo build, observed by monitors (reference-model monitor, panic guard, race detector as write monitor, history checker, JSON-closure walker); child process per check under a watchdog"},
        {"name": "ref", "path": "/verif/ref", "serves_properties": sorted(CLAIMED), "kind_free_text": "independent executable model of JMESPath evaluation (member-order nondeterminism as a result set), CPython slice model, function signature table, ABNF recogniser"},
        {"name": "gen", "path": "/verif/gen", "serves_properties": sorted(CLAIMED), "kind_free_text": "expression trees, precedence-aware spellers (minimal / fully parenthesised / whitespace variants), enumerators, seeded PRNG"},
    ],
    "checks": checks,
    "not_applicable": na,
    "notes": NOTES,
}
json.dump(m, open(os.path.join(ROOT, "MANIFEST.json"), "w"), indent=1)
print("MANIFEST.json: %d checks, %d not claimed" % (len(checks), len(na)))
