#!/bin/bash
# MANIFEST.setup_cmd: build the harness from files on disk only and warm the
# build cache (plain and -race standard library), then run the framework's own
# calibration self-tests (they exercise the reference engines, not /repo).
set -e
cd "$(dirname "$0")"
export GOFLAGS=-mod=mod GOPROXY=off GOSUMDB=off GOTOOLCHAIN=local
mkdir -p .build evidence replays
go build -tags verif -o .build/vh-warm ./cmd/vh
go build -tags verif -race -o .build/vh-warm-race ./cmd/vh
rm -f .build/vh-warm .build/vh-warm-race
go test -count=1 ./gen/ ./ref/ ./mon/ ./docs/ 2>&1 | tail -20
echo "setup ok"
