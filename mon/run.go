package mon

import (
	"crypto/sha1"
	"encoding/base64"
	"encoding/hex"
	"encoding/json"
	"fmt"
	"hash/fnv"
	"os"
	"path/filepath"
	"runtime"
	"sort"
	"strconv"
	"strings"
	"sync"
	"sync/atomic"
	"time"
)

// Violation is a concrete witness against a property.
type Violation struct {
	Property string      `json:"property"`
	Workload string      `json:"workload"`
	Index    int         `json:"case_index"`
	API      string      `json:"api"`
	Expr     string      `json:"expression"`
	ExprB64  string      `json:"expression_base64"`
	Doc      interface{} `json:"document,omitempty"`
	DocDesc  string      `json:"document_desc,omitempty"`
	Expected string      `json:"expected"`
	Observed string      `json:"observed"`
	Detail   string      `json:"detail,omitempty"`
	Class    string      `json:"class,omitempty"` // exact family label used by known_findings.json matchers
	Seed     uint64      `json:"seed"`
	Tier     string      `json:"tier"`
	Extra    interface{} `json:"extra,omitempty"`
}

// Finding is one entry of known_findings.json.
type Finding struct {
	ID       string   `json:"id"`
	Property []string `json:"property"`
	Status   string   `json:"status"` // open | fixed
	What     string   `json:"what"`
	CallSite string   `json:"call_site,omitempty"`
	Commit   string   `json:"commit,omitempty"`
	Match    *struct {
		Kind   string      `json:"kind"` // input | class
		API    string      `json:"api,omitempty"`
		Expr   string      `json:"expr,omitempty"`
		Doc    interface{} `json:"doc,omitempty"`
		HasDoc bool        `json:"has_doc,omitempty"`
		Class  string      `json:"class,omitempty"`
	} `json:"match,omitempty"`
}

type findingsFile struct {
	Findings []Finding `json:"findings"`
}

// Tally is a worker-local accumulator merged into the Run at batch ends.
type Tally struct {
	evals    int64
	nontrivN int64
	keys     map[uint64]struct{}
	counters map[string]int64
	sets     map[string]map[string]struct{}
	samples  []interface{}
	r        *Run
}

func (t *Tally) Eval()       { t.evals++ }
func (t *Tally) Evals(n int) { t.evals += int64(n) }
func (t *Tally) Count(name string) {
	t.counters[name]++
}
func (t *Tally) CountN(name string, n int64) { t.counters[name] += n }

// Set records member in the named set of constructs observed.
func (t *Tally) Set(set, member string) {
	m := t.sets[set]
	if m == nil {
		m = map[string]struct{}{}
		t.sets[set] = m
	}
	m[member] = struct{}{}
}

// Nontrivial records one non-trivial case identified by key; distinctness is
// measured over the whole run.
func (t *Tally) Nontrivial(key string) {
	h := fnv.New64a()
	h.Write([]byte(key))
	t.keys[h.Sum64()] = struct{}{}
}

// NontrivialDistinct records n non-trivial cases known to be distinct from
// every other case of the run by construction (exhaustive enumerations).
func (t *Tally) NontrivialDistinct(n int) { t.nontrivN += int64(n) }

// Sample keeps a few actual cases for the evidence file.
func (t *Tally) Sample(s interface{}) {
	if len(t.samples) < 4 {
		t.samples = append(t.samples, s)
	}
}

// Run accumulates what one check execution observed.
type Run struct {
	Prop, Tier  string
	Seed        uint64
	Root        string // /verif
	Rule        string
	Exhaustive  bool
	Assumptions []string
	Extra       map[string]interface{}
	Floor       int // minimum distinct non-trivial cases for a conclusive run
	Level       string

	mu          sync.Mutex
	evals       int64
	nontrivN    int64
	keys        map[uint64]struct{}
	counters    map[string]int64
	sets        map[string]map[string]struct{}
	samples     []interface{}
	samplesBy   map[string]int
	violations  []*Violation
	nviol       int
	violClasses map[string]int
	knownSeen   map[string]int
	knownOrder  []string
	inconcl     []string
	findings    []Finding
	workloads   []map[string]interface{}
	start       time.Time
	batchLog    *os.File
	pinpoint    string
	reachSample int
	Workers     int
}

// NewRun reads the environment (VERIF_SEED, VERIF_ROOT, VH_BATCHLOG,
// VH_PINPOINT, VH_WORKERS) and the known-findings file.
func NewRun(prop, tier string) *Run {
	r := &Run{Prop: prop, Tier: tier, Seed: 1, Level: "exploration",
		keys: map[uint64]struct{}{}, counters: map[string]int64{}, sets: map[string]map[string]struct{}{},
		samplesBy: map[string]int{}, knownSeen: map[string]int{}, violClasses: map[string]int{},
		Extra: map[string]interface{}{}, start: time.Now(), Floor: 2}
	if s := os.Getenv("VERIF_SEED"); s != "" {
		if v, err := strconv.ParseUint(s, 10, 64); err == nil {
			r.Seed = v
		} else if v, err := strconv.ParseInt(s, 10, 64); err == nil {
			r.Seed = uint64(v)
		}
	}
	r.Root = os.Getenv("VERIF_ROOT")
	if r.Root == "" {
		r.Root = "/verif"
	}
	r.Workers = runtime.NumCPU()
	if s := os.Getenv("VH_WORKERS"); s != "" {
		if v, err := strconv.Atoi(s); err == nil && v > 0 {
			r.Workers = v
		}
	}
	r.pinpoint = os.Getenv("VH_PINPOINT")
	if v, err := strconv.Atoi(os.Getenv("VH_REACH_SAMPLE")); err == nil && v > 0 {
		r.reachSample = v
		r.pinpoint = "reach" // no evidence file, no floor message
	}
	if p := os.Getenv("VH_BATCHLOG"); p != "" {
		f, err := os.OpenFile(p, os.O_CREATE|os.O_WRONLY|os.O_APPEND, 0o644)
		if err == nil {
			r.batchLog = f
		}
	}
	b, err := os.ReadFile(filepath.Join(r.Root, "known_findings.json"))
	if err == nil {
		var ff findingsFile
		if err := json.Unmarshal(b, &ff); err != nil {
			fmt.Fprintln(os.Stderr, "known_findings.json: ", err)
			os.Exit(2)
		}
		r.findings = ff.Findings
	}
	return r
}

func (r *Run) NewTally() *Tally {
	return &Tally{keys: map[uint64]struct{}{}, counters: map[string]int64{}, sets: map[string]map[string]struct{}{}, r: r}
}

func (r *Run) Merge(t *Tally) {
	r.mu.Lock()
	defer r.mu.Unlock()
	r.evals += t.evals
	r.nontrivN += t.nontrivN
	for k := range t.keys {
		r.keys[k] = struct{}{}
	}
	for k, v := range t.counters {
		r.counters[k] += v
	}
	for s, m := range t.sets {
		d := r.sets[s]
		if d == nil {
			d = map[string]struct{}{}
			r.sets[s] = d
		}
		for k := range m {
			d[k] = struct{}{}
		}
	}
	for _, s := range t.samples {
		if len(r.samples) < 12 {
			r.samples = append(r.samples, s)
		}
	}
	*t = *r.NewTally()
}

// Inconclusive records that part of the run could not be judged.
func (r *Run) Inconclusive(why string) {
	r.mu.Lock()
	defer r.mu.Unlock()
	if len(r.inconcl) < 50 {
		r.inconcl = append(r.inconcl, why)
	}
}

func (r *Run) matchFinding(v *Violation) *Finding {
	for i := range r.findings {
		f := &r.findings[i]
		if f.Status != "open" || f.Match == nil {
			continue
		}
		has := false
		for _, p := range f.Property {
			if p == v.Property {
				has = true
			}
		}
		if !has {
			continue
		}
		switch f.Match.Kind {
		case "class":
			if v.Class != "" && v.Class == f.Match.Class {
				return f
			}
		case "input":
			if f.Match.Expr != v.Expr {
				continue
			}
			if f.Match.API != "" && f.Match.API != v.API {
				continue
			}
			if f.Match.HasDoc && Show(f.Match.Doc) != Show(v.Doc) {
				continue
			}
			return f
		}
	}
	return nil
}

// Violate records a violation: either attributed to a listed open finding
// (KNOWN-FINDING, does not fail the run) or reported as VIOLATION.
func (r *Run) Violate(v *Violation) {
	if r.reachSample > 0 {
		return // the reach pass only measures which library code the workload executes
	}
	v.Property = r.Prop
	v.Seed, v.Tier = r.Seed, r.Tier
	v.ExprB64 = base64.StdEncoding.EncodeToString([]byte(v.Expr))
	r.mu.Lock()
	defer r.mu.Unlock()
	if f := r.matchFinding(v); f != nil {
		if r.knownSeen[f.ID] == 0 {
			r.knownOrder = append(r.knownOrder, f.ID)
			fmt.Printf("KNOWN-FINDING: property=%s %s: %s (first seen this run: %s on %s)\n", r.Prop, f.ID, f.What, clip(strconv.QuoteToASCII(v.Expr), 300), docBrief(v))
		}
		r.knownSeen[f.ID]++
		return
	}
	r.nviol++
	cls := v.Class
	if cls == "" {
		cls = v.Workload
	}
	r.violClasses[cls]++
	if r.violClasses[cls] > 5 || len(r.violations) >= 40 {
		return // counted, not written: enough witnesses of this class
	}
	r.violations = append(r.violations, v)
	path := r.writeReplay(v)
	fmt.Printf("VIOLATION property=%s replay=%s\n", r.Prop, path)
	fmt.Printf("  api=%s expr=%s doc=%s\n  expected: %s\n  observed: %s\n", v.API, clip(strconv.QuoteToASCII(v.Expr), 600), docBrief(v), clip(v.Expected, 1500), clip(v.Observed, 1500))
	if v.Detail != "" {
		fmt.Printf("  detail: %s\n", v.Detail)
	}
}

func clip(s string, n int) string {
	if len(s) > n {
		return s[:n] + "…"
	}
	return s
}

func docBrief(v *Violation) string {
	if v.DocDesc != "" {
		return v.DocDesc
	}
	s := Show(v.Doc)
	if len(s) > 300 {
		s = s[:300] + "…"
	}
	return s
}

func (r *Run) writeReplay(v *Violation) string {
	dir := filepath.Join(r.Root, "replays")
	os.MkdirAll(dir, 0o755)
	b, err := json.MarshalIndent(v, "", " ")
	if err != nil {
		v2 := *v
		v2.Doc = Show(v.Doc)
		v2.Extra = nil
		b, _ = json.MarshalIndent(&v2, "", " ")
	}
	sum := sha1.Sum(b)
	path := filepath.Join(dir, r.Prop+"-"+hex.EncodeToString(sum[:6])+".json")
	os.WriteFile(path, b, 0o644)
	return path
}

// Violations returns the number of (unlisted) violations so far.
func (r *Run) Violations() int {
	r.mu.Lock()
	defer r.mu.Unlock()
	return r.nviol
}

// Workload is a deterministic list of cases.
type Workload struct {
	Name     string
	N        int
	Do       func(i int, t *Tally)
	Describe func(i int) string // the input of case i, logged before the call in pinpoint mode
	Batch    int                // cases per batch (default 1000)
	Serial   bool               // run on one goroutine (C12/C13 style workloads that manage their own concurrency)
}

// Exec runs workloads one after the other, each spread over the workers.
func (r *Run) Exec(ws ...Workload) {
	for _, w := range ws {
		r.exec(w)
	}
}

func (r *Run) logf(format string, a ...interface{}) {
	if r.batchLog != nil {
		fmt.Fprintf(r.batchLog, format, a...)
	}
}

func (r *Run) exec(w Workload) {
	if w.Batch <= 0 {
		w.Batch = 1000
	}
	t0 := time.Now()
	if r.pinpoint != "" && r.reachSample == 0 {
		// VH_PINPOINT=name:start:end — replay one batch, logging every case before it runs.
		parts := strings.Split(r.pinpoint, ":")
		if len(parts) != 3 || parts[0] != w.Name {
			return
		}
		a, _ := strconv.Atoi(parts[1])
		b, _ := strconv.Atoi(parts[2])
		t := r.NewTally()
		for i := a; i < b && i < w.N; i++ {
			d := w.Name + "#" + strconv.Itoa(i)
			if w.Describe != nil {
				d = w.Describe(i)
			}
			r.logf("C %s %d %s\n", w.Name, i, strconv.Quote(d))
			if r.batchLog != nil {
				r.batchLog.Sync()
			}
			w.Do(i, t)
		}
		r.Merge(t)
		return
	}
	if r.reachSample > 0 {
		// reach pass (coverage-instrumented build): a strided sample of the same cases, no verdicts kept
		stride := (w.N + r.reachSample - 1) / r.reachSample
		if stride < 1 {
			stride = 1
		}
		t := r.NewTally()
		for i := 0; i < w.N; i += stride {
			w.Do(i, t)
		}
		return
	}
	var next int64
	nb := (w.N + w.Batch - 1) / w.Batch
	workers := r.Workers
	if w.Serial {
		workers = 1
	}
	if workers > nb {
		workers = nb
	}
	var wg sync.WaitGroup
	var logMu sync.Mutex
	// Stall alarm: a case that has been running for VH_CASE_ALARM seconds
	// (default 90; cases take micro- to milliseconds) only *nominates* a
	// hang: the child exits with status 3 and the driver re-runs the
	// unfinished batches case by case in a fresh process to confirm it.
	alarm := int64(90)
	if s := os.Getenv("VH_CASE_ALARM"); s != "" {
		if v, err := strconv.ParseInt(s, 10, 64); err == nil && v > 0 {
			alarm = v
		}
	}
	type slot struct{ idx, since int64 }
	slots := make([]slot, workers)
	stopMon := make(chan struct{})
	go func() {
		tk := time.NewTicker(500 * time.Millisecond)
		defer tk.Stop()
		for {
			select {
			case <-stopMon:
				return
			case <-tk.C:
				now := time.Now().UnixNano()
				for k := range slots {
					since := atomic.LoadInt64(&slots[k].since)
					if since != 0 && now-since > alarm*1e9 {
						idx := atomic.LoadInt64(&slots[k].idx)
						logMu.Lock()
						r.logf("STALL %s %d\n", w.Name, idx)
						if r.batchLog != nil {
							r.batchLog.Sync()
						}
						fmt.Printf("STALL workload=%s case=%d has been running for more than %ds\n", w.Name, idx, alarm)
						os.Exit(3)
					}
				}
			}
		}
	}()
	for k := 0; k < workers; k++ {
		wg.Add(1)
		k := k
		go func() {
			defer wg.Done()
			t := r.NewTally()
			for {
				b := int(atomic.AddInt64(&next, 1)) - 1
				if b >= nb {
					break
				}
				lo, hi := b*w.Batch, (b+1)*w.Batch
				if hi > w.N {
					hi = w.N
				}
				logMu.Lock()
				r.logf("B %s %d %d\n", w.Name, lo, hi)
				logMu.Unlock()
				for i := lo; i < hi; i++ {
					atomic.StoreInt64(&slots[k].idx, int64(i))
					atomic.StoreInt64(&slots[k].since, time.Now().UnixNano())
					w.Do(i, t)
				}
				atomic.StoreInt64(&slots[k].since, 0)
				logMu.Lock()
				r.logf("D %s %d %d\n", w.Name, lo, hi)
				logMu.Unlock()
				r.Merge(t)
			}
		}()
	}
	wg.Wait()
	close(stopMon)
	r.mu.Lock()
	r.workloads = append(r.workloads, map[string]interface{}{"name": w.Name, "cases": w.N, "wall_s": round2(time.Since(t0).Seconds())})
	r.mu.Unlock()
}

func round2(f float64) float64 { return float64(int64(f*100+0.5)) / 100 }

// Finish writes the evidence file, prints the summary and returns the exit
// status (0 held / 1 violation).
func (r *Run) Finish() int {
	r.mu.Lock()
	defer r.mu.Unlock()
	distinct := int64(len(r.keys)) + r.nontrivN
	cov := map[string]interface{}{
		"evaluations":         r.evals,
		"distinct_nontrivial": distinct,
		"rule":                r.Rule,
		"samples":             r.samples,
		"exhaustive":          r.Exhaustive,
		"workloads":           r.workloads,
	}
	obs := map[string]interface{}{}
	ck := make([]string, 0, len(r.counters))
	for k := range r.counters {
		ck = append(ck, k)
	}
	sort.Strings(ck)
	for _, k := range ck {
		obs[k] = r.counters[k]
	}
	cov["observed"] = obs
	constructs := map[string]interface{}{}
	for s, m := range r.sets {
		l := make([]string, 0, len(m))
		for k := range m {
			l = append(l, k)
		}
		sort.Strings(l)
		if len(l) > 80 {
			constructs[s] = map[string]interface{}{"count": len(l), "first": l[:40]}
		} else {
			constructs[s] = map[string]interface{}{"count": len(l), "members": l}
		}
	}
	cov["constructs"] = constructs
	if len(r.inconcl) > 0 {
		cov["inconclusive"] = r.inconcl
	}
	kf := map[string]int{}
	for id, n := range r.knownSeen {
		kf[id] = n
	}
	cov["known_findings_seen"] = kf
	for k, v := range r.Extra {
		cov[k] = v
	}
	if len(r.samples) == 0 {
		cov["samples"] = []interface{}{"(no case was sampled)"}
	}
	ev := map[string]interface{}{
		"property_id": r.Prop,
		"tier":        r.Tier,
		"seed":        int64(r.Seed & 0x7fffffffffffffff),
		"level":       r.Level,
		"coverage":    cov,
		"assumptions": r.Assumptions,
		"wall_s":      round2(time.Since(r.start).Seconds()),
		"violations":  r.nviol,
	}
	if r.pinpoint == "" {
		// Runs against a scratch copy (VERIF_REPO: seeded changes, mutants) must not overwrite the
		// evidence of /repo itself.
		evdir := filepath.Join(r.Root, "evidence")
		if alt := os.Getenv("VERIF_REPO"); alt != "" && alt != "/repo" {
			evdir = filepath.Join(r.Root, ".build", "evidence-scratch")
		}
		os.MkdirAll(evdir, 0o755)
		b, err := json.MarshalIndent(ev, "", " ")
		if err != nil {
			fmt.Fprintln(os.Stderr, "evidence marshal:", err)
			return 2
		}
		if err := os.WriteFile(filepath.Join(evdir, r.Prop+".json"), b, 0o644); err != nil {
			fmt.Fprintln(os.Stderr, "evidence write:", err)
			return 2
		}
	}
	fmt.Printf("SUMMARY property=%s tier=%s seed=%d evaluations=%d distinct_nontrivial=%d violations=%d known_findings=%d wall=%.1fs\n",
		r.Prop, r.Tier, r.Seed, r.evals, distinct, r.nviol, len(r.knownSeen), time.Since(r.start).Seconds())
	for _, k := range ck {
		fmt.Printf("  %-40s %d\n", k, r.counters[k])
	}
	for _, w := range r.inconcl {
		fmt.Printf("INCONCLUSIVE property=%s %s\n", r.Prop, w)
	}
	if r.nviol == 0 && distinct < int64(r.Floor) && r.pinpoint == "" {
		fmt.Printf("INCONCLUSIVE property=%s only %d distinct non-trivial cases observed (floor %d): the monitors saw too little to conclude\n", r.Prop, distinct, r.Floor)
	}
	if r.nviol > 0 {
		fmt.Printf("RESULT property=%s VIOLATED (%d violations, %d replay files)\n", r.Prop, r.nviol, len(r.violations))
		return 1
	}
	fmt.Printf("RESULT property=%s held on everything explored\n", r.Prop)
	return 0
}
