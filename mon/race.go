package mon

import (
	"os"
	"reflect"
	"regexp"
	"strconv"
	"strings"
	"time"
)

// DeepRead reads every word of a document that a write could touch: slice
// elements up to cap (a write into spare capacity is a write to the caller's
// memory too), every map entry, struct fields, pointees. It is run on a
// goroutine that has no synchronisation with the searcher, so that under
// the race detector ANY write to the document is reported as a data race,
// whether or not it changes a value (DESIGN §1.1).
func DeepRead(v interface{}) int {
	switch t := v.(type) {
	case []interface{}:
		n := 1
		for _, e := range t[:cap(t)] {
			n += DeepRead(e)
		}
		return n
	case map[string]interface{}:
		n := 1
		for k, e := range t {
			n += len(k) + DeepRead(e)
		}
		return n
	case nil, bool, float64, string:
		return 1
	}
	return deepRead(reflect.ValueOf(v), 0)
}

var sink int

func deepRead(v reflect.Value, depth int) int {
	if !v.IsValid() || depth > 300 {
		return 0
	}
	n := 1
	switch v.Kind() {
	case reflect.Interface, reflect.Ptr:
		if !v.IsNil() {
			n += deepRead(v.Elem(), depth+1)
		}
	case reflect.Slice:
		if v.IsNil() {
			return n
		}
		full := v.Slice(0, v.Cap())
		for i := 0; i < full.Len(); i++ {
			n += deepRead(full.Index(i), depth+1)
		}
	case reflect.Map:
		it := v.MapRange()
		for it.Next() {
			n += len(it.Key().String())
			n += deepRead(it.Value(), depth+1)
		}
	case reflect.Struct:
		for i := 0; i < v.NumField(); i++ {
			n += deepRead(v.Field(i), depth+1)
		}
	case reflect.String:
		n += v.Len()
	case reflect.Float64, reflect.Float32:
		if v.Float() != 0 {
			n++
		}
	case reflect.Bool:
		if v.Bool() {
			n++
		}
	}
	return n
}

// RaceLog watches the race detector's log file (GORACE log_path.<pid>).
type RaceLog struct {
	path string
	size int64
}

// OpenRaceLog returns nil when the binary was not started by the driver with
// a race log (VH_RACELOG unset).
func OpenRaceLog() *RaceLog {
	p := os.Getenv("VH_RACELOG")
	if p == "" {
		return nil
	}
	return &RaceLog{path: p + "." + strconv.Itoa(os.Getpid())}
}

// Grown returns the text appended to the log since the last call ("" if none).
func (l *RaceLog) Grown() string {
	if l == nil {
		return ""
	}
	// the runtime writes the report synchronously, but give the file system a moment on growth only
	st, err := os.Stat(l.path)
	if err != nil || st.Size() == l.size {
		return ""
	}
	time.Sleep(2 * time.Millisecond)
	b, err := os.ReadFile(l.path)
	if err != nil || int64(len(b)) <= l.size {
		return ""
	}
	out := string(b[l.size:])
	l.size = int64(len(b))
	return out
}

var frameRe = regexp.MustCompile(`(?m)^\s+(\S+)\(.*\)\n\s+(\S+):(\d+)`)

// RaceSummary extracts, from a race report, the number of reports and the
// top library frames (function names of frames whose file is inside the
// repository under test), for de-duplication and for the replay file.
func RaceSummary(report string, repoHint string) (n int, frames []string) {
	n = strings.Count(report, "WARNING: DATA RACE")
	seen := map[string]bool{}
	for _, m := range frameRe.FindAllStringSubmatch(report, -1) {
		if strings.Contains(m[2], repoHint) || strings.Contains(m[1], "go-jmespath.") {
			f := m[1]
			if !seen[f] {
				seen[f] = true
				frames = append(frames, f+" ("+m[2][strings.LastIndex(m[2], "/")+1:]+")")
			}
		}
	}
	return
}
