// Package mon holds E5 of DESIGN.md: the monitors (panic guard, snapshot,
// JSON-closure walker, overlap meter), the workload runner with its batch
// log, and the evidence / replay / known-findings plumbing.
package mon

import (
	"encoding/json"
	"fmt"
	"math"
	"reflect"
	"runtime/debug"
	"sort"
	"strconv"
	"strings"
)

// Observed is what a guarded library call did.
type Observed struct {
	Panicked bool
	Panic    string // fmt of the recovered value
	Stack    string
	Err      error
	V        interface{}
}

func (o Observed) Class() string {
	switch {
	case o.Panicked:
		return "panic"
	case o.Err != nil:
		return "error"
	case o.V == nil:
		return "null"
	}
	return "value"
}

func (o Observed) String() string {
	switch {
	case o.Panicked:
		return "PANIC: " + o.Panic
	case o.Err != nil:
		return "error: " + o.Err.Error()
	}
	return "value: " + Show(o.V)
}

// Guard runs f, turning a panic into an observation.
func Guard(f func() (interface{}, error)) (o Observed) {
	defer func() {
		if r := recover(); r != nil {
			o.Panicked = true
			o.Panic = fmt.Sprint(r)
			st := string(debug.Stack())
			if len(st) > 4000 {
				st = st[:4000]
			}
			o.Stack = st
		}
	}()
	v, err := f()
	o.V, o.Err = v, err
	return
}

// Show renders any Go value deterministically; JSON values as canonical
// JSON-like text, anything else with its Go type.
func Show(v interface{}) string {
	var sb strings.Builder
	show(&sb, v, 0)
	s := sb.String()
	if len(s) > 2000 {
		s = s[:2000] + "…"
	}
	return s
}

func show(sb *strings.Builder, v interface{}, depth int) {
	if depth > 64 {
		sb.WriteString("…")
		return
	}
	switch t := v.(type) {
	case nil:
		sb.WriteString("null")
	case bool:
		sb.WriteString(strconv.FormatBool(t))
	case float64:
		sb.WriteString(strconv.FormatFloat(t, 'g', -1, 64))
	case string:
		sb.WriteString(strconv.QuoteToASCII(t))
	case []interface{}:
		if t == nil {
			sb.WriteString("#<nil []interface{}>")
			return
		}
		sb.WriteByte('[')
		for i, e := range t {
			if i > 0 {
				sb.WriteByte(',')
			}
			show(sb, e, depth+1)
		}
		sb.WriteByte(']')
	case map[string]interface{}:
		if t == nil {
			sb.WriteString("#<nil map>")
			return
		}
		keys := make([]string, 0, len(t))
		for k := range t {
			keys = append(keys, k)
		}
		sort.Strings(keys)
		sb.WriteByte('{')
		for i, k := range keys {
			if i > 0 {
				sb.WriteByte(',')
			}
			sb.WriteString(strconv.QuoteToASCII(k))
			sb.WriteByte(':')
			show(sb, t[k], depth+1)
		}
		sb.WriteByte('}')
	default:
		s := fmt.Sprintf("%+v", v)
		if len(s) > 300 {
			s = s[:300] + "…"
		}
		fmt.Fprintf(sb, "#<%T %s>", v, s)
	}
}

// JSONClosed checks that v is JSON data in the sense of C16: only nil, bool,
// finite float64, string, non-nil []interface{}, non-nil
// map[string]interface{}, recursively; and that it survives a
// Marshal/Unmarshal round trip as an equal value. It returns "" or a
// description of the first offence.
func JSONClosed(v interface{}) string {
	if why := jsonWalk(v, "$", 0); why != "" {
		return why
	}
	b, err := json.Marshal(v)
	if err != nil {
		return "json.Marshal failed: " + err.Error()
	}
	var back interface{}
	if err := json.Unmarshal(b, &back); err != nil {
		return "json.Unmarshal of the marshalled result failed: " + err.Error()
	}
	if !jsonEqual(v, back) {
		return "marshal/unmarshal round trip differs: " + Show(back)
	}
	return ""
}

// JSONShape is the type walk of JSONClosed alone (no marshalling): "" when v is made of nil, bool,
// finite float64, string, non-nil []interface{} and non-nil map[string]interface{} only.
func JSONShape(v interface{}) string {
	if jsonShapeOK(v, 0) {
		return ""
	}
	return jsonWalk(v, "$", 0)
}

func jsonShapeOK(v interface{}, depth int) bool {
	if depth > 10000 {
		return true
	}
	switch t := v.(type) {
	case nil, bool, string:
		return true
	case float64:
		return !math.IsNaN(t) && !math.IsInf(t, 0)
	case []interface{}:
		if t == nil {
			return false
		}
		for _, e := range t {
			if !jsonShapeOK(e, depth+1) {
				return false
			}
		}
		return true
	case map[string]interface{}:
		if t == nil {
			return false
		}
		for _, e := range t {
			if !jsonShapeOK(e, depth+1) {
				return false
			}
		}
		return true
	}
	return false
}

func jsonWalk(v interface{}, path string, depth int) string {
	if depth > 10000 {
		return ""
	}
	switch t := v.(type) {
	case nil, bool, string:
		return ""
	case float64:
		if math.IsNaN(t) || math.IsInf(t, 0) {
			return fmt.Sprintf("%s is a non-finite number (%v)", path, t)
		}
		return ""
	case []interface{}:
		if t == nil {
			return path + " is a nil slice, not an empty array"
		}
		for i, e := range t {
			if why := jsonWalk(e, path+"["+strconv.Itoa(i)+"]", depth+1); why != "" {
				return why
			}
		}
		return ""
	case map[string]interface{}:
		if t == nil {
			return path + " is a nil map, not an empty object"
		}
		for k, e := range t {
			if why := jsonWalk(e, path+"."+strconv.Quote(k), depth+1); why != "" {
				return why
			}
		}
		return ""
	}
	return fmt.Sprintf("%s has Go type %T, which is not JSON data", path, v)
}

// jsonEqual: deep equality of JSON values (numbers by ==, so -0 == 0).
func jsonEqual(a, b interface{}) bool {
	switch x := a.(type) {
	case nil:
		return b == nil
	case bool:
		y, ok := b.(bool)
		return ok && x == y
	case float64:
		y, ok := b.(float64)
		return ok && x == y
	case string:
		y, ok := b.(string)
		if ok && x == y {
			return true
		}
		// encoding/json replaces invalid UTF-8 by U+FFFD on Marshal; a
		// string that is not valid UTF-8 cannot round-trip by design and
		// is outside "JSON data" documents.
		return false
	case []interface{}:
		y, ok := b.([]interface{})
		if !ok || len(x) != len(y) {
			return false
		}
		for i := range x {
			if !jsonEqual(x[i], y[i]) {
				return false
			}
		}
		return true
	case map[string]interface{}:
		y, ok := b.(map[string]interface{})
		if !ok || len(x) != len(y) {
			return false
		}
		for k, xv := range x {
			yv, has := y[k]
			if !has || !jsonEqual(xv, yv) {
				return false
			}
		}
		return true
	}
	return false
}

// JSONEqual is exported deep equality over JSON values, strict by Go type.
func JSONEqual(a, b interface{}) bool { return jsonEqual(a, b) }

// DeepCopy copies a JSON value.
func DeepCopy(v interface{}) interface{} {
	switch t := v.(type) {
	case []interface{}:
		out := make([]interface{}, len(t))
		for i, e := range t {
			out[i] = DeepCopy(e)
		}
		return out
	case map[string]interface{}:
		out := make(map[string]interface{}, len(t))
		for k, e := range t {
			out[k] = DeepCopy(e)
		}
		return out
	}
	return v
}

// Snapshot is a canonical deep encoding of an arbitrary Go value (JSON data
// or the struct documents of C18), used to compare a document before and
// after a call. Slices are encoded up to len (never into spare capacity),
// pointers by pointee.
func Snapshot(v interface{}) string {
	var sb strings.Builder
	snapAny(&sb, v, 0)
	return sb.String()
}

// snapAny is the fast path for generic JSON values; anything else goes
// through reflection.
func snapAny(sb *strings.Builder, v interface{}, depth int) {
	switch t := v.(type) {
	case nil:
		sb.WriteString("nil")
	case bool:
		sb.WriteString(strconv.FormatBool(t))
	case float64:
		sb.WriteString(strconv.FormatFloat(t, 'g', -1, 64))
		if t == 0 && math.Signbit(t) {
			sb.WriteString("(-0)")
		}
	case string:
		sb.WriteString(strconv.Quote(t))
	case []interface{}:
		if t == nil {
			sb.WriteString("([]interface {})nil")
			return
		}
		sb.WriteString("[]interface {}[")
		for i, e := range t {
			if i > 0 {
				sb.WriteByte(',')
			}
			snapAny(sb, e, depth+1)
		}
		sb.WriteByte(']')
	case map[string]interface{}:
		if t == nil {
			sb.WriteString("(map[string]interface {})nil")
			return
		}
		keys := make([]string, 0, len(t))
		for k := range t {
			keys = append(keys, k)
		}
		sort.Strings(keys)
		sb.WriteString("map{")
		for i, k := range keys {
			if i > 0 {
				sb.WriteByte(',')
			}
			sb.WriteString(strconv.Quote(k))
			sb.WriteByte(':')
			snapAny(sb, t[k], depth+1)
		}
		sb.WriteByte('}')
	default:
		snap(sb, reflect.ValueOf(v), depth)
	}
}

func snap(sb *strings.Builder, v reflect.Value, depth int) {
	if depth > 200 {
		sb.WriteString("…")
		return
	}
	if !v.IsValid() {
		sb.WriteString("nil")
		return
	}
	switch v.Kind() {
	case reflect.Interface:
		if v.IsNil() {
			sb.WriteString("nil")
			return
		}
		snap(sb, v.Elem(), depth)
	case reflect.Ptr:
		if v.IsNil() {
			fmt.Fprintf(sb, "(%s)nil", v.Type())
			return
		}
		sb.WriteByte('&')
		snap(sb, v.Elem(), depth+1)
	case reflect.Slice:
		if v.IsNil() {
			fmt.Fprintf(sb, "(%s)nil", v.Type())
			return
		}
		fmt.Fprintf(sb, "%s[", v.Type())
		for i := 0; i < v.Len(); i++ {
			if i > 0 {
				sb.WriteByte(',')
			}
			snap(sb, v.Index(i), depth+1)
		}
		sb.WriteByte(']')
	case reflect.Map:
		if v.IsNil() {
			fmt.Fprintf(sb, "(%s)nil", v.Type())
			return
		}
		keys := v.MapKeys()
		sort.Slice(keys, func(i, j int) bool { return fmt.Sprint(keys[i]) < fmt.Sprint(keys[j]) })
		sb.WriteString("map{")
		for i, k := range keys {
			if i > 0 {
				sb.WriteByte(',')
			}
			fmt.Fprintf(sb, "%q:", fmt.Sprint(k))
			snap(sb, v.MapIndex(k), depth+1)
		}
		sb.WriteByte('}')
	case reflect.Struct:
		fmt.Fprintf(sb, "%s{", v.Type())
		for i := 0; i < v.NumField(); i++ {
			if i > 0 {
				sb.WriteByte(',')
			}
			sb.WriteString(v.Type().Field(i).Name + ":")
			snap(sb, v.Field(i), depth+1)
		}
		sb.WriteByte('}')
	case reflect.Float64, reflect.Float32:
		if v.Type().PkgPath() != "" || v.Kind() == reflect.Float32 {
			sb.WriteString(v.Type().String() + ":")
		}
		sb.WriteString(strconv.FormatFloat(v.Float(), 'g', -1, 64))
		if math.Signbit(v.Float()) && v.Float() == 0 {
			sb.WriteString("(-0)")
		}
	case reflect.String:
		if v.Type().PkgPath() != "" {
			sb.WriteString(v.Type().String() + ":")
		}
		sb.WriteString(strconv.QuoteToASCII(v.String()))
	case reflect.Bool:
		sb.WriteString(strconv.FormatBool(v.Bool()))
	default:
		fmt.Fprintf(sb, "%s:%v", v.Type(), v)
	}
}
