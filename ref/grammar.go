package ref

import "verifharness/gen"

// E3: a memoised recogniser for the published JMESPath ABNF, transcribed
// production by production, over token-type sequences. Ambiguity of the
// ABNF is irrelevant for membership.
//
//	expression        = sub-expression / index-expression / comparator-expression
//	                  / or-expression / identifier / and-expression / not-expression
//	                  / paren-expression / "*" / multi-select-list / multi-select-hash
//	                  / literal / function-expression / pipe-expression / raw-string
//	                  / current-node
//	sub-expression    = expression "." ( identifier / multi-select-list / multi-select-hash
//	                                   / function-expression / "*" )
//	index-expression  = expression bracket-specifier / bracket-specifier
//	bracket-specifier = "[" (number / "*" / slice-expression) "]" / "[]" / "[?" expression "]"
//	slice-expression  = [number] ":" [number] [ ":" [number] ]
//	multi-select-list = "[" ( expression *( "," expression ) ) "]"
//	multi-select-hash = "{" ( keyval-expr *( "," keyval-expr ) ) "}"
//	keyval-expr       = identifier ":" expression
//	function-expression = unquoted-string ( "(" ")" / "(" function-arg *( "," function-arg ) ")" )
//	function-arg      = expression / "&" expression
//
// Relax adds, one by one, productions that reproduce a documented family of
// over-acceptance; it is used only to classify a disagreement (DESIGN §2.5).

type Relax struct {
	ExprefAnywhere bool // expression =/ "&" expression
}

// sequences of up to maxTok tokens are decided in fixed storage (the exhaustive enumerations decide
// millions of them); longer ones, up to MaxLongTok, on the heap (cubic time: a few hundred per run).
const (
	maxTok     = 40
	MaxLongTok = 700
)

const (
	mExpr = iota
	mList
	mArgs
	mKV
)

type Recognizer struct {
	toks  []gen.TokType
	n, st int
	relax Relax
	// memo: 0 unknown, 1 yes, 2 no; tab[k][i*st+j]
	tab  [4][]uint8
	heap [4][]uint8
	fix  [4][(maxTok + 1) * (maxTok + 1)]uint8
}

// Accepts reports whether the token sequence is a sentence of the grammar.
func Accepts(toks []gen.TokType, relax Relax) bool {
	if len(toks) == 0 || len(toks) > MaxLongTok {
		return false
	}
	var r Recognizer
	return r.Run(toks, relax)
}

// Run resets the recogniser and decides toks.
func (r *Recognizer) Run(toks []gen.TokType, relax Relax) bool {
	n := len(toks)
	if n == 0 || n > MaxLongTok {
		return false
	}
	r.toks, r.n, r.st, r.relax = toks, n, n+1, relax
	sz := (n + 1) * (n + 1)
	for k := range r.tab {
		if n <= maxTok {
			r.tab[k] = r.fix[k][:sz]
		} else if cap(r.heap[k]) >= sz {
			r.tab[k] = r.heap[k][:sz]
		} else {
			r.heap[k] = make([]uint8, sz)
			r.tab[k] = r.heap[k]
			continue
		}
		for q := range r.tab[k] {
			r.tab[k][q] = 0
		}
	}
	return r.expr(0, n)
}

func (r *Recognizer) isIdent(i, j int) bool {
	return j == i+1 && (r.toks[i] == gen.TIdent || r.toks[i] == gen.TQuoted)
}

func (r *Recognizer) expr(i, j int) bool {
	if j <= i {
		return false
	}
	if m := r.tab[mExpr][i*r.st+j]; m != 0 {
		return m == 1
	}
	r.tab[mExpr][i*r.st+j] = 2 // cycle guard (left recursion goes through strictly shorter spans anyway)
	ok := r.expr0(i, j)
	if ok {
		r.tab[mExpr][i*r.st+j] = 1
	}
	return ok
}

func (r *Recognizer) expr0(i, j int) bool {
	t := r.toks
	if j == i+1 {
		switch t[i] {
		case gen.TIdent, gen.TQuoted, gen.TStar, gen.TLiteral, gen.TRaw, gen.TCurrent, gen.TFlatten:
			return true // TFlatten: index-expression = bracket-specifier = "[]"
		}
		return false
	}
	// not-expression
	if t[i] == gen.TNot && r.expr(i+1, j) {
		return true
	}
	if r.relax.ExprefAnywhere && t[i] == gen.TExpref && r.expr(i+1, j) {
		return true
	}
	// paren-expression
	if t[i] == gen.TLparen && t[j-1] == gen.TRparen && r.expr(i+1, j-1) {
		return true
	}
	// multi-select-list / hash / function / bare bracket-specifier
	if r.multiList(i, j) || r.multiHash(i, j) || r.function(i, j) || r.bracketSpec(i, j) {
		return true
	}
	for k := i + 1; k < j; k++ {
		// expression bracket-specifier
		if (t[k] == gen.TLbracket || t[k] == gen.TFilter || t[k] == gen.TFlatten) && r.bracketSpec(k, j) && r.expr(i, k) {
			return true
		}
		if k+1 >= j {
			continue
		}
		switch t[k] {
		case gen.TDot:
			if r.dotRHS(k+1, j) && r.expr(i, k) {
				return true
			}
		case gen.TPipe, gen.TOr, gen.TAnd, gen.TCmp:
			if r.expr(i, k) && r.expr(k+1, j) {
				return true
			}
		}
	}
	return false
}

func (r *Recognizer) dotRHS(i, j int) bool {
	if r.isIdent(i, j) {
		return true
	}
	if j == i+1 && r.toks[i] == gen.TStar {
		return true
	}
	return r.multiList(i, j) || r.multiHash(i, j) || r.function(i, j)
}

func (r *Recognizer) multiList(i, j int) bool {
	return j-i >= 3 && r.toks[i] == gen.TLbracket && r.toks[j-1] == gen.TRbracket && r.list(i+1, j-1)
}

// list: expression *( "," expression )
func (r *Recognizer) list(i, j int) bool {
	if j <= i {
		return false
	}
	if m := r.tab[mList][i*r.st+j]; m != 0 {
		return m == 1
	}
	ok := r.expr(i, j)
	for k := i + 1; !ok && k < j-1; k++ {
		if r.toks[k] == gen.TComma && r.expr(i, k) && r.list(k+1, j) {
			ok = true
		}
	}
	r.tab[mList][i*r.st+j] = 2
	if ok {
		r.tab[mList][i*r.st+j] = 1
	}
	return ok
}

func (r *Recognizer) arg(i, j int) bool {
	if r.expr(i, j) {
		return true
	}
	return j-i >= 2 && r.toks[i] == gen.TExpref && r.expr(i+1, j)
}

func (r *Recognizer) args(i, j int) bool {
	if j <= i {
		return false
	}
	if m := r.tab[mArgs][i*r.st+j]; m != 0 {
		return m == 1
	}
	ok := r.arg(i, j)
	for k := i + 1; !ok && k < j-1; k++ {
		if r.toks[k] == gen.TComma && r.arg(i, k) && r.args(k+1, j) {
			ok = true
		}
	}
	r.tab[mArgs][i*r.st+j] = 2
	if ok {
		r.tab[mArgs][i*r.st+j] = 1
	}
	return ok
}

func (r *Recognizer) function(i, j int) bool {
	if j-i < 3 || r.toks[i] != gen.TIdent || r.toks[i+1] != gen.TLparen || r.toks[j-1] != gen.TRparen {
		return false
	}
	if j-i == 3 {
		return true
	}
	return r.args(i+2, j-1)
}

func (r *Recognizer) multiHash(i, j int) bool {
	return j-i >= 5 && r.toks[i] == gen.TLbrace && r.toks[j-1] == gen.TRbrace && r.kvs(i+1, j-1)
}

func (r *Recognizer) kv(i, j int) bool {
	return j-i >= 3 && (r.toks[i] == gen.TIdent || r.toks[i] == gen.TQuoted) && r.toks[i+1] == gen.TColon && r.expr(i+2, j)
}

func (r *Recognizer) kvs(i, j int) bool {
	if j <= i {
		return false
	}
	if m := r.tab[mKV][i*r.st+j]; m != 0 {
		return m == 1
	}
	ok := r.kv(i, j)
	for k := i + 3; !ok && k < j-1; k++ {
		if r.toks[k] == gen.TComma && r.kv(i, k) && r.kvs(k+1, j) {
			ok = true
		}
	}
	r.tab[mKV][i*r.st+j] = 2
	if ok {
		r.tab[mKV][i*r.st+j] = 1
	}
	return ok
}

func (r *Recognizer) bracketSpec(i, j int) bool {
	t := r.toks
	if j == i+1 {
		return t[i] == gen.TFlatten
	}
	if t[i] == gen.TFilter {
		return j-i >= 3 && t[j-1] == gen.TRbracket && r.expr(i+1, j-1)
	}
	if t[i] != gen.TLbracket || t[j-1] != gen.TRbracket {
		return false
	}
	in := t[i+1 : j-1]
	if len(in) == 1 && (in[0] == gen.TNumber || in[0] == gen.TStar) {
		return true
	}
	// slice-expression = [number] ":" [number] [ ":" [number] ]
	p := 0
	opt := func() {
		if p < len(in) && in[p] == gen.TNumber {
			p++
		}
	}
	opt()
	if p >= len(in) || in[p] != gen.TColon {
		return false
	}
	p++
	opt()
	if p < len(in) && in[p] == gen.TColon {
		p++
		opt()
	}
	return p == len(in)
}

// TokTypes maps a lexeme sequence produced by gen.Tokens or an alphabet to
// token types using the reference lexer on each lexeme.
func TokTypes(lexemes []string) ([]gen.TokType, bool) {
	out := make([]gen.TokType, len(lexemes))
	for i, l := range lexemes {
		toks, err := gen.RefLex(l)
		if err != nil || len(toks) != 1 {
			return nil, false
		}
		out[i] = toks[0].T
	}
	return out, true
}
