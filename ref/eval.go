package ref

import (
	"fmt"
	"math/big"
	"sort"

	"verifharness/gen"
)

// ErrKind classifies model errors.
type ErrKind string

const (
	ErrUnknownFunction ErrKind = "unknown-function"
	ErrArity           ErrKind = "invalid-arity"
	ErrType            ErrKind = "invalid-type"
	ErrValue           ErrKind = "invalid-value" // slice step 0
)

// Outcome is what the model assigns to one evaluation under one choice of
// member orders.
type Outcome struct {
	Err      ErrKind // "" = a value
	DontCare bool    // the specification does not define the result; monitors only require "no panic"
	V        interface{}
}

func (o Outcome) String() string {
	switch {
	case o.DontCare:
		return "dont-care"
	case o.Err != "":
		return "error(" + string(o.Err) + ")"
	}
	return Canon(o.V)
}

type evalError struct{ kind ErrKind }

func (e *evalError) Error() string { return string(e.kind) }

type dontCareErr struct{ why string }

func (e *dontCareErr) Error() string { return "dont-care: " + e.why }

type explodeErr struct{}

func (e *explodeErr) Error() string { return "order explosion" }

// chooser enumerates the permutations taken at object-iteration events.
type chooser struct {
	path  []int // choices to replay
	arity []int // arities seen on this run
	pos   int
	// identity forces the sorted-key order at every event (used to count events only)
}

var factorials = []int{1, 1, 2, 6, 24, 120, 720}

// perm returns the order in which to visit n members.
func (c *chooser) perm(n int) []int {
	p := make([]int, n)
	for i := range p {
		p[i] = i
	}
	if n <= 1 {
		return p
	}
	if n >= len(factorials) {
		panic(&explodeErr{})
	}
	ar := factorials[n]
	k := 0
	if c.pos < len(c.path) {
		k = c.path[c.pos]
	}
	c.arity = append(c.arity, ar)
	c.pos++
	// k-th permutation (factorial number system)
	avail := append([]int(nil), p...)
	out := make([]int, 0, n)
	f := ar
	for i := n; i >= 1; i-- {
		f /= i
		j := k / f
		k %= f
		out = append(out, avail[j])
		avail = append(avail[:j], avail[j+1:]...)
	}
	return out
}

// Stats describes what one model evaluation touched (for evidence and for
// the non-triviality rules).
type Stats struct {
	Steps         int // total evaluation steps (cost guard)
	ObjIterations int // object-iteration events
	Misses        int // null produced by a missing key / out-of-range index / type mismatch
	ProjElems     int // elements visited by projections
	FuncCalls     int
	ErrorsRaised  int
}

type evaluator struct {
	ch    *chooser
	q     gen.Quirks
	st    *Stats
	steps int
	limit int
}

// Result is the model's verdict for (tree, document): the set of allowed
// outcomes.
type Result struct {
	Outcomes []Outcome // distinct allowed outcomes (by Canon); one unless member order matters
	DontCare bool      // some path is not defined by the specification: only "no panic" is required
	Skipped  string    // non-empty: not judged (order explosion, cost)
	Stats    Stats
	Paths    int
}

// MaxPaths bounds the number of member-order combinations explored per case.
const MaxPaths = 2000

// RefSet evaluates tree e on document doc under every combination of object
// member orders.
func RefSet(e *gen.Expr, doc interface{}, q gen.Quirks) (res Result) {
	seen := map[string]bool{}
	var path []int
	for {
		ch := &chooser{path: path}
		st := Stats{}
		o, sk := evalOnce(e, doc, ch, q, &st)
		res.Paths++
		if res.Paths == 1 {
			res.Stats = st
		}
		if sk != "" {
			res.Skipped = sk
			return
		}
		if o.DontCare {
			res.DontCare = true
		} else {
			k := o.String()
			if !seen[k] {
				seen[k] = true
				res.Outcomes = append(res.Outcomes, o)
			}
		}
		// next path (odometer over the arities seen on this run)
		next := make([]int, len(ch.arity))
		copy(next, path)
		i := len(ch.arity) - 1
		for i >= 0 {
			next[i]++
			if next[i] < ch.arity[i] {
				break
			}
			i--
		}
		if i < 0 {
			return
		}
		path = next[:i+1]
		if res.Paths >= MaxPaths {
			res.Skipped = "order explosion"
			return
		}
	}
}

// EvalFixed evaluates with the sorted-key member order only.
func EvalFixed(e *gen.Expr, doc interface{}, q gen.Quirks) (Outcome, Stats) {
	st := Stats{}
	o, sk := evalOnce(e, doc, &chooser{}, q, &st)
	if sk != "" {
		return Outcome{DontCare: true}, st
	}
	return o, st
}

func evalOnce(e *gen.Expr, doc interface{}, ch *chooser, q gen.Quirks, st *Stats) (o Outcome, skipped string) {
	ev := &evaluator{ch: ch, q: q, st: st, limit: 2_000_000}
	defer func() {
		if r := recover(); r != nil {
			switch r.(type) {
			case *explodeErr:
				skipped = "order explosion"
			case *costErr:
				skipped = "model cost limit"
			default:
				panic(r)
			}
		}
	}()
	v, err := ev.eval(e, doc)
	if err != nil {
		switch t := err.(type) {
		case *evalError:
			return Outcome{Err: t.kind}, ""
		case *dontCareErr:
			return Outcome{DontCare: true}, ""
		}
		panic(err)
	}
	if ContainsClosure(v) {
		return Outcome{DontCare: true}, ""
	}
	return Outcome{V: v}, ""
}

type costErr struct{}

func (ev *evaluator) tick() {
	ev.steps++
	ev.st.Steps = ev.steps
	if ev.steps > ev.limit {
		panic(&costErr{})
	}
}

func (ev *evaluator) fail(k ErrKind) error {
	ev.st.ErrorsRaised++
	return &evalError{k}
}

func dc(why string) error { return &dontCareErr{why} }

func (ev *evaluator) miss() interface{} {
	ev.st.Misses++
	return nil
}

func (ev *evaluator) eval(e *gen.Expr, v interface{}) (interface{}, error) {
	ev.tick()
	switch e.K {
	case gen.KField:
		return ev.field(e.Name, v), nil
	case gen.KLiteral:
		return e.Val, nil
	case gen.KRaw:
		return e.Val, nil
	case gen.KCurrent:
		return v, nil
	case gen.KParen:
		return ev.eval(e.A, v)
	case gen.KExpRef:
		return &Closure{Body: e.A}, nil
	case gen.KNot:
		x, err := ev.eval(e.A, v)
		if err != nil {
			return nil, err
		}
		f, ok := Falsy(x)
		if !ok {
			return nil, dc("truth value of an expression reference")
		}
		return f, nil
	case gen.KOr:
		x, err := ev.eval(e.A, v)
		if err != nil {
			return nil, err
		}
		f, ok := Falsy(x)
		if !ok {
			return nil, dc("truth value of an expression reference")
		}
		if !f {
			return x, nil
		}
		return ev.eval(e.B, v)
	case gen.KAnd:
		x, err := ev.eval(e.A, v)
		if err != nil {
			return nil, err
		}
		f, ok := Falsy(x)
		if !ok {
			return nil, dc("truth value of an expression reference")
		}
		if f {
			return x, nil
		}
		return ev.eval(e.B, v)
	case gen.KPipe:
		x, err := ev.eval(e.A, v)
		if err != nil {
			return nil, err
		}
		return ev.eval(e.B, x)
	case gen.KCmp:
		x, err := ev.eval(e.A, v)
		if err != nil {
			return nil, err
		}
		y, err := ev.eval(e.B, v)
		if err != nil {
			return nil, err
		}
		switch e.Op {
		case "==", "!=":
			eq, ok := DeepEq(x, y)
			if !ok {
				return nil, dc("equality on to_string text or expression reference")
			}
			if e.Op == "!=" {
				return !eq, nil
			}
			return eq, nil
		}
		if !notModelOnlyTop(x) || !notModelOnlyTop(y) {
			// ordering of a to_string result with anything is null (a string), an expref is undefined
			if _, c := x.(*Closure); c {
				return nil, dc("ordering an expression reference")
			}
			if _, c := y.(*Closure); c {
				return nil, dc("ordering an expression reference")
			}
			return nil, nil
		}
		a, ok1 := x.(float64)
		b, ok2 := y.(float64)
		if !ok1 || !ok2 {
			return ev.miss(), nil
		}
		switch e.Op {
		case "<":
			return a < b, nil
		case "<=":
			return a <= b, nil
		case ">":
			return a > b, nil
		case ">=":
			return a >= b, nil
		}
		panic("model: unknown comparator " + e.Op)
	case gen.KMultiList:
		if v == nil {
			return nil, nil
		}
		out := make([]interface{}, 0, len(e.Items))
		for _, it := range e.Items {
			x, err := ev.eval(it, v)
			if err != nil {
				return nil, err
			}
			out = append(out, x)
		}
		return out, nil
	case gen.KMultiHash:
		if v == nil {
			return nil, nil
		}
		out := make(map[string]interface{}, len(e.Items))
		for i, it := range e.Items {
			x, err := ev.eval(it, v)
			if err != nil {
				return nil, err
			}
			out[e.Keys[i].Name] = x // a later duplicate key wins; generators avoid duplicates
		}
		return out, nil
	case gen.KFunc:
		args := make([]interface{}, 0, len(e.Items))
		for _, it := range e.Items {
			x, err := ev.eval(it, v)
			if err != nil {
				return nil, err
			}
			args = append(args, x)
		}
		ev.st.FuncCalls++
		return ev.call(e.Name, args)
	case gen.KChain:
		x := v
		if e.Head != nil {
			var err error
			x, err = ev.eval(e.Head, v)
			if err != nil {
				return nil, err
			}
		}
		return ev.steps_(e.Steps, x, e.Head == nil)
	}
	panic(fmt.Sprintf("model: unknown node kind %d", e.K))
}

func notModelOnlyTop(v interface{}) bool {
	switch v.(type) {
	case ToStr, *Closure:
		return false
	}
	return true
}

func (ev *evaluator) field(name string, v interface{}) interface{} {
	if m, ok := v.(map[string]interface{}); ok {
		if x, has := m[name]; has {
			return x
		}
	}
	return ev.miss()
}

func (ev *evaluator) index(num string, v interface{}) interface{} {
	arr, ok := v.([]interface{})
	if !ok {
		return ev.miss()
	}
	i := gen.BigOf(num)
	n := big.NewInt(int64(len(arr)))
	if i.Sign() < 0 {
		i.Add(i, n)
	}
	if i.Sign() < 0 || i.Cmp(n) >= 0 {
		return ev.miss()
	}
	return arr[i.Int64()]
}

// steps_ applies chain steps to x. nudFirst: the first step is a prefix form.
func (ev *evaluator) steps_(steps []gen.Step, x interface{}, nudFirst bool) (interface{}, error) {
	i := 0
	for i < len(steps) {
		ev.tick()
		s := steps[i]
		if !s.IsProjection() {
			var err error
			x, err = ev.simple(s, x)
			if err != nil {
				return nil, err
			}
			i++
			continue
		}
		nud := nudFirst && i == 0
		j := gen.RHSSpan(steps, i+1, gen.RHSPower(s, nud, ev.q), ev.q)
		rhs := steps[i+1 : j]
		var err error
		x, err = ev.project(s, x, rhs)
		if err != nil {
			return nil, err
		}
		i = j
	}
	return x, nil
}

func (ev *evaluator) simple(s gen.Step, x interface{}) (interface{}, error) {
	switch s.K {
	case gen.SField:
		return ev.field(s.Name, x), nil
	case gen.SIndex:
		return ev.index(s.Num, x), nil
	case gen.SMultiList, gen.SMultiHash, gen.SFunc:
		return ev.eval(s.X, x)
	}
	panic("model: simple step")
}

func (ev *evaluator) project(s gen.Step, x interface{}, rhs []gen.Step) (interface{}, error) {
	var elems []interface{}
	switch s.K {
	case gen.SListStar:
		arr, ok := x.([]interface{})
		if !ok {
			return ev.miss(), nil
		}
		elems = arr
	case gen.SFlatten:
		arr, ok := x.([]interface{})
		if !ok {
			return ev.miss(), nil
		}
		elems = make([]interface{}, 0, len(arr))
		for _, e := range arr {
			if sub, ok := e.([]interface{}); ok {
				elems = append(elems, sub...)
			} else {
				elems = append(elems, e)
			}
		}
	case gen.SSlice:
		arr, ok := x.([]interface{})
		if !ok {
			return ev.miss(), nil
		}
		var p [3]*big.Int
		for k := 0; k < 3; k++ {
			if s.Sl[k] != nil {
				p[k] = gen.BigOf(*s.Sl[k])
			}
		}
		idx, step0 := PySliceIndices(len(arr), p[0], p[1], p[2])
		if step0 {
			return nil, ev.fail(ErrValue)
		}
		elems = make([]interface{}, 0, len(idx))
		for _, i := range idx {
			elems = append(elems, arr[i])
		}
	case gen.SFilter:
		arr, ok := x.([]interface{})
		if !ok {
			return ev.miss(), nil
		}
		elems = make([]interface{}, 0, len(arr))
		for _, e := range arr {
			c, err := ev.eval(s.X, e)
			if err != nil {
				return nil, err
			}
			f, ok := Falsy(c)
			if !ok {
				return nil, dc("truth value of an expression reference")
			}
			if !f {
				elems = append(elems, e)
			}
		}
	case gen.SStar:
		m, ok := x.(map[string]interface{})
		if !ok {
			return ev.miss(), nil
		}
		keys := sortedKeys(m)
		ev.st.ObjIterations++
		elems = make([]interface{}, 0, len(keys))
		for _, k := range ev.ch.perm(len(keys)) {
			elems = append(elems, m[keys[k]])
		}
	default:
		panic("model: project")
	}
	out := make([]interface{}, 0, len(elems))
	for _, e := range elems {
		ev.st.ProjElems++
		r, err := ev.steps_(rhs, e, true)
		if err != nil {
			return nil, err
		}
		if r != nil {
			out = append(out, r)
		}
	}
	return out, nil
}

func sortedKeys(m map[string]interface{}) []string {
	keys := make([]string, 0, len(m))
	for k := range m {
		keys = append(keys, k)
	}
	sort.Strings(keys)
	return keys
}
