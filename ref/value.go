// Package ref holds E2/E3 of DESIGN.md: an executable model of JMESPath
// evaluation over gen trees, written from the specification and the
// property statements, sharing no code with /repo; the Python-slice model;
// the function signature table; and the ABNF recogniser.
package ref

import (
	"encoding/json"
	"fmt"
	"math"
	"sort"
	"strconv"
	"strings"

	"verifharness/gen"
)

// Values are Go JSON values (nil, bool, float64, string, []interface{},
// map[string]interface{}) plus two model-only kinds.

// Closure is the value of an expression reference.
type Closure struct{ Body *gen.Expr }

// ToStr is the result of to_string on a non-string: *some* JSON text t with
// decode(t) ≡ V. The specification does not fix the text (spacing, member
// order, escapes), so the model does not either.
type ToStr struct{ V interface{} }

// TypeOf names the JMESPath type of a model value.
func TypeOf(v interface{}) string {
	switch v.(type) {
	case nil:
		return "null"
	case bool:
		return "boolean"
	case float64:
		return "number"
	case string, ToStr:
		return "string"
	case []interface{}:
		return "array"
	case map[string]interface{}:
		return "object"
	case *Closure:
		return "expref"
	}
	return "?"
}

// Falsy is the JMESPath truth definition. ok=false: undefined for this value.
func Falsy(v interface{}) (falsy bool, ok bool) {
	switch t := v.(type) {
	case nil:
		return true, true
	case bool:
		return !t, true
	case float64:
		return false, true
	case string:
		return t == "", true
	case ToStr:
		return false, true // a JSON text is never empty
	case []interface{}:
		return len(t) == 0, true
	case map[string]interface{}:
		return len(t) == 0, true
	}
	return false, false
}

// DeepEq is JSON deep equality, never equal across types. ok=false when a
// model-only value is involved.
func DeepEq(a, b interface{}) (eq bool, ok bool) {
	if !notModelOnly(a) || !notModelOnly(b) {
		return false, false
	}
	switch x := a.(type) {
	case nil:
		return b == nil, true
	case bool:
		y, is := b.(bool)
		return is && x == y, true
	case float64:
		y, is := b.(float64)
		return is && x == y, true
	case string:
		y, is := b.(string)
		return is && x == y, true
	case []interface{}:
		y, is := b.([]interface{})
		if !is || len(x) != len(y) {
			return false, true
		}
		all, unknown := true, false
		for i := range x {
			e, ok := DeepEq(x[i], y[i])
			if !ok {
				unknown = true
			} else if !e {
				all = false
			}
		}
		if !all {
			return false, true
		}
		return !unknown, !unknown
	case map[string]interface{}:
		y, is := b.(map[string]interface{})
		if !is || len(x) != len(y) {
			return false, true
		}
		all, unknown := true, false
		for k, xv := range x {
			yv, has := y[k]
			if !has {
				all = false
				continue
			}
			e, ok := DeepEq(xv, yv)
			if !ok {
				unknown = true
			} else if !e {
				all = false
			}
		}
		if !all {
			return false, true
		}
		return !unknown, !unknown
	}
	return false, false
}

// ContainsModelOnly reports whether v contains a ToStr or a Closure.
func ContainsModelOnly(v interface{}) bool {
	switch t := v.(type) {
	case *Closure, ToStr:
		return true
	case []interface{}:
		for _, e := range t {
			if ContainsModelOnly(e) {
				return true
			}
		}
	case map[string]interface{}:
		for _, e := range t {
			if ContainsModelOnly(e) {
				return true
			}
		}
	}
	return false
}

func notModelOnly(v interface{}) bool {
	switch v.(type) {
	case ToStr, *Closure:
		return false
	}
	return true
}

// ContainsClosure reports whether v contains a Closure anywhere.
func ContainsClosure(v interface{}) bool {
	switch t := v.(type) {
	case *Closure:
		return true
	case ToStr:
		return ContainsClosure(t.V)
	case []interface{}:
		for _, e := range t {
			if ContainsClosure(e) {
				return true
			}
		}
	case map[string]interface{}:
		for _, e := range t {
			if ContainsClosure(e) {
				return true
			}
		}
	}
	return false
}

// NumEq compares two numbers allowing for a different order of floating
// point operations (sum, avg).
func NumEq(a, b float64) bool {
	if a == b {
		return true
	}
	if math.IsInf(a, 0) || math.IsInf(b, 0) || math.IsNaN(a) || math.IsNaN(b) {
		return false // (an infinity is "near" nothing: Inf <= 1e-9*Inf would hold)
	}
	d := math.Abs(a - b)
	m := math.Max(1, math.Max(math.Abs(a), math.Abs(b)))
	return d <= 1e-9*m
}

// Match reports whether an observed Go value is the expected model value:
// same JSON type at every position (by Go dynamic type), equal content.
// A nil slice/map is accepted here as an empty container; that defect is
// C16's and is reported by mon.JSONClosed.
func Match(exp, obs interface{}) bool {
	switch x := exp.(type) {
	case nil:
		return obs == nil
	case bool:
		y, ok := obs.(bool)
		return ok && x == y
	case float64:
		y, ok := obs.(float64)
		return ok && (NumEq(x, y))
	case string:
		y, ok := obs.(string)
		return ok && x == y
	case ToStr:
		y, ok := obs.(string)
		if !ok {
			return false
		}
		var dec interface{}
		if err := json.Unmarshal([]byte(y), &dec); err != nil {
			return false
		}
		return Match(x.V, dec)
	case []interface{}:
		y, ok := obs.([]interface{})
		if !ok || len(x) != len(y) {
			return false
		}
		for i := range x {
			if !Match(x[i], y[i]) {
				return false
			}
		}
		return true
	case map[string]interface{}:
		y, ok := obs.(map[string]interface{})
		if !ok || len(x) != len(y) {
			return false
		}
		for k, xv := range x {
			yv, has := y[k]
			if !has || !Match(xv, yv) {
				return false
			}
		}
		return true
	}
	return false
}

// Canon renders a model value (or any Go value) deterministically, for
// de-duplication, logs and replay files. Non-JSON Go values are rendered
// with their Go type so that a representation leak is visible.
func Canon(v interface{}) string {
	var sb strings.Builder
	canon(&sb, v)
	return sb.String()
}

func canon(sb *strings.Builder, v interface{}) {
	switch t := v.(type) {
	case nil:
		sb.WriteString("null")
	case bool:
		sb.WriteString(strconv.FormatBool(t))
	case float64:
		if t == 0 {
			sb.WriteString("0")
		} else {
			sb.WriteString(strconv.FormatFloat(t, 'g', -1, 64))
		}
	case string:
		sb.WriteString(strconv.QuoteToASCII(t))
	case ToStr:
		sb.WriteString("to_string<")
		canon(sb, t.V)
		sb.WriteString(">")
	case *Closure:
		sb.WriteString("&<" + gen.Spell(t.Body) + ">")
	case []interface{}:
		if t == nil {
			sb.WriteString("nil-slice")
			return
		}
		sb.WriteByte('[')
		for i, e := range t {
			if i > 0 {
				sb.WriteByte(',')
			}
			canon(sb, e)
		}
		sb.WriteByte(']')
	case map[string]interface{}:
		if t == nil {
			sb.WriteString("nil-map")
			return
		}
		keys := make([]string, 0, len(t))
		for k := range t {
			keys = append(keys, k)
		}
		sort.Strings(keys)
		sb.WriteByte('{')
		for i, k := range keys {
			if i > 0 {
				sb.WriteByte(',')
			}
			sb.WriteString(strconv.QuoteToASCII(k))
			sb.WriteByte(':')
			canon(sb, t[k])
		}
		sb.WriteByte('}')
	default:
		sb.WriteString("#<go:" + goTypeName(v) + " " + goValue(v) + ">")
	}
}

func goTypeName(v interface{}) string { return fmt.Sprintf("%T", v) }

func goValue(v interface{}) string {
	s := fmt.Sprintf("%v", v)
	if len(s) > 200 {
		s = s[:200] + "…"
	}
	return s
}
