package ref

import (
	"math"
	"math/big"
	"sort"
	"strconv"
	"strings"
	"unicode/utf8"
)

// Sig is one entry of the function signature table, written from the
// JMESPath function specification.
type Sig struct {
	Name     string
	Params   [][]string // allowed types per declared position
	Variadic bool       // the last declared position may repeat (≥ 1 occurrence)
}

// Types used in Params: number string boolean array object null expref any
// array[number] array[string].

var Signatures = map[string]Sig{}

func sig(name string, variadic bool, params ...[]string) {
	Signatures[name] = Sig{Name: name, Params: params, Variadic: variadic}
}

func t(ts ...string) []string { return ts }

func init() {
	sig("abs", false, t("number"))
	sig("avg", false, t("array[number]"))
	sig("ceil", false, t("number"))
	sig("contains", false, t("array", "string"), t("any"))
	sig("ends_with", false, t("string"), t("string"))
	sig("floor", false, t("number"))
	sig("join", false, t("string"), t("array[string]"))
	sig("keys", false, t("object"))
	sig("length", false, t("string", "array", "object"))
	sig("map", false, t("expref"), t("array"))
	sig("max", false, t("array[number]", "array[string]"))
	sig("max_by", false, t("array"), t("expref"))
	sig("merge", true, t("object"))
	sig("min", false, t("array[number]", "array[string]"))
	sig("min_by", false, t("array"), t("expref"))
	sig("not_null", true, t("any"))
	sig("reverse", false, t("string", "array"))
	sig("sort", false, t("array[number]", "array[string]"))
	sig("sort_by", false, t("array"), t("expref"))
	sig("starts_with", false, t("string"), t("string"))
	sig("sum", false, t("array[number]"))
	sig("to_array", false, t("any"))
	sig("to_string", false, t("any"))
	sig("to_number", false, t("any"))
	sig("type", false, t("any"))
	sig("values", false, t("object"))
}

// FunctionNames lists the 26 built-ins in sorted order.
func FunctionNames() []string {
	names := make([]string, 0, len(Signatures))
	for n := range Signatures {
		names = append(names, n)
	}
	sort.Strings(names)
	return names
}

// typeMatches: does value v have declared type ty? dontcare=true when the
// specification leaves it open (an expression reference given for `any`).
func typeMatches(ty string, v interface{}) (ok bool, dontcare bool) {
	vt := TypeOf(v)
	switch ty {
	case "any":
		// any = any JSON value; an expression reference is not one (C10:
		// "an expression reference where a value is required … is an error")
		return vt != "expref", false
	case "array[number]", "array[string]":
		arr, is := v.([]interface{})
		if !is {
			return false, false
		}
		want := "number"
		if ty == "array[string]" {
			want = "string"
		}
		for _, e := range arr {
			if TypeOf(e) != want {
				return false, false
			}
		}
		return true, false
	}
	return vt == ty, false
}

// CheckArgs applies the signature table. It returns "" when the call is
// well-formed, the error kind otherwise; dontcare when undefined.
func CheckArgs(name string, args []interface{}) (kind ErrKind, dontcare bool) {
	s, ok := Signatures[name]
	if !ok {
		return ErrUnknownFunction, false
	}
	if s.Variadic {
		if len(args) < len(s.Params) {
			return ErrArity, false
		}
	} else if len(args) != len(s.Params) {
		return ErrArity, false
	}
	dcAny := false
	for i, a := range args {
		p := s.Params[len(s.Params)-1]
		if i < len(s.Params) {
			p = s.Params[i]
		}
		matched, open := false, false
		for _, ty := range p {
			ok, d := typeMatches(ty, a)
			matched = matched || ok
			open = open || d
		}
		if matched {
			continue
		}
		if !open {
			return ErrType, false // an ill-typed argument anywhere makes the call an error
		}
		dcAny = true
	}
	return "", dcAny
}

func runes(s string) []rune { return []rune(s) }

func cmpStr(a, b string) int {
	// code point order
	ra, rb := runes(a), runes(b)
	for i := 0; i < len(ra) && i < len(rb); i++ {
		if ra[i] != rb[i] {
			if ra[i] < rb[i] {
				return -1
			}
			return 1
		}
	}
	switch {
	case len(ra) < len(rb):
		return -1
	case len(ra) > len(rb):
		return 1
	}
	return 0
}

// needStr extracts a concrete string; a to_string text is not concrete.
func needStr(v interface{}) (string, error) {
	switch s := v.(type) {
	case string:
		return s, nil
	case ToStr:
		return "", dc("text of to_string inspected")
	}
	panic("model: needStr on non-string")
}

// JSONNumber reports whether s is a JSON number (RFC 8259 grammar) and its
// value.
func JSONNumber(s string) (float64, bool) {
	i, n := 0, len(s)
	if i < n && s[i] == '-' {
		i++
	}
	if i >= n {
		return 0, false
	}
	if s[i] == '0' {
		i++
	} else if s[i] >= '1' && s[i] <= '9' {
		for i < n && s[i] >= '0' && s[i] <= '9' {
			i++
		}
	} else {
		return 0, false
	}
	if i < n && s[i] == '.' {
		i++
		if i >= n || s[i] < '0' || s[i] > '9' {
			return 0, false
		}
		for i < n && s[i] >= '0' && s[i] <= '9' {
			i++
		}
	}
	if i < n && (s[i] == 'e' || s[i] == 'E') {
		i++
		if i < n && (s[i] == '+' || s[i] == '-') {
			i++
		}
		if i >= n || s[i] < '0' || s[i] > '9' {
			return 0, false
		}
		for i < n && s[i] >= '0' && s[i] <= '9' {
			i++
		}
	}
	if i != n {
		return 0, false
	}
	f, err := strconv.ParseFloat(s, 64)
	if err != nil && (math.IsInf(f, 0) || math.IsNaN(f)) {
		return 0, false
	}
	return f, true
}

func (ev *evaluator) call(name string, args []interface{}) (interface{}, error) {
	kind, dcare := CheckArgs(name, args)
	if kind != "" {
		return nil, ev.fail(kind)
	}
	if dcare {
		return nil, dc("expression reference given for an `any` parameter")
	}
	switch name {
	case "abs":
		return math.Abs(args[0].(float64)), nil
	case "ceil":
		return math.Ceil(args[0].(float64)), nil
	case "floor":
		return math.Floor(args[0].(float64)), nil
	case "avg":
		arr := args[0].([]interface{})
		if len(arr) == 0 {
			return nil, nil
		}
		s := 0.0
		for _, e := range arr {
			s += e.(float64)
		}
		if math.IsInf(s, 0) {
			// the running total left the float64 range; the mean of finite numbers never does (a result is a JSON number, C16)
			if ex := exactTotal(arr); ex != nil {
				m, _ := ex.Quo(ex, new(big.Rat).SetInt64(int64(len(arr)))).Float64()
				return m, nil
			}
		}
		return s / float64(len(arr)), nil
	case "sum":
		s := 0.0
		for _, e := range args[0].([]interface{}) {
			s += e.(float64)
		}
		if math.IsInf(s, 0) {
			// a total that is finite is that number however the partial sums went; one that is not is no JSON number, and the
			// specification has no value for it: an error, never an infinity (C16)
			if ex := exactTotal(args[0].([]interface{})); ex != nil {
				if s, _ = ex.Float64(); math.IsInf(s, 0) {
					return nil, ev.fail(ErrValue)
				}
			}
		}
		return s, nil
	case "contains":
		switch subj := args[0].(type) {
		case []interface{}:
			found, unknown := false, false
			for _, e := range subj {
				eq, ok := DeepEq(e, args[1])
				if !ok {
					unknown = true
				} else if eq {
					found = true
				}
			}
			if found {
				return true, nil
			}
			if unknown {
				return nil, dc("contains over to_string text")
			}
			return false, nil
		case string:
			if n, ok := args[1].(string); ok {
				return strings.Contains(subj, n), nil
			}
			return nil, dc("contains(string, non-string) is not defined by the specification")
		case ToStr:
			return nil, dc("text of to_string inspected")
		}
	case "starts_with", "ends_with":
		a, err := needStr(args[0])
		if err != nil {
			return nil, err
		}
		b, err := needStr(args[1])
		if err != nil {
			return nil, err
		}
		if name == "starts_with" {
			return len(b) <= len(a) && a[:len(b)] == b, nil
		}
		return len(b) <= len(a) && a[len(a)-len(b):] == b, nil
	case "join":
		glue, err := needStr(args[0])
		if err != nil {
			return nil, err
		}
		var sb strings.Builder
		for i, e := range args[1].([]interface{}) {
			s, err := needStr(e)
			if err != nil {
				return nil, err
			}
			if i > 0 {
				sb.WriteString(glue)
			}
			sb.WriteString(s)
		}
		return sb.String(), nil
	case "keys", "values":
		m := args[0].(map[string]interface{})
		keys := sortedKeys(m)
		ev.st.ObjIterations++
		out := make([]interface{}, 0, len(keys))
		for _, k := range ev.ch.perm(len(keys)) {
			if name == "keys" {
				out = append(out, keys[k])
			} else {
				out = append(out, m[keys[k]])
			}
		}
		return out, nil
	case "length":
		switch x := args[0].(type) {
		case string:
			return float64(utf8.RuneCountInString(x)), nil
		case ToStr:
			return nil, dc("text of to_string inspected")
		case []interface{}:
			return float64(len(x)), nil
		case map[string]interface{}:
			return float64(len(x)), nil
		}
	case "map":
		body := args[0].(*Closure).Body
		arr := args[1].([]interface{})
		out := make([]interface{}, 0, len(arr))
		for _, e := range arr {
			r, err := ev.eval(body, e)
			if err != nil {
				return nil, err
			}
			out = append(out, r)
		}
		return out, nil
	case "max", "min":
		arr := args[0].([]interface{})
		if len(arr) == 0 {
			return nil, nil
		}
		best := arr[0]
		for _, e := range arr[1:] {
			c, err := cmpKey(e, best)
			if err != nil {
				return nil, err
			}
			if (name == "max" && c > 0) || (name == "min" && c < 0) {
				best = e
			}
		}
		return best, nil
	case "max_by", "min_by", "sort_by":
		arr := args[0].([]interface{})
		body := args[1].(*Closure).Body
		keys := make([]interface{}, len(arr))
		kt := ""
		for i, e := range arr {
			k, err := ev.eval(body, e)
			if err != nil {
				return nil, err
			}
			ty := TypeOf(k)
			if ty != "number" && ty != "string" {
				return nil, ev.fail(ErrType)
			}
			if kt == "" {
				kt = ty
			} else if kt != ty {
				return nil, ev.fail(ErrType)
			}
			keys[i] = k
		}
		if name == "sort_by" {
			idx := make([]int, len(arr))
			for i := range idx {
				idx[i] = i
			}
			var serr error
			// insertion sort: stable by construction, n is small
			for i := 1; i < len(idx); i++ {
				for j := i; j > 0; j-- {
					c, err := cmpKey(keys[idx[j]], keys[idx[j-1]])
					if err != nil {
						serr = err
						break
					}
					if c < 0 {
						idx[j], idx[j-1] = idx[j-1], idx[j]
					} else {
						break
					}
				}
			}
			if serr != nil {
				return nil, serr
			}
			out := make([]interface{}, len(arr))
			for i, k := range idx {
				out[i] = arr[k]
			}
			return out, nil
		}
		if len(arr) == 0 {
			return nil, nil
		}
		bi := 0
		for i := 1; i < len(arr); i++ {
			c, err := cmpKey(keys[i], keys[bi])
			if err != nil {
				return nil, err
			}
			if (name == "max_by" && c > 0) || (name == "min_by" && c < 0) {
				bi = i
			}
		}
		return arr[bi], nil
	case "sort":
		arr := args[0].([]interface{})
		out := append([]interface{}{}, arr...)
		for i := 1; i < len(out); i++ {
			for j := i; j > 0; j-- {
				c, err := cmpKey(out[j], out[j-1])
				if err != nil {
					return nil, err
				}
				if c < 0 {
					out[j], out[j-1] = out[j-1], out[j]
				} else {
					break
				}
			}
		}
		return out, nil
	case "merge":
		out := map[string]interface{}{}
		for _, a := range args {
			for k, v := range a.(map[string]interface{}) {
				out[k] = v
			}
		}
		return out, nil
	case "not_null":
		for _, a := range args {
			if a != nil {
				return a, nil
			}
		}
		return nil, nil
	case "reverse":
		switch x := args[0].(type) {
		case string:
			r := runes(x)
			for i, j := 0, len(r)-1; i < j; i, j = i+1, j-1 {
				r[i], r[j] = r[j], r[i]
			}
			return string(r), nil
		case ToStr:
			return nil, dc("text of to_string inspected")
		case []interface{}:
			out := make([]interface{}, len(x))
			for i, e := range x {
				out[len(x)-1-i] = e
			}
			return out, nil
		}
	case "to_array":
		if _, ok := args[0].([]interface{}); ok {
			return args[0], nil
		}
		return []interface{}{args[0]}, nil
	case "to_string":
		switch x := args[0].(type) {
		case string, ToStr:
			return x, nil
		}
		if ContainsModelOnly(args[0]) {
			return nil, dc("to_string over to_string text")
		}
		return ToStr{V: args[0]}, nil
	case "to_number":
		switch x := args[0].(type) {
		case float64:
			return x, nil
		case string:
			if f, ok := JSONNumber(x); ok {
				return f, nil
			}
			return nil, nil
		case ToStr:
			// the JSON text of a number is a JSON number; of anything else it is not
			if f, ok := x.V.(float64); ok {
				return f, nil
			}
			return nil, nil
		}
		return nil, nil
	case "type":
		return TypeOf(args[0]), nil
	}
	panic("model: function " + name + " not implemented for these arguments")
}

// cmpKey orders two numbers or two strings.
func cmpKey(a, b interface{}) (int, error) {
	switch x := a.(type) {
	case float64:
		y := b.(float64)
		switch {
		case x < y:
			return -1, nil
		case x > y:
			return 1, nil
		}
		return 0, nil
	case string:
		y, ok := b.(string)
		if !ok {
			return 0, dc("ordering to_string text")
		}
		return cmpStr(x, y), nil
	case ToStr:
		return 0, dc("ordering to_string text")
	}
	panic("model: cmpKey")
}

// exactTotal is the exact sum of finite numbers (nil when one of them is not finite: documents that are not JSON data).
func exactTotal(arr []interface{}) *big.Rat {
	t := new(big.Rat)
	for _, e := range arr {
		r := new(big.Rat).SetFloat64(e.(float64))
		if r == nil {
			return nil
		}
		t.Add(t, r)
	}
	return t
}
