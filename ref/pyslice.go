package ref

import "math/big"

// PySliceIndices returns the indices Python's extended slicing selects from a
// sequence of length n for [a:b:c] (nil = absent), following CPython's
// PySlice_AdjustIndices and range semantics. All arithmetic is unbounded.
// step0 reports c == 0.
func PySliceIndices(n int, a, b, c *big.Int) (idx []int, step0 bool) {
	N := big.NewInt(int64(n))
	step := big.NewInt(1)
	if c != nil {
		step = new(big.Int).Set(c)
	}
	if step.Sign() == 0 {
		return nil, true
	}
	neg := step.Sign() < 0
	var lo, hi *big.Int
	if neg {
		lo, hi = big.NewInt(-1), new(big.Int).Sub(N, big.NewInt(1))
	} else {
		lo, hi = big.NewInt(0), new(big.Int).Set(N)
	}
	adj := func(v *big.Int) *big.Int {
		x := new(big.Int).Set(v)
		if x.Sign() < 0 {
			x.Add(x, N)
			if x.Cmp(lo) < 0 {
				x.Set(lo)
			}
		} else if x.Cmp(hi) > 0 {
			x.Set(hi)
		}
		return x
	}
	var start, stop *big.Int
	if a == nil {
		if neg {
			start = hi
		} else {
			start = lo
		}
	} else {
		start = adj(a)
	}
	if b == nil {
		if neg {
			stop = lo
		} else {
			stop = hi
		}
	} else {
		stop = adj(b)
	}
	idx = []int{}
	i := new(big.Int).Set(start)
	for {
		if neg {
			if i.Cmp(stop) <= 0 {
				break
			}
		} else if i.Cmp(stop) >= 0 {
			break
		}
		idx = append(idx, int(i.Int64()))
		i.Add(i, step)
	}
	return idx, false
}
