package ref

import (
	"bufio"
	"encoding/json"
	"math/big"
	"os"
	"strconv"
	"strings"
	"testing"

	"verifharness/gen"
)

// Calibration self-tests (DESIGN §3.x): they pin the reference engines to
// frozen external expectations — the JMESPath compliance suite's official
// results and real CPython slicing — and never touch /repo.

type frozenCase struct {
	File   string      `json:"file"`
	Expr   string      `json:"expr"`
	Tree   *gen.Expr   `json:"tree"`
	Given  interface{} `json:"given"`
	Result interface{} `json:"result"`
	Error  string      `json:"error"`
}

func loadFrozen(t *testing.T) []frozenCase {
	b, err := os.ReadFile("../testdata/compliance_trees.json")
	if err != nil {
		t.Fatal(err)
	}
	var cs []frozenCase
	if err := json.Unmarshal(b, &cs); err != nil {
		t.Fatal(err)
	}
	return cs
}

func TestModelAgreesWithComplianceSuite(t *testing.T) {
	cs := loadFrozen(t)
	values, errors := 0, 0
	for _, c := range cs {
		if c.Tree == nil {
			continue
		}
		res := RefSet(c.Tree, c.Given, gen.Quirks{})
		if c.Error != "" {
			if len(res.Outcomes) != 1 || res.Outcomes[0].Err == "" {
				t.Errorf("%s %q: official error %q, model %v", c.File, c.Expr, c.Error, res.Outcomes)
			}
			errors++
			continue
		}
		if res.DontCare || res.Skipped != "" {
			continue
		}
		hit := false
		for _, o := range res.Outcomes {
			if o.Err == "" && Match(o.V, c.Result) {
				hit = true
			}
		}
		if !hit {
			t.Errorf("%s %q: official %s, model %v", c.File, c.Expr, Canon(c.Result), res.Outcomes)
		}
		values++
	}
	if values < 700 || errors < 40 {
		t.Fatalf("calibration set too small: %d values, %d errors", values, errors)
	}
	t.Logf("model agrees with %d official values and %d official errors", values, errors)
}

func TestSpellingOfFrozenTreesLexesBack(t *testing.T) {
	// Tight and whitespace spellings of every frozen tree must lex to the
	// same token types as the single-space spelling (pair table soundness).
	r := gen.NewRand(7)
	for _, c := range loadFrozen(t) {
		if c.Tree == nil {
			continue
		}
		toks := gen.Tokens(c.Tree, gen.Min)
		base, err := gen.RefLex(strings.Join(toks, " "))
		if err != nil {
			t.Fatalf("%q: %v", c.Expr, err)
		}
		for _, s := range []string{gen.JoinTight(toks), gen.JoinWS(toks, r)} {
			got, err := gen.RefLex(s)
			if err != nil || len(got) != len(base) {
				t.Fatalf("%q: spelling %q lexes differently (%v)", c.Expr, s, err)
			}
			for i := range got {
				if got[i].T != base[i].T || got[i].Text != base[i].Text {
					t.Fatalf("%q: spelling %q token %d differs", c.Expr, s, i)
				}
			}
		}
	}
}

func TestGrammarAgreesWithComplianceSuite(t *testing.T) {
	acc, rej := 0, 0
	for _, c := range loadFrozen(t) {
		toks, err := gen.RefLex(c.Expr)
		var tt []gen.TokType
		for _, k := range toks {
			tt = append(tt, k.T)
		}
		ok := err == nil && Accepts(tt, Relax{})
		switch {
		case c.Error == "syntax":
			if ok && !knownSyntaxBeyondABNF[c.Expr] {
				t.Errorf("%s %q: official syntax error, recogniser accepts", c.File, c.Expr)
			}
			rej++
		case c.Error == "":
			if !ok {
				t.Errorf("%s %q: valid expression rejected by the recogniser (%v)", c.File, c.Expr, err)
			}
			acc++
		}
	}
	if acc < 700 || rej < 80 {
		t.Fatalf("calibration set too small: %d accepted, %d rejected", acc, rej)
	}
	t.Logf("recogniser accepts %d valid and rejects %d invalid official expressions", acc, rej)
}

// Official "syntax" errors that are not grammar facts: a token sequence
// that the ABNF derives but whose lexeme content is invalid (bad JSON in a
// literal, bad escape in a quoted identifier). Token-level membership
// cannot see inside lexemes; C04's alphabet contains only valid lexemes.
var knownSyntaxBeyondABNF = map[string]bool{}

func TestPySliceAgainstCPython(t *testing.T) {
	f, err := os.Open("../testdata/cpython_slices.txt")
	if err != nil {
		t.Fatal(err)
	}
	defer f.Close()
	sc := bufio.NewScanner(f)
	rows := 0
	p := func(s string) *big.Int {
		if s == "_" {
			return nil
		}
		b, ok := new(big.Int).SetString(s, 10)
		if !ok {
			t.Fatalf("bad int %q", s)
		}
		return b
	}
	for sc.Scan() {
		line := sc.Text()
		bar := strings.IndexByte(line, '|')
		f := strings.Fields(line[:bar])
		n, _ := strconv.Atoi(f[0])
		idx, step0 := PySliceIndices(n, p(f[1]), p(f[2]), p(f[3]))
		want := line[bar+1:]
		if want == "E" {
			if !step0 {
				t.Fatalf("%s: expected step-0 error", line)
			}
			rows++
			continue
		}
		parts := make([]string, len(idx))
		for i, x := range idx {
			parts[i] = strconv.Itoa(x)
		}
		if got := strings.Join(parts, ","); got != want || step0 {
			t.Fatalf("%s: model selects %q", line, got)
		}
		rows++
	}
	if rows < 30000 {
		t.Fatalf("table too small: %d", rows)
	}
	t.Logf("slice model agrees with CPython on %d rows", rows)
}
